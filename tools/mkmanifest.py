"""Regenerates /verif/MANIFEST.json from the per-property metadata below.
A property is listed under `checks` iff hl7lint/rules/<id>.py exists."""
import json
import os

VERIF = os.path.dirname(os.path.dirname(os.path.abspath(__file__)))

META = {
    'C01': dict(
        technique='static analysis: sibling agreement of reader/writer separator keys per level, exhaustive table rank rule, def-use (verbatim leaf flow), MSH-1/2 pairing',
        text='Decides five structural necessary conditions of the parse->encode identity (separator-key agreement of each parser/encoder pair, table rank=suffix for all 12 versions, ordinal naming, MSH-1/MSH-2 pairing, verbatim flow of leaf text). Does NOT decide the round trip of datatype objects or trailing-empty trimming (runtime values).',
        note='Trusted: ast of the working tree; table modules are pure literals (checked). Round-trip equality of two executions is declined (DESIGN 3/C01).',
        ref='DESIGN.md section 3, C01'),
    'C02': dict(
        technique='exhaustive evaluation of the version tables from their syntax trees + linear-form checks of the ordinal-naming / open-ended-segment code',
        text='Exhaustive over all 12 versions: every segment/datatype position has rank = suffix, rows are instantiable (shape/arity derived from the consuming constructor code), references resolve, leaf/sequence datatypes are consistent; plus code lemmas (encoder order = table order, parser ordinal naming offset 1, open-ended segment bookkeeping).',
        note='Trusted: the table evaluator (literals + cross references + two recognised fix-up loops, anything else = ANALYSIS-ERROR). Values containing separators are C06.',
        ref='DESIGN.md section 3, C02'),
    'C03': dict(
        technique='CFG path rule: every non-empty split piece reaches an attach sink or a raise',
        text='In every parse_* loop over a split result, each piece reaches an append/add sink, a raise, or the false branch of an emptiness test, on every CFG path; insertion-ordered paths apply no reordering; unknown children keep a catch-all branch.',
        note='Axiom: str.split returns >= 1 piece. Equality of outputs is declined.',
        ref='DESIGN.md section 3, C03'),
    'C04': dict(
        technique='effect analysis (validator purity) + verdict plumbing def-use + call-graph liveness + exhaustive table cardinalities',
        text='validate() and everything it reaches write nothing but an allow-listed memo/shadow set; is_valid / raised error / report all derive from the same error list; every _check_* closure is live; every cardinality in every table is satisfiable. The verdict as a function of the message is declined.',
        note='Trusted: call resolution (class-hierarchy analysis) and the attribute-owner model.',
        ref='DESIGN.md section 3, C04'),
    'C05': dict(
        technique='classification of every validation-level test (refusal-only / frozen tolerant adaptation / violation), dominance of attach admission, predicate agreement',
        text='Every place the validation level is consulted is either refusal-only under STRICT or a listed tolerant adaptation; every list/index insertion is dominated by the admission check; attach and validator cardinality predicates agree; level tests use the resolved level.',
        note='Equality of encodings/reports across two executions is declined.',
        ref='DESIGN.md section 3, C05'),
    'C06': dict(
        technique='regular-language analysis (automata over a symbolic delimiter alphabet) of the escape transduction extracted from the source',
        text='For all strings and all distinct delimiter sets: delimiter-freedom, well-formedness and idempotence of _escape_value (both variants) decided by automata built from the extracted translation table, regex guard and replacement template.',
        note='Assumes distinct delimiters none of which is an escape letter (the property\'s own domain); highlights declined.',
        ref='DESIGN.md section 3, C06'),
    'C07': dict(
        technique='three-way sibling agreement of the MSH-2 position<->role codec, version-threshold agreement, required-key coverage',
        text='Setter, getter and _split_msh agree on the role of every MSH-2 position (4- and 5-character forms), on the version threshold and arity; TRUNCATION is emitted/read exactly under its guards; every unguarded encoding_chars[K] uses a required key; the duplicate check covers every role written.',
        note='parse(to_er7()) equality is declined.',
        ref='DESIGN.md section 3, C07'),
    'C08': dict(
        technique='CFG pairing rules on the group-finding search (stack/cursor co-movement, push/pop balance), ordered iteration, sibling agreement of the two parse modes',
        text='Narrow: structural necessary conditions of the group search only; the tree produced for a given structure is a runtime result and is declined.',
        note='Does not decide that the group tree is the prescribed one.',
        ref='DESIGN.md section 3, C08'),
    'C09': dict(
        technique='call-graph reachability from positional write APIs + co-update pairing of list and by-name index',
        text='From insert() only positional list writes may be reachable; every ElementList mutator updates list and indexes together; deletions remove the addressed object by identity; proxies are copied by value first.',
        note='Equality with a reference model over histories is declined.',
        ref='DESIGN.md section 3, C09'),
    'C10': dict(
        technique='who-may-write encapsulation of list/indexes/traversal_indexes/_parent, co-update pairing, typestate on re-parenting',
        text='The child list, both indexes and the parent pointers are written only inside their owning class; list and index are co-updated; re-parenting must release the previous parent; lookup views read the same two fields.',
        note='Consistency after rejected calls is C12.',
        ref='DESIGN.md section 3, C10'),
    'C11': dict(
        technique='lemma chain over call graph and CFG: shadow-channel creation on reads, guarded real/shadow modes of append, who-may-read the shadow index, who-may-call promotion',
        text='Read entry points create missing elements only through the traversal (shadow) channel; encoders/validator never read the shadow index; promotion is callable only from write entry points.',
        note='Counts of created objects are declined.',
        ref='DESIGN.md section 3, C11'),
    'C12': dict(
        technique='CFG ordering rule: no persistent write precedes a raise-capable admission call in any mutator',
        text='In every mutator reachable from the public mutation API, no write to persistent state is followed on a CFG path by a statement that may raise an admission exception, unless listed as confirmed finding or infeasible with a reason.',
        note='Trusted: exception escape sets from explicit raises (E6).',
        ref='DESIGN.md section 3, C12'),
    'C13': dict(
        technique='domain inclusion between the pre-validator (utils.py: regex language, length intervals, format sets) and the datatype constructors',
        text='Narrow: the offset language, microsecond precision interval and format strings that utils can emit are accepted by the DT/TM/DTM constructors; the max-length guard is reached with the caller\'s level. Acceptance = HL7 grammar and text preservation are declined (semantics of strptime/Decimal).',
        note='Library semantics of strptime/Decimal/int are out of reach.',
        ref='DESIGN.md section 3, C13'),
    'C14': dict(
        technique='exhaustive table name rules + reaching definitions (case-fold precedes lookup) + definite non-None returns of find_child_reference',
        text='All child names / long names are upper-case identifiers; positional path arithmetic agrees with table naming; every lookup key is case-folded first; every find_child_reference path returns a reference or raises.',
        note='Object identity across the three spellings is declined.',
        ref='DESIGN.md section 3, C14'),
    'C15': dict(
        technique='exception-escape analysis of explicit raises from the entry points, header-indexing discipline, definite initialisation of conditionally-set attributes',
        text='Explicit raises reachable from parse_message / get_message_type / to_er7 / validate are library exceptions or ValueError; constant-index subscripts of split results in the header code are guarded; attributes set only by _find_structure are read guarded.',
        note='Implicit exceptions in general are declined (untyped Python).',
        ref='DESIGN.md section 3, C15'),
    'C16': dict(
        technique='constant agreement of the framing bytes at three sites, CFG path rules of handle(), regex language check, handler write confinement',
        text='to_mllp template, consts and the server agree on SB/EB/CR; handle() closes on every exit, writes at most once and only after routing; one raw recv feeding the accumulator only; handler writes confined to self.',
        note='TCP delivery and thread scheduling are declined.',
        ref='DESIGN.md section 3, C16'),
    'C17': dict(
        technique='context-argument forwarding at every resolved call site + control dependence of default getters on `is None`',
        text='At every call site whose callee takes version / validation_level / encoding_chars and whose caller has that value in scope, the value is passed on; default getters are consulted only to resolve a None argument; the defaults are written only by the setters.',
        note='Trusted: call resolution; output options (to_er7 encoding_chars=None) are a frozen exemption table.',
        ref='DESIGN.md section 3, C17'),
    'C18': dict(
        technique='reference threading (context forwarding for the structure reference) + sibling agreement of the profile entry points',
        text='Every child construction / parse_* call made where the parent structure is in scope passes a reference derived from it; validation uses the element\'s own reference; both profile entry points map KeyError and the legacy tag.',
        note='Effects of a profile on cardinalities/datatypes at run time are declined.',
        ref='DESIGN.md section 3, C18'),
    'C19': dict(
        technique='who-may-write effect analysis with an alias graph: no write to process-wide state outside set_default_*',
        text='Sufficient condition for thread-independence: no function other than the three setters writes a module variable, class-level attribute, structure table or default dict, directly or through an alias; mutable default parameters are not mutated.',
        note='Assumes CPython library calls are thread-safe and callers do not share element objects between threads.',
        ref='DESIGN.md section 3, C19'),
}

PENDING = 'check not implemented yet (work in progress; DESIGN.md gives the plan for this property)'


def main():
    checks, na = [], []
    for i in range(1, 20):
        pid = 'C%02d' % i
        m = META[pid]
        rp = os.path.join(VERIF, 'hl7lint', 'rules', pid.lower() + '.py')
        if os.path.exists(rp):
            import re
            rules = sorted(set(re.findall(r"'(%s-[A-Z][0-9A-Za-z]*)[ '|]" % pid, open(rp).read())))
            checks.append({
                'property_id': pid,
                'quick_cmd': './check %s --tier quick' % pid,
                'thorough_cmd': './check %s --tier thorough' % pid,
                'evidence_file': '/verif/evidence/%s.json' % pid,
                'replay_cmd_template': './check %s --replay {path}' % pid,
                'engine': 'hl7lint',
                'level_claimed': {'category': 'other', 'text': m['text'], 'design_ref': m['ref']},
                'level_note': m['note'] + ' Rules evaluated on every run: %s (what each decides: evidence file; '
                              'which seeded changes each catches: DESIGN.md section 10).' % ', '.join(rules),
                'technique': m['technique'],
            })
        else:
            na.append({'property_id': pid, 'reason': PENDING})
    man = {
        'version': 1,
        'setup_cmd': 'true',
        'hooks': {'guard': 'HL7APY_VERIF', 'enable': 'none needed: the checks read /repo as source text and execute nothing from it',
                  'baseline_off_cmd': 'cd /repo && /venv/bin/python -m pytest -q -p no:cacheprovider --timeout=900',
                  'source_commits': [], 'add_only': True},
        'engines': [{'name': 'hl7lint', 'path': '/verif/hl7lint',
                     'serves_properties': [c['property_id'] for c in checks],
                     'kind_free_text': 'repository-specific static analysis in pure Python (ast): source index with C3 MRO, '
                                       'type inference + class-hierarchy call graph incl. implicit calls, statement CFG, '
                                       'effect/alias analysis, table evaluator, automata'}],
        'checks': checks,
        'notes': 'Technique family: static analysis only. exit 0 = holds (KNOWN-FINDING lines for listed genuine defects), '
                 'exit 1 = VIOLATION, exit 2 = ANALYSIS-ERROR (anchor vanished). Known findings: /verif/known_findings.json.',
        'not_applicable': na,
    }
    with open(os.path.join(VERIF, 'MANIFEST.json'), 'w') as f:
        json.dump(man, f, indent=1)
    print('%d checks, %d pending' % (len(checks), len(na)))


if __name__ == '__main__':
    main()
