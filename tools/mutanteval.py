"""tools/mutanteval.py import <verdicts.json> | eval [ids...]

import  takes the verdict list of a triage batch (sub-agents classified surviving mutants of tools/mutsurvey.py), re-confirms
        every "violates" entry on a scratch worktree of /repo HEAD (demo exits 0 without and non-zero with the mutant) and
        stores it under /verif/mutants/<id>/ (patch.diff, demo.py, meta.json).
eval    applies every stored mutant to a scratch copy and runs all 19 checks; records which checks report it
        (meta.json: detected_by) and prints the ones no check reports.
Development aid; nothing here is used by a registered command.
"""
import glob
import json
import os
import shutil
import subprocess
import sys
from concurrent.futures import ThreadPoolExecutor

VERIF = os.path.dirname(os.path.dirname(os.path.abspath(__file__)))
MUT = os.path.join(VERIF, 'mutants')


def sh(cmd, **kw):
    return subprocess.run(cmd, shell=True, stdout=subprocess.PIPE, stderr=subprocess.STDOUT, universal_newlines=True, **kw)


def cmd_import(path):
    vs = json.load(open(path))
    wt = '/tmp/wtv/mutimport'
    sh('rm -rf %s; git -C /repo worktree prune; git -C /repo worktree add -q --detach %s HEAD' % (wt, wt))
    n = 0
    try:
        for v in vs:
            if v.get('verdict') != 'violates' or not v.get('demo') or not v.get('m'):
                continue
            m = v['m']
            demo = os.path.join('/tmp/wt', v['batch'], '_mut', os.path.basename(v['demo']))
            if not os.path.exists(demo):
                print('mutant %s: demo %s missing' % (v['id'], demo))
                continue
            sh('git checkout -- hl7apy', cwd=wt)
            os.makedirs(os.path.join(wt, '_mut'), exist_ok=True)
            shutil.copy(demo, os.path.join(wt, '_mut', 'demo.py'))
            helpers = [h for h in glob.glob(os.path.join(os.path.dirname(demo), '*.py'))
                       if not os.path.basename(h).startswith(('demo_', 'apply', 'exp', 'probe', 'try_', 'mkverdicts'))]
            for h in helpers:
                shutil.copy(h, os.path.join(wt, '_mut', os.path.basename(h)))
            r0 = sh('/venv/bin/python _mut/demo.py', cwd=wt)
            p = os.path.join(wt, m['file'])
            s = open(p).read()
            if s[m['a']:m['b']] != m['old']:
                print('mutant %s: stale offsets' % v['id'])
                continue
            open(p, 'w').write(s[:m['a']] + m['new'] + s[m['b']:])
            r1 = sh('/venv/bin/python _mut/demo.py', cwd=wt)
            diff = sh('git diff -- hl7apy', cwd=wt).stdout
            if r0.returncode != 0 or r1.returncode == 0:
                print('mutant %s: NOT confirmed (demo without=%d with=%d)' % (v['id'], r0.returncode, r1.returncode))
                continue
            d = os.path.join(MUT, 'M%04d' % v['id'])
            os.makedirs(d, exist_ok=True)
            open(os.path.join(d, 'patch.diff'), 'w').write(diff)
            shutil.copy(demo, os.path.join(d, 'demo.py'))
            for h in helpers:
                shutil.copy(h, os.path.join(d, os.path.basename(h)))
            meta = {'id': v['id'], 'property': v.get('property'), 'file': m['file'], 'func': m['func'], 'line': m['line'],
                    'kind': m['kind'], 'old': m['old'], 'new': m['new'], 'reason': v.get('reason'),
                    'confirmed': {'demo_exit_without_change': r0.returncode, 'demo_exit_with_change': r1.returncode,
                                  'test_suite': 'pass (mutation survey: the pinned suite passes with this mutant)'}}
            json.dump(meta, open(os.path.join(d, 'meta.json'), 'w'), indent=1)
            n += 1
    finally:
        sh('git -C /repo worktree remove --force %s; rm -rf %s' % (wt, wt))
    print('%d mutants stored' % n)


def eval_one(d):
    name = os.path.basename(d)
    wt = '/tmp/wtv/muteval-%s' % name
    sh('rm -rf %s; mkdir -p %s; cp -r /repo/hl7apy %s/hl7apy' % (wt, wt, wt))
    try:
        r = sh('patch -p1 -s -d %s -i %s' % (wt, os.path.join(d, 'patch.diff')))
        if r.returncode:
            return name, None, 'patch does not apply'
        env = dict(os.environ, HL7LINT_REPO=wt, HL7LINT_NOEVIDENCE='1')
        p = subprocess.run([os.path.join(VERIF, 'check'), 'all'], env=env, stdout=subprocess.PIPE, stderr=subprocess.STDOUT,
                           universal_newlines=True, cwd=VERIF)
        fired = sorted({l.split('property=')[1].split()[0] for l in p.stdout.splitlines() if l.startswith('FINDING')})
        rules = sorted({l.split('rule=')[1].split()[0] for l in p.stdout.splitlines() if l.startswith('FINDING')})
        errs = sorted({l.split('property=')[1].split()[0] for l in p.stdout.splitlines() if l.startswith('ANALYSIS-ERROR')})
        return name, fired, rules + ['ERR:' + e for e in errs]
    finally:
        shutil.rmtree(wt, ignore_errors=True)


def cmd_eval(sel):
    ds = sorted(glob.glob(os.path.join(MUT, 'M*')))
    if sel:
        ds = [d for d in ds if os.path.basename(d) in sel or os.path.basename(d)[1:].lstrip('0') in sel]
    ds = [d for d in ds if not json.load(open(os.path.join(d, 'meta.json'))).get('stale')]
    with ThreadPoolExecutor(int(os.environ.get('JOBS', '14'))) as ex:
        res = list(ex.map(eval_one, ds))
    miss = 0
    for (name, fired, rules), d in zip(res, ds):
        mp = os.path.join(d, 'meta.json')
        meta = json.load(open(mp))
        meta['detected_by'] = fired
        meta['rules_reporting'] = rules
        json.dump(meta, open(mp, 'w'), indent=1)
        if not fired:
            miss += 1
            print('MISSED %s %-4s %-45s %s' % (name, meta.get('property'), meta['func'][:45], (meta.get('reason') or '')[:110].replace('\n', ' ')))
        elif os.environ.get('VERBOSE'):
            print('caught %s by %s %s' % (name, fired, rules))
    print('%d mutants, %d reported by at least one check, %d missed' % (len(res), len(res) - miss, miss))


if __name__ == '__main__':
    if sys.argv[1] == 'import':
        cmd_import(sys.argv[2])
    else:
        cmd_eval(sys.argv[2:])
