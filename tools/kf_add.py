"""Maintenance tool (run by hand): list the failing instances of out/<id>.violation.json in known_findings.json.
usage: kf_add.py <violation.json> <repro.json>   where repro.json maps a substring of the finding key to the
confirmed reproduction (input / call sequence and what happens).  Entries without a reproduction are refused."""
import json, sys, os
VERIF = os.path.dirname(os.path.dirname(os.path.abspath(__file__)))
path = os.path.join(VERIF, 'known_findings.json')
cur = json.load(open(path))
have = {(f['property'], f['key']) for f in cur['findings']}
viol = json.load(open(sys.argv[1]))
repro = json.load(open(sys.argv[2]))
added = 0
for v in viol['violations']:
    r = [txt for sub, txt in repro.items() if sub in v['key']]
    if not r:
        print('NO REPRO, refused:', v['key'])
        continue
    if (viol['property'], v['key']) in have:
        continue
    have.add((viol['property'], v['key']))
    cur['findings'].append({'property': viol['property'], 'key': v['key'], 'status': 'open',
                            'what': '%s: %s' % (v['construct'], v['detail'][:300]), 'repro': r[0]})
    added += 1
json.dump(cur, open(path, 'w'), indent=1)
print('added', added, 'total', len(cur['findings']))
