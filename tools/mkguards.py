"""tools/mkguards.py -- regenerates /verif/reference/guards.json, the refusal predicates of the current /repo tree.
Run by hand after a change of /repo that was reviewed (a `fix:` commit); never run by a check."""
import json
import os
import sys

VERIF = os.path.dirname(os.path.dirname(os.path.abspath(__file__)))
sys.path.insert(0, VERIF)
from hl7lint import ctx, guards          # noqa: E402

c = ctx.get()
g = guards.extract(c.index)
import subprocess                         # noqa: E402
head = subprocess.run(['git', '-C', '/repo', 'rev-parse', '--short', 'HEAD'], stdout=subprocess.PIPE,
                      universal_newlines=True).stdout.strip()
json.dump({'repo_head': head, 'predicates': g}, open(os.path.join(VERIF, 'reference', 'guards.json'), 'w'), indent=0)
print('%d functions, %d predicates written (repo %s)' % (len(g), sum(len(v) for v in g.values()), head))
e = guards.extract_events(c.index)
json.dump({'repo_head': head, 'events': e}, open(os.path.join(VERIF, 'reference', 'decisions.json'), 'w'), indent=0)
print('%d functions, %d statement kinds written to decisions.json' % (len(e), sum(len(v) for v in e.values())))
