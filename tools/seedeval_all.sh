#!/bin/bash
# re-evaluate every stored seed against the current checks (tests are not re-run)
cd /verif
ls seeded | xargs -P 6 -I{} sh -c 'p=$(echo {} | cut -d- -f1); SKIP_TESTS=1 tools/seedeval.sh $p /verif/seeded/{} {} 2>&1 | grep "^SEED .*target" '
