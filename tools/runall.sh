#!/bin/sh
# run every implemented check (quick tier) and print one summary line each
cd "$(dirname "$0")/.."
for f in hl7lint/rules/c[0-9][0-9].py; do
  id=$(basename $f .py | tr c C)
  ./check $id --tier ${1:-quick} 2>&1 | grep -v "^KNOWN-FINDING\|^INFO\|^NOTE\|WARNING conda" | tail -${2:-1}
done
