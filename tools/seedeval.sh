#!/bin/bash
# tools/seedeval.sh <Cxx> <seed source dir containing patch.diff demo.py meta.json> [name]
# Confirms a seeded change in a scratch worktree of /repo (tests pass, demo fails with / passes without), stores it under
# /verif/seeded/<name>/ and reports which checks raise a violation on it.  The scratch worktree is removed afterwards.
set -u
pid=$1; src=$2; name=${3:-$pid}
wt=/tmp/wtv/$name
rm -rf $wt; git -C /repo worktree prune
git -C /repo worktree add -q --detach $wt HEAD || exit 3
trap 'git -C /repo worktree remove --force '$wt' 2>/dev/null; rm -rf '$wt EXIT
mkdir -p $wt/_seed && cp $src/patch.diff $src/demo.py $wt/_seed/ 2>/dev/null
cp $src/meta.json $wt/_seed/ 2>/dev/null
cd $wt
/venv/bin/python _seed/demo.py >/tmp/wtv/$name.demo0.log 2>&1; d0=$?
if ! git apply _seed/patch.diff 2>/tmp/wtv/$name.apply.log; then
  if ! git apply --3way _seed/patch.diff 2>>/tmp/wtv/$name.apply.log; then echo "SEED $name: patch does not apply on current HEAD"; cat /tmp/wtv/$name.apply.log | head -5; exit 4; fi
fi
/venv/bin/python - <<'PY' || { echo "SEED: does not compile"; exit 5; }
import compileall,sys
sys.exit(0 if compileall.compile_dir('hl7apy', quiet=2, maxlevels=1) else 1)
PY
if [ "${SKIP_TESTS:-0}" = "1" ]; then t="353 passed (confirmed earlier; skipped in this re-evaluation)"; else
t=$(unshare -rn sh -c 'ip link set lo up; /venv/bin/python -m pytest -q -p no:cacheprovider --timeout=900' 2>&1 | tail -1); fi
case "$t" in *"353 passed"*) tests=pass;; *) t=$(/venv/bin/python -m pytest -q -p no:cacheprovider --timeout=900 2>&1 | tail -1); case "$t" in *"353 passed"*) tests=pass;; *) tests="FAIL: $t";; esac;; esac
/venv/bin/python _seed/demo.py >/tmp/wtv/$name.demo1.log 2>&1; d1=$?
echo "SEED $name: demo without change exit=$d0, with change exit=$d1, tests=$tests"
mkdir -p /verif/seeded/$name
git diff -- hl7apy > /verif/seeded/$name/patch.diff
cp _seed/demo.py /verif/seeded/$name/demo.py
detected=""; rules=""
cd /verif
for f in hl7lint/rules/c[0-9][0-9].py; do
  id=$(basename $f .py | tr c C)
  out=$(HL7LINT_REPO=$wt HL7LINT_NOEVIDENCE=1 ./check $id 2>&1); rc=$?
  if [ $rc -eq 1 ]; then detected="$detected $id"; echo "$out" | grep "^FINDING" | head -3 | cut -c1-260
    rules="$rules $(echo "$out" | grep "^FINDING" | sed -n 's/.* rule=\([^ ]*\) .*/\1/p' | sort -u | tr '\n' ' ')"; fi
  if [ $rc -eq 2 ]; then detected="$detected $id(ANALYSIS-ERROR)"; echo "$out" | grep "ANALYSIS-ERROR" | cut -c1-200; fi
done
echo "SEED $name: target=$pid detected_by=[$detected ]"
/venv/bin/python - "$pid" "$name" "$d0" "$d1" "$tests" "$detected" "$rules" <<'PY'
import json,sys,os
pid,name,d0,d1,tests,det,rules=sys.argv[1:8]
p='/verif/seeded/%s/meta.json'%name
try: m=json.load(open('/tmp/wtv/%s/_seed/meta.json'%name))
except Exception: m={}
m.update({'property':pid,'confirmed':{'demo_exit_without_change':int(d0),'demo_exit_with_change':int(d1),'test_suite':tests,
          'how':'tools/seedeval.sh: scratch worktree of /repo HEAD, git apply patch.diff, baseline pytest command, demo.py before/after'},
          'detected_by':det.split(),'rules_reporting':sorted(set(rules.split()))})
json.dump(m,open(p,'w'),indent=1)
PY
