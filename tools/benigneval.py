"""tools/benigneval.py <dir with NN.diff [notes.json]> [name-prefix]
Applies every behaviour-preserving patch of the directory to its own scratch worktree of /repo HEAD (under /tmp/wtv,
removed afterwards), compiles it and runs all 19 checks on it.  A patch on which any check exits non-zero is a false alarm
(exit 1) or a brittle anchor (exit 2) of the machinery.  With KEEP=<dir> the patches are copied to /verif/benign/<prefix>-NN/.
"""
import glob
import json
import os
import shutil
import subprocess
import sys
from concurrent.futures import ThreadPoolExecutor

VERIF = os.path.dirname(os.path.dirname(os.path.abspath(__file__)))
PIDS = os.environ.get('PIDS', '').split() or ['C%02d' % i for i in range(1, 20)]


def sh(cmd, **kw):
    return subprocess.run(cmd, shell=True, stdout=subprocess.PIPE, stderr=subprocess.STDOUT, universal_newlines=True, **kw)


def run_check(pid, root):
    env = dict(os.environ, HL7LINT_REPO=root, HL7LINT_NOEVIDENCE='1')
    p = subprocess.run([os.path.join(VERIF, 'check'), pid], env=env, stdout=subprocess.PIPE, stderr=subprocess.STDOUT,
                       universal_newlines=True, cwd=VERIF)
    return pid, p.returncode, p.stdout


def main(argv):
    run_tests = os.environ.get('RUN_TESTS') == '1'
    bad = 0
    if argv[0] == 'all':          # every stored benign patch: /verif/benign/<name>/patch.diff
        sel = argv[1:]
        items = [(os.path.basename(os.path.dirname(d)), d) for d in sorted(glob.glob(os.path.join(VERIF, 'benign', '*', 'patch.diff')))]
        items = [(n, d) for n, d in items if not sel or any(n.startswith(x) for x in sel)]
        src = None
    else:
        src = os.path.abspath(argv[0])
        prefix = argv[1] if len(argv) > 1 else os.path.basename(os.path.dirname(src.rstrip('/')))
        items = [('%s-%s' % (prefix, os.path.basename(d)[:-5]), d) for d in sorted(glob.glob(os.path.join(src, '*.diff')))]
    def one(item):
        name, diff = item
        wt = '/tmp/wtv/benign-%s' % name
        lines = []
        nbad = 0
        sh('rm -rf %s; mkdir -p %s; cp -r /repo/hl7apy %s/hl7apy' % (wt, wt, wt))
        try:
            r = sh('patch -p1 -s -d %s -i %s' % (wt, diff))
            if r.returncode:
                return ['BENIGN %s: patch does not apply: %s' % (name, r.stdout.strip()[:120])], 0
            r = sh('/venv/bin/python -m compileall -q hl7apy', cwd=wt)
            if r.returncode:
                return ['BENIGN %s: does not compile' % name], 0
            env = dict(os.environ, HL7LINT_REPO=wt, HL7LINT_NOEVIDENCE='1')
            p = subprocess.run([os.path.join(VERIF, 'check'), 'all'], env=env, stdout=subprocess.PIPE, stderr=subprocess.STDOUT,
                               universal_newlines=True, cwd=VERIF)
            bad_lines = [l for l in p.stdout.splitlines() if l.startswith(('FINDING', 'ANALYSIS-ERROR'))]
            props = sorted({l.split('property=')[1].split()[0] + ('(exit 2)' if l.startswith('ANALYSIS') else '(exit 1)')
                            for l in bad_lines})
            lines.append('BENIGN %s: %s' % (name, 'silent on all 19 checks' if not bad_lines else 'ALARM ' + ' '.join(props)))
            for l in bad_lines:
                lines.append('   ' + l[:300])
            nbad = len(props)
            keep = os.environ.get('KEEP')
            if keep and src:
                d = os.path.join(VERIF, 'benign', name)
                os.makedirs(d, exist_ok=True)
                shutil.copy(diff, os.path.join(d, 'patch.diff'))
                note = {}
                try:
                    for n in json.load(open(os.path.join(src, 'notes.json'))):
                        if n.get('patch') == os.path.basename(diff):
                            note = n
                except Exception:
                    pass
                note['alarms_when_first_evaluated'] = props
                json.dump(note, open(os.path.join(d, 'meta.json'), 'w'), indent=1)
        finally:
            shutil.rmtree(wt, ignore_errors=True)
        return lines, nbad
    with ThreadPoolExecutor(max_workers=int(os.environ.get('JOBS', '14'))) as ex:
        for lines, nbad in ex.map(one, items):
            bad += nbad
            for l in lines:
                print(l)
    return 1 if bad else 0


if __name__ == '__main__':
    sys.exit(main(sys.argv[1:]))
