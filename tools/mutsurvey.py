"""tools/mutsurvey.py gen|checks|tests|report  -- blind-spot survey of the checkers (development aid, NOT a check).

gen     enumerate single-edit mutants of the non-table modules of /repo/hl7apy (statement deletion, condition negation,
        operand drop, comparison swap, integer constant +-1, keyword-argument drop) -> $OUT/mutants.jsonl
checks  run `./check all` on every mutant (scratch copy under $TMPDIR, removed) -> $OUT/checks.jsonl
tests   for mutants no check noticed, run the pinned test-suite (fail-fast; test_mllp only for mllp.py) -> $OUT/tests.jsonl
report  survivors = silent checks AND passing tests: the candidates for missing rules (triage by hand / sub-agents)

$OUT defaults to /tmp/scratch/mutsurvey.  Nothing here is used by a registered command.
"""
import ast
import copy
import json
import os
import shutil
import subprocess
import sys
import tempfile
from concurrent.futures import ThreadPoolExecutor

VERIF = os.path.dirname(os.path.dirname(os.path.abspath(__file__)))
REPO = '/repo'
OUT = os.environ.get('OUT', '/tmp/scratch/mutsurvey')
FILES = ['hl7apy/core.py', 'hl7apy/parser.py', 'hl7apy/validation.py', 'hl7apy/factories.py', 'hl7apy/utils.py',
         'hl7apy/base_datatypes.py', 'hl7apy/__init__.py', 'hl7apy/mllp.py', 'hl7apy/v2_7/base_datatypes.py',
         'hl7apy/v2_1/base_datatypes.py', 'hl7apy/v2_6/base_datatypes.py']
SWAP = {ast.Lt: ast.LtE, ast.LtE: ast.Lt, ast.Gt: ast.GtE, ast.GtE: ast.Gt, ast.Eq: ast.NotEq, ast.NotEq: ast.Eq,
        ast.Is: ast.IsNot, ast.IsNot: ast.Is, ast.In: ast.NotIn, ast.NotIn: ast.In}


def span(src_lines, node):
    """absolute (start, end) character offsets of the node in the source"""
    offs = [0]
    for l in src_lines:
        offs.append(offs[-1] + len(l))

    def off(line, col):
        # col is a utf-8 byte offset; sources are ascii except a few comments
        text = src_lines[line - 1]
        return offs[line - 1] + len(text.encode('utf-8')[:col].decode('utf-8', 'ignore'))
    return off(node.lineno, node.col_offset), off(node.end_lineno, node.end_col_offset)


def gen_file(rel):
    src = open(os.path.join(REPO, rel)).read()
    lines = src.splitlines(True)
    tree = ast.parse(src)
    out = []

    def add(kind, node, new_text, func):
        a, b = span(lines, node)
        old = src[a:b]
        if old == new_text:
            return
        out.append(dict(file=rel, kind=kind, line=node.lineno, func=func, a=a, b=b, old=old, new=new_text))

    def visit(node, func):
        for ch in ast.iter_child_nodes(node):
            f = func
            if isinstance(ch, (ast.FunctionDef, ast.ClassDef)):
                f = (func + '.' if func else '') + ch.name
            if func and isinstance(ch, ast.stmt):
                if isinstance(ch, (ast.Assign, ast.AugAssign, ast.Delete)) or \
                        (isinstance(ch, ast.Expr) and isinstance(ch.value, ast.Call)):
                    add('del-stmt', ch, 'pass', func)
                if isinstance(ch, ast.Raise):
                    add('del-raise', ch, 'pass', func)
                if isinstance(ch, ast.Return) and ch.value is not None and not (
                        isinstance(ch.value, ast.Constant) and ch.value.value is None):
                    add('return-none', ch, 'return None', func)
                if isinstance(ch, (ast.Break, ast.Continue)):
                    add('del-jump', ch, 'pass', func)
                if isinstance(ch, (ast.If, ast.While)):
                    add('neg-cond', ch.test, 'not (%s)' % ast.unparse(ch.test), func)
            if func and isinstance(ch, ast.IfExp):
                add('neg-cond', ch.test, 'not (%s)' % ast.unparse(ch.test), func)
            if func and isinstance(ch, ast.BoolOp) and len(ch.values) >= 2:
                for i in range(len(ch.values)):
                    c2 = copy.deepcopy(ch)
                    del c2.values[i]
                    new = ast.unparse(c2.values[0]) if len(c2.values) == 1 else ast.unparse(c2)
                    add('drop-operand', ch, '(%s)' % new, func)
            if func and isinstance(ch, ast.Compare) and len(ch.ops) == 1 and type(ch.ops[0]) in SWAP:
                c2 = copy.deepcopy(ch)
                c2.ops = [SWAP[type(ch.ops[0])]()]
                add('swap-cmp', ch, '(%s)' % ast.unparse(c2), func)
            if func and isinstance(ch, ast.Constant) and isinstance(ch.value, int) and not isinstance(ch.value, bool) \
                    and 0 <= ch.value <= 12:
                add('const+1', ch, str(ch.value + 1), func)
                if ch.value > 0:
                    add('const-1', ch, str(ch.value - 1), func)
            if func and isinstance(ch, ast.Call):
                for i, k in enumerate(ch.keywords):
                    if k.arg is not None:
                        c2 = copy.deepcopy(ch)
                        del c2.keywords[i]
                        add('drop-kwarg:%s' % k.arg, ch, ast.unparse(c2), func)
                if len(ch.args) >= 2 and not any(isinstance(a_, ast.Starred) for a_ in ch.args):
                    c2 = copy.deepcopy(ch)
                    c2.args = c2.args[:-1]
                    add('drop-last-arg', ch, ast.unparse(c2), func)
            visit(ch, f)
    visit(tree, '')
    return out


def cmd_gen():
    os.makedirs(OUT, exist_ok=True)
    n = 0
    with open(os.path.join(OUT, 'mutants.jsonl'), 'w') as f:
        for rel in FILES:
            for m in gen_file(rel):
                m['id'] = n
                n += 1
                f.write(json.dumps(m) + '\n')
    print('%d mutants' % n)


def make_copy(m, with_tests=False):
    d = tempfile.mkdtemp(prefix='mut-')
    srcp = os.path.join(REPO, 'hl7apy')
    dst = os.path.join(d, 'hl7apy')
    os.makedirs(dst)
    sub = m['file'].split('/')[1] if m['file'].count('/') == 2 else None
    for name in os.listdir(srcp):
        p = os.path.join(srcp, name)
        if name == '__pycache__':
            continue
        if os.path.isdir(p):
            if name == sub:
                shutil.copytree(p, os.path.join(dst, name), ignore=shutil.ignore_patterns('__pycache__'))
            else:
                os.symlink(p, os.path.join(dst, name))
        else:
            shutil.copy(p, os.path.join(dst, name))
    path = os.path.join(d, m['file'])
    s = open(path).read()
    assert s[m['a']:m['b']] == m['old'], 'stale mutant'
    s = s[:m['a']] + m['new'] + s[m['b']:]
    open(path, 'w').write(s)
    compile(s, path, 'exec')
    if with_tests:
        for name in ('tests', 'setup.py', 'setup.cfg', 'pytest.ini', 'tox.ini', 'conftest.py'):
            p = os.path.join(REPO, name)
            if os.path.exists(p):
                os.symlink(p, os.path.join(d, name))
    return d


def load(name):
    p = os.path.join(OUT, name)
    if not os.path.exists(p):
        return []
    return [json.loads(l) for l in open(p)]


def one_check(m):
    try:
        d = make_copy(m)
    except SyntaxError:
        return dict(id=m['id'], status='nocompile')
    except AssertionError:
        return dict(id=m['id'], status='stale')
    try:
        env = dict(os.environ, HL7LINT_REPO=d, HL7LINT_NOEVIDENCE='1')
        p = subprocess.run([os.path.join(VERIF, 'check'), 'all'], env=env, stdout=subprocess.PIPE, stderr=subprocess.STDOUT,
                           universal_newlines=True, cwd=VERIF)
        fired = sorted({l.split('property=')[1].split()[0] for l in p.stdout.splitlines() if l.startswith('FINDING')})
        errs = sorted({l.split('property=')[1].split()[0] for l in p.stdout.splitlines() if l.startswith('ANALYSIS-ERROR')})
        rules = sorted({l.split('rule=')[1].split()[0] for l in p.stdout.splitlines() if l.startswith('FINDING')})
        return dict(id=m['id'], status='ok', exit=p.returncode, fired=fired, errors=errs, rules=rules)
    finally:
        shutil.rmtree(d, ignore_errors=True)


def cmd_checks():
    muts = load('mutants.jsonl')
    done = {r['id'] for r in load('checks.jsonl')}
    todo = [m for m in muts if m['id'] not in done]
    sel = os.environ.get('ONLY')
    if sel:
        todo = [m for m in todo if m['file'].endswith(sel)]
    print('%d to run' % len(todo))
    with open(os.path.join(OUT, 'checks.jsonl'), 'a') as f, ThreadPoolExecutor(int(os.environ.get('JOBS', '14'))) as ex:
        for i, r in enumerate(ex.map(one_check, todo)):
            f.write(json.dumps(r) + '\n')
            f.flush()
            if i % 100 == 0:
                print(i, flush=True)


def one_test(m):
    try:
        d = make_copy(m, with_tests=True)
    except Exception as e:
        return dict(id=m['id'], tests='error %r' % e)
    try:
        mllp = m['file'].endswith('mllp.py')
        args = ['/venv/bin/python', '-m', 'pytest', '-q', '-x', '-p', 'no:cacheprovider', '--timeout=300']
        if not mllp:
            args += ['--ignore=tests/test_mllp.py']
        p = subprocess.run(args, cwd=d, stdout=subprocess.PIPE, stderr=subprocess.STDOUT, universal_newlines=True,
                           env=dict(os.environ, PYTHONDONTWRITEBYTECODE='1'))
        last = p.stdout.strip().splitlines()[-1] if p.stdout.strip() else ''
        return dict(id=m['id'], tests='pass' if p.returncode == 0 else 'fail', last=last[:80])
    finally:
        shutil.rmtree(d, ignore_errors=True)


def cmd_tests():
    muts = {m['id']: m for m in load('mutants.jsonl')}
    silent = [r['id'] for r in load('checks.jsonl') if r.get('status') == 'ok' and r.get('exit') == 0]
    done = {r['id'] for r in load('tests.jsonl')}
    todo = [muts[i] for i in silent if i not in done]
    print('%d silent mutants to test' % len(todo))
    non_mllp = [m for m in todo if not m['file'].endswith('mllp.py')]
    mllp = [m for m in todo if m['file'].endswith('mllp.py')]
    with open(os.path.join(OUT, 'tests.jsonl'), 'a') as f:
        with ThreadPoolExecutor(int(os.environ.get('JOBS', '14'))) as ex:
            for i, r in enumerate(ex.map(one_test, non_mllp)):
                f.write(json.dumps(r) + '\n')
                f.flush()
                if i % 100 == 0:
                    print(i, flush=True)
        for m in mllp:
            f.write(json.dumps(one_test(m)) + '\n')
            f.flush()


def cmd_report():
    muts = {m['id']: m for m in load('mutants.jsonl')}
    checks = {r['id']: r for r in load('checks.jsonl')}
    tests = {r['id']: r for r in load('tests.jsonl')}
    n = len(muts)
    ok = [r for r in checks.values() if r.get('status') == 'ok']
    noticed = [r for r in ok if r['exit'] != 0]
    viol = [r for r in ok if r['exit'] == 1]
    silent = [r for r in ok if r['exit'] == 0]
    surv = [i for i in (r['id'] for r in silent) if tests.get(i, {}).get('tests') == 'pass']
    killed_by_tests = [i for i in (r['id'] for r in silent) if tests.get(i, {}).get('tests') == 'fail']
    print('mutants %d, compiled+run %d, noticed by a check %d (violation %d, analysis-error only %d), silent %d' % (
        n, len(ok), len(noticed), len(viol), len(noticed) - len(viol), len(silent)))
    print('silent: tests fail %d, tests pass (survivors) %d, untested %d' % (
        len(killed_by_tests), len(surv), len(silent) - len(killed_by_tests) - len(surv)))
    with open(os.path.join(OUT, 'survivors.jsonl'), 'w') as f:
        for i in surv:
            f.write(json.dumps(muts[i]) + '\n')
    by = {}
    for i in surv:
        m = muts[i]
        by.setdefault((m['file'], m['func']), []).append(m)
    for (fl, fn), ms in sorted(by.items(), key=lambda kv: -len(kv[1]))[:int(os.environ.get('TOP', '40'))]:
        print('%3d  %s %s' % (len(ms), fl, fn))


if __name__ == '__main__':
    {'gen': cmd_gen, 'checks': cmd_checks, 'tests': cmd_tests, 'report': cmd_report}[sys.argv[1]]()
