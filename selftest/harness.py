"""Self-test harness: applies one edit to a scratch copy of the repository's
hl7apy/ package (under $TMPDIR, removed afterwards) and runs a check on it
through $HL7LINT_REPO.  Variants are (id, property, file, old, new, expectation).

expectation: 'violation' (exit 1 and, if given, the named rule among the findings),
             'clean' (same exit code / findings as the unchanged tree: a benign twin),
             'fixed:<key substring>' (the known finding with that key disappears, no violation).
"""
import json
import os
import shutil
import subprocess
import sys
import tempfile

VERIF = os.path.dirname(os.path.dirname(os.path.abspath(__file__)))
REPO = os.environ.get('HL7LINT_SELFTEST_BASE', '/repo')


def make_copy(touch_versions=()):
    d = tempfile.mkdtemp(prefix='hl7lint-')
    src = os.path.join(REPO, 'hl7apy')
    dst = os.path.join(d, 'hl7apy')
    os.makedirs(dst)
    for name in os.listdir(src):
        p = os.path.join(src, name)
        if name == '__pycache__':
            continue
        if os.path.isdir(p):
            if name in touch_versions:
                shutil.copytree(p, os.path.join(dst, name), ignore=shutil.ignore_patterns('__pycache__'))
            else:
                os.symlink(p, os.path.join(dst, name))
        else:
            shutil.copy(p, os.path.join(dst, name))
    return d


def apply_edit(root, relfile, old, new, count=1):
    path = os.path.join(root, relfile)
    with open(path) as f:
        s = f.read()
    if s.count(old) < 1:
        return False
    s = s.replace(old, new, count)
    with open(path, 'w') as f:
        f.write(s)
    try:
        compile(s, path, 'exec')
    except SyntaxError as e:
        raise RuntimeError('variant does not compile: %s' % e)
    return True


def run_check(pid, root, tier='quick'):
    env = dict(os.environ)
    env['HL7LINT_REPO'] = root
    env['HL7LINT_SELFTEST'] = '1'
    env['HL7LINT_NOEVIDENCE'] = '1'
    p = subprocess.run([os.path.join(VERIF, 'check'), pid, '--tier', tier], env=env, stdout=subprocess.PIPE,
                       stderr=subprocess.STDOUT, universal_newlines=True, cwd=VERIF)
    return p.returncode, p.stdout


def run_variant(v):
    """v: dict(id, prop, file, old, new, expect, [rule], [count]) -> dict(result)"""
    files = [e[0] for e in (v.get('edits') or [])] + ([v['file']] if v.get('file') else [])
    if v.get('patch'):
        files += [l[6:].strip() for l in open(os.path.join(VERIF, v['patch'])) if l.startswith('+++ b/')]
    vers = tuple({f.split('/')[1] for f in files if f.startswith('hl7apy/v2_')})
    root = make_copy(vers)
    try:
        if v.get('patch'):       # a stored diff (e.g. a benign refactoring) applied first, further edits on top of it
            pr = subprocess.run(['patch', '-p1', '-s', '-d', root, '-i', os.path.join(VERIF, v['patch'])],
                                stdout=subprocess.PIPE, stderr=subprocess.STDOUT, universal_newlines=True)
            if pr.returncode:
                return dict(id=v['id'], ok=False, why='STALE: patch %s does not apply: %s' % (v['patch'], pr.stdout[:80]))
        edits = v.get('edits') if v.get('edits') is not None else ([(v['file'], v['old'], v['new'])] if v.get('file') else [])
        for (f, old, new) in edits:
            if not apply_edit(root, f, old, new, v.get('count', 1)):
                return dict(id=v['id'], ok=False, why='STALE: text to edit not found in %s' % f)
        code, out = run_check(v['prop'], root)
        findings = [l for l in out.splitlines() if l.startswith('FINDING')]
        known = [l for l in out.splitlines() if l.startswith('KNOWN-FINDING')]
        exp = v['expect']
        if exp == 'violation':
            ok = code == 1 and (not v.get('rule') or any('rule=%s ' % v['rule'] in l for l in findings))
            why = 'exit=%d findings=%s' % (code, [l.split(' rule=')[1][:70] for l in findings][:3])
        elif exp == 'clean':
            ok = code == 0
            why = 'exit=%d %s' % (code, (findings or out.splitlines()[-2:])[:2])
        elif exp.startswith('fixed:'):
            sub = exp[len('fixed:'):]
            ok = code == 0 and not any(sub in l for l in known)
            why = 'exit=%d still-known=%s' % (code, [l[:80] for l in known if sub in l][:2])
        else:
            ok, why = False, 'bad expectation'
        return dict(id=v['id'], ok=ok, why=why, prop=v['prop'])
    except Exception as e:
        return dict(id=v['id'], ok=False, why='harness error: %r' % e, prop=v['prop'])
    finally:
        shutil.rmtree(root, ignore_errors=True)


def main(argv):
    import importlib
    sys.path.insert(0, VERIF)
    mod = importlib.import_module('selftest.variants')
    sel = [a for a in argv if not a.startswith('-')]
    variants = [v for v in mod.VARIANTS if not sel or v['prop'] in sel or v['id'] in sel]
    from concurrent.futures import ThreadPoolExecutor
    with ThreadPoolExecutor(max_workers=int(os.environ.get('JOBS', '12'))) as ex:
        results = list(ex.map(run_variant, variants))
    bad = [r for r in results if not r['ok']]
    for r in results:
        if not r['ok'] or '-v' in argv:
            print('%s %-34s %s' % ('ok  ' if r['ok'] else 'FAIL', r['id'], r['why']))
    print('%d variants, %d as expected, %d not' % (len(results), len(results) - len(bad), len(bad)))
    return 1 if bad else 0


if __name__ == '__main__':
    sys.exit(main(sys.argv[1:]))
