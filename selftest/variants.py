"""Self-test variants: one realistic edit each (see harness.py)."""
VARIANTS = []


def V(id, prop, file, old, new, expect='violation', rule=None, **kw):
    d = dict(id=id, prop=prop, file=file, old=old, new=new, expect=expect, rule=rule)
    d.update(kw)
    VARIANTS.append(d)


# ---------------------------------------------------------------- C19
V('c19-drop-copy', 'C19', 'hl7apy/factories.py', 'factories = base_datatypes.copy()', 'factories = base_datatypes',
  rule='C19-W')
V('c19-alias-reference', 'C19', 'hl7apy/core.py', 'new_ref = [ref_item for ref_item in self.reference]',
  'new_ref = self.reference', rule='C19-W')
V('c19-module-cache', 'C19', 'hl7apy/__init__.py',
  "    lib = load_library(version)\n    ref = lib.get(name, element_type)\n    return ref",
  "    lib = load_library(version)\n    ref = lib.get(name, element_type)\n    SUPPORTED_LIBRARIES[name] = ref\n    return ref",
  rule='C19-W')
V('c19-class-cache', 'C19', 'hl7apy/core.py',
  "        self.children.append(obj)\n\n    def is_named",
  "        self.children.append(obj)\n        Element.cls_attrs.append(obj.name)\n\n    def is_named", rule='C19-W')
V('c19-default-from-parser', 'C19', 'hl7apy/parser.py',
  "def _get_version(version):\n    if version is None:",
  "def _get_version(version):\n    global _LAST\n    _LAST = version\n    if version is None:", rule='C19-W')
V('c19-mutate-defaults-dict', 'C19', 'hl7apy/core.py',
  "        if encoding_chars is None:\n            encoding_chars = get_default_encoding_chars(version)\n        # TODO",
  "        if encoding_chars is None:\n            encoding_chars = get_default_encoding_chars(version)\n            encoding_chars['GROUP'] = '\\r'\n        # TODO",
  rule='C19-W')
V('c19-mutable-default-arg', 'C19', 'hl7apy/core.py',
  "    def parse_child(self, text, **kwargs):\n        if self.child_parser:\n            kwargs['version'] = self.version",
  "    def parse_child(self, text, kwargs={}):\n        if self.child_parser:\n            kwargs['version'] = self.version",
  rule='C19-D')
V('c19-table-fixup-at-runtime', 'C19', 'hl7apy/v2_5/__init__.py',
  "    try:\n        return ELEMENTS[element_type][name]\n",
  "    try:\n        ELEMENTS[element_type].setdefault(name + '_', None)\n        return ELEMENTS[element_type][name]\n",
  rule='C19-W')
V('c19-twin-local-copy', 'C19', 'hl7apy/factories.py', 'factories = base_datatypes.copy()',
  'factories = dict(base_datatypes)', expect='clean')
V('c19-twin-rename', 'C19', 'hl7apy/core.py', 'new_ref = [ref_item for ref_item in self.reference]',
  'new_ref = list(self.reference)', expect='clean')

# ---------------------------------------------------------------- C17
V('c17-parse-segment-drops-level', 'C17', 'hl7apy/parser.py',
  "    segment = Segment(segment_name, version=version, validation_level=validation_level,\n                      reference=reference)",
  "    segment = Segment(segment_name, version=version,\n                      reference=reference)", rule='C17-F')
V('c17-create-element-drops-version', 'C17', 'hl7apy/core.py',
  "                      'validation_level': self.element.validation_level,\n                      'version': self.element.version}",
  "                      'validation_level': self.element.validation_level}", rule='C17-F')
V('c17-parse-child-drops-level', 'C17', 'hl7apy/core.py',
  "            kwargs['version'] = self.version\n            kwargs['validation_level'] = self.validation_level\n            module = importlib.import_module(\"hl7apy.parser\")\n            parser = getattr(module, self.child_parser[0])",
  "            kwargs['version'] = self.version\n            module = importlib.import_module(\"hl7apy.parser\")\n            parser = getattr(module, self.child_parser[0])",
  rule='C17-F')
V('c17-subcomponent-value-drops-level', 'C17', 'hl7apy/core.py',
  "                self._value = datatype_factory(self.datatype, value, self.version,\n                                               self.validation_level)",
  "                self._value = datatype_factory(self.datatype, value, self.version)", rule='C17-F')
V('c17-numeric-factory-drops-level', 'C17', 'hl7apy/factories.py',
  "        return datatype_cls(Decimal(value), validation_level=validation_level)",
  "        return datatype_cls(Decimal(value))", rule='C17-F')
V('c17-wd-drops-level', 'C17', 'hl7apy/base_datatypes.py',
  "        super(WD, self).__init__(value, 199, highlights, validation_level)",
  "        super(WD, self).__init__(value, 199, highlights)", rule='C17-F')
V('c17-parse-fields-drops-encoding-chars', 'C17', 'hl7apy/parser.py',
  "                fields.append(parse_field(field, name, version, encoding_chars, validation_level,\n                                          reference))",
  "                fields.append(parse_field(field, name, version, validation_level=validation_level,\n                                          reference=reference))",
  rule='C17-F')
V('c17-unconditional-default', 'C17', 'hl7apy/core.py',
  "        if encoding_chars is None:\n            encoding_chars = get_default_encoding_chars(version)\n        # TODO",
  "        encoding_chars = encoding_chars or dict(get_default_encoding_chars(version))\n        base = get_default_encoding_chars(version)\n        # TODO",
  rule='C17-D')
V('c17-raw-level-new-site', 'C17', 'hl7apy/core.py',
  "        if name is None:\n            raise OperationNotAllowed(\"Cannot instantiate an unknown Segment\")",
  "        if name is None or (Validator.is_strict(validation_level) and len(name) != 3):\n            raise OperationNotAllowed(\"Cannot instantiate an unknown Segment\")",
  rule='C17-R')
V('c17-twin-keyword', 'C17', 'hl7apy/parser.py',
  "    segment.children = parse_fields(text, segment_name, version, encoding_chars, validation_level,\n                                    segment.structure_by_name, segment.allow_infinite_children)",
  "    segment.children = parse_fields(text, segment_name, version=version, encoding_chars=encoding_chars,\n                                    validation_level=validation_level, references=segment.structure_by_name,\n                                    force_varies=segment.allow_infinite_children)",
  expect='clean')

# ---------------------------------------------------------------- C18
V('c18-parse-segments-drops-ref', 'C18', 'hl7apy/parser.py',
  "                        segment = parse_segment(s.strip(), version, encoding_chars, validation_level, ref)",
  "                        segment = parse_segment(s.strip(), version, encoding_chars, validation_level)", rule='C18-F')
V('c18-parse-segment-drops-references', 'C18', 'hl7apy/parser.py',
  "    segment.children = parse_fields(text, segment_name, version, encoding_chars, validation_level,\n                                    segment.structure_by_name, segment.allow_infinite_children)",
  "    segment.children = parse_fields(text, segment_name, version, encoding_chars, validation_level,\n                                    force_varies=segment.allow_infinite_children)", rule='C18-F')
V('c18-parse-fields-drops-reference', 'C18', 'hl7apy/parser.py',
  "                    fields.append(parse_field(rep, name, version, encoding_chars, validation_level,\n                                              reference, force_varies))",
  "                    fields.append(parse_field(rep, name, version, encoding_chars, validation_level,\n                                              force_varies=force_varies))", rule='C18-F')
V('c18-create-element-drops-ref', 'C18', 'hl7apy/core.py',
  "            kwargs = {'reference': reference['ref'],\n                      'validation_level'",
  "            kwargs = {'validation_level'", rule='C18-F')
V('c18-group-parse-child-drops-ref', 'C18', 'hl7apy/core.py',
  "            g = Group(child_name, validation_level=self.validation_level, version=self.version,\n                      reference=ref['ref'])",
  "            g = Group(child_name, validation_level=self.validation_level, version=self.version)", rule='C18-F')
V('c18-group-creation-drops-ref', 'C18', 'hl7apy/parser.py',
  "                                group = Group(p_ref[0], version=version, reference=p_ref[1],\n                                              validation_level=validation_level)",
  "                                group = Group(p_ref[0], version=version,\n                                              validation_level=validation_level)", rule='C18-F')
V('c18-message-drops-profile', 'C18', 'hl7apy/parser.py',
  "        m = Message(name=message_structure, reference=reference, version=version,\n                    validation_level=validation_level, encoding_chars=encoding_chars)",
  "        m = Message(name=message_structure, version=version,\n                    validation_level=validation_level, encoding_chars=encoding_chars)", rule='C18-F')
V('c18-force-validation-standard', 'C18', 'hl7apy/parser.py',
  "            Validator.validate(m, message_profile[message_structure], report_file=report_file)",
  "            Validator.validate(m, report_file=report_file)", rule='C18-V')
V('c18-validator-recursion-standard', 'C18', 'hl7apy/validation.py',
  "                            _is_valid(c, child_ref[1], errs, warns)", "                            _is_valid(c, None, errs, warns)",
  rule='C18-V')
V('c18-fix-find-groups', 'C18', 'hl7apy/parser.py',
  "                    segment = parse_segment(s.strip(), version, encoding_chars, validation_level)\n                    segments.append(segment)",
  "                    segment = parse_segment(s.strip(), version, encoding_chars, validation_level,\n                                            _flat_reference(references, segment_name))\n                    segments.append(segment)",
  expect='fixed:C18-F|parser.parse_segments')

# ---------------------------------------------------------------- C10
V('c10-parser-writes-list', 'C10', 'hl7apy/parser.py',
  "                        if current_parent is None:\n                            segments.append(segment)\n                        else:\n                            current_parent.add(segment)\n                        break",
  "                        if current_parent is None:\n                            segments.append(segment)\n                        else:\n                            current_parent.children.list.append(segment)\n                            segment._parent = current_parent\n                        break",
  rule='C10-W1')
V('c10-delitem-forgets-index', 'C10', 'hl7apy/core.py',
  "        child = self.list[index]\n        self._remove_from_index(child)\n        del self.list[index]",
  "        child = self.list[index]\n        del self.list[index]", rule='C10-W2')
V('c10-remove-forgets-list', 'C10', 'hl7apy/core.py',
  "                self._remove_from_index(child)\n                self.list.remove(child)",
  "                self._remove_from_index(child)", rule='C10-W2')
V('c10-insert-skips-index-on-keyerror', 'C10', 'hl7apy/core.py',
  "            except KeyError:\n                self.indexes[child.name] = [child]\n            self.list.insert(index, child)",
  "            except KeyError:\n                pass\n            self.list.insert(index, child)", rule='C10-W2')
V('c10-append-bypasses-admission', 'C10', 'hl7apy/core.py',
  "        if self._can_add_child(child):\n            if self.element == child.parent:\n                self._remove_from_traversal_index(child)\n                self.list.append(child)",
  "        self.list.append(child)\n        if self._can_add_child(child):\n            if self.element == child.parent:\n                self._remove_from_traversal_index(child)",
  rule='C10-V')
V('c10-version-check-dropped', 'C10', 'hl7apy/core.py',
  "                if self.element.version != child.version:\n                    raise OperationNotAllowed('Cannot add a child with a different HL7 version')\n",
  "", rule='C10-V')
V('c10-level-check-softened', 'C10', 'hl7apy/core.py',
  "                if self.element.validation_level != child.validation_level:\n                    raise OperationNotAllowed('Cannot add a child with a different validation_level')",
  "                if self.element.validation_level != child.validation_level:\n                    child.validation_level = self.element.validation_level",
  rule='C10-V')
V('c10-len-counts-shadow', 'C10', 'hl7apy/core.py',
  "    def __len__(self):\n        return len(self.list)\n\n    def __getitem__(self, index):\n        return self.list[index]\n\n    def __delitem__(self, index):\n        child = self.list[index]",
  "    def __len__(self):\n        return len(self.list) + len(self.traversal_indexes)\n\n    def __getitem__(self, index):\n        return self.list[index]\n\n    def __delitem__(self, index):\n        child = self.list[index]",
  rule='C10-L')
V('c10-fix-reparenting', 'C10', 'hl7apy/core.py',
  "    def _set_parent(self, parent):\n        self._parent = parent",
  "    def _set_parent(self, parent):\n        old = getattr(self, '_parent', None)\n        if old is not None and parent is not None and old is not parent:\n            old.children.remove(self)\n        self._parent = parent",
  expect='fixed:C10-R')

# ---------------------------------------------------------------- C09
V('c09-replace-appends', 'C09', 'hl7apy/core.py',
  "            self.remove(old_child)\n            self.insert(list_index, new_child, by_name_index)",
  "            self.remove(old_child)\n            self.insert(list_index, new_child)", rule='C09-I')
V('c09-replace-swapped-positions', 'C09', 'hl7apy/core.py',
  "            self.insert(list_index, new_child, by_name_index)", "            self.insert(by_name_index, new_child, list_index)",
  rule='C09-I')
V('c09-replace-uses-length', 'C09', 'hl7apy/core.py',
  "            list_index = self.list.index(old_child)", "            list_index = len(self.list) - 1", rule='C09-I')
V('c09-insert-ignores-byname', 'C09', 'hl7apy/core.py',
  "                    self.indexes[child.name].insert(by_name_index, child)",
  "                    self.indexes[child.name].insert(0, child)", rule='C09-P')
V('c09-insert-at-end', 'C09', 'hl7apy/core.py', "            self.list.insert(index, child)", "            self.list.insert(len(self.list), child)",
  rule='C09-P')
V('c09-remove-by-name-first', 'C09', 'hl7apy/core.py',
  "        child = self.child_at_index(name, index)\n        self.remove(child)\n        return child",
  "        child = self.child_at_index(name, 0)\n        self.remove(child)\n        return child", rule='C09-X')
V('c09-proxy-del-first', 'C09', 'hl7apy/core.py', "        self.element_list.remove(self.list[index])",
  "        self.element_list.remove(self.list[0])", rule='C09-X')
V('c09-set-ignores-index', 'C09', 'hl7apy/core.py',
  "        child_to_remove = self.child_at_index(child_name, index)", "        child_to_remove = self.child_at_index(child_name, 0)",
  rule='C09-S')
V('c09-set-proxy-by-reference', 'C09', 'hl7apy/core.py',
  "        if isinstance(value, ElementProxy):\n            value = value[0].to_er7()", "        if isinstance(value, ElementProxy):\n            value = value[0]",
  rule='C09-V')
V('c09-set-always-appends', 'C09', 'hl7apy/core.py',
  "        if child_to_remove is None:\n            self.append(child)\n        else:\n            self.replace_child(child_to_remove, child)",
  "        if child_to_remove is not None:\n            self.remove(child_to_remove)\n        self.append(child)", rule='C09-S')
V('c09-finder-wrong-index', 'C09', 'hl7apy/core.py', "                return self.indexes[n][i]", "                return self.indexes[n][-1]",
  rule='C09-X')

# ---------------------------------------------------------------- C11
V('c11-proxy-read-attaches', 'C11', 'hl7apy/core.py',
  "                element = self.element_list.create_element(self.element_name, traversal_parent=True)\n        return getattr(element, name)",
  "                element = self.element_list.create_element(self.element_name, traversal_parent=False)\n        return getattr(element, name)",
  rule='C11-L1')
V('c11-proxy-read-default-flag', 'C11', 'hl7apy/core.py',
  "                element = self.element_list.create_element(self.element_name, traversal_parent=True)\n        return getattr(element, name)",
  "                element = self.element_list.create_element(self.element_name)\n        return getattr(element, name)",
  rule='C11-L1')
V('c11-create-element-always-parent', 'C11', 'hl7apy/core.py',
  "            if not traversal_parent:\n                kwargs['parent'] = self.element\n            else:\n                kwargs['traversal_parent'] = self.element",
  "            kwargs['parent'] = self.element\n            if traversal_parent:\n                kwargs['traversal_parent'] = self.element",
  rule='C11-L2')
V('c11-lookup-creates', 'C11', 'hl7apy/core.py',
  "            child_name = self._find_name(name)\n            if child_name is not None:\n                try:\n                    return self.proxies[child_name]",
  "            child_name = self._find_name(name)\n            if child_name is not None:\n                self.create_element(child_name)\n                try:\n                    return self.proxies[child_name]",
  rule='C11-L1')
V('c11-append-unconditional-list', 'C11', 'hl7apy/core.py',
  "            if self.element == child.parent:\n                self._remove_from_traversal_index(child)\n                self.list.append(child)",
  "            self.list.append(child)\n            if self.element == child.parent:\n                self._remove_from_traversal_index(child)",
  rule='C11-L4')
V('c11-shadow-branch-indexes', 'C11', 'hl7apy/core.py',
  "            elif self.element == child.traversal_parent:\n                try:\n                    self.traversal_indexes[child.name].append(child)\n                except KeyError:\n                    self.traversal_indexes[child.name] = [child]",
  "            elif self.element == child.traversal_parent:\n                try:\n                    self.indexes[child.name].append(child)\n                except KeyError:\n                    self.indexes[child.name] = [child]",
  rule='C11-L4')
V('c11-encoder-reads-shadow', 'C11', 'hl7apy/core.py',
  "        children = [self.indexes.get(k, None) for k in ordered_keys]",
  "        children = [self.indexes.get(k, None) or self.traversal_indexes.get(k, None) for k in ordered_keys]",
  rule='C11-L5')
V('c11-getter-promotes', 'C11', 'hl7apy/core.py',
  "    def _get_value(self):\n        return self.to_er7()\n\n    value = property(_get_value, _set_value)\n\n    @property\n    def classname",
  "    def _get_value(self):\n        self.set_parent_to_traversal()\n        return self.to_er7()\n\n    value = property(_get_value, _set_value)\n\n    @property\n    def classname",
  rule='C11-L6')
V('c11-proxy-promotes-any-attr', 'C11', 'hl7apy/core.py',
  "            if name == 'value':\n                element.set_parent_to_traversal()", "            element.set_parent_to_traversal()",
  rule='C11-L6')
V('c11-subcomponent-promotes-on-none', 'C11', 'hl7apy/core.py',
  "        if value is None:\n            self._value = None\n        else:",
  "        if value is None:\n            self._value = None\n            self.set_parent_to_traversal()\n        else:", rule='C11-L6')
V('c11-set-parent-adds-none', 'C11', 'hl7apy/core.py',
  "        self._traversal_parent = parent\n        if parent is not None:\n            parent.add(self)",
  "        self._traversal_parent = parent\n        if parent is not None or self._parent is not None:\n            (parent or self._parent).add(self)",
  rule='C11-L3')
V('c11-getattr-caches-on-element', 'C11', 'hl7apy/core.py',
  "        if hasattr(self, 'children') and name not in self.cls_attrs:\n            return self.children.get(name)",
  "        if hasattr(self, 'children') and name not in self.cls_attrs:\n            self.repetitions[name] = (0, -1)\n            return self.children.get(name)",
  rule='C11-L7')
V('c11-to-er7-normalises', 'C11', 'hl7apy/core.py',
  "        separator = encoding_chars.get('FIELD')\n        repetition = encoding_chars.get('REPETITION')",
  "        separator = encoding_chars.get('FIELD')\n        repetition = encoding_chars.get('REPETITION')\n        self._last_child_index = max(self._last_child_index, self._last_allowed_child_index)",
  rule='C11-L7')

# ---------------------------------------------------------------- C12
V('c12-segment-add-bookkeeping-first', 'C12', 'hl7apy/core.py',
  "        super(Segment, self).add(obj)\n        # updates the index of the last children not allowed (a child created by a mere read does not count until it is promoted)\n        if obj.name and self.allow_infinite_children and obj.traversal_parent is None:\n            field_index = int(obj.name[4:])\n            if field_index > self._last_child_index:\n                self._last_child_index = field_index",
  "        # updates the index of the last children not allowed (a child created by a mere read does not count until it is promoted)\n        if obj.name and self.allow_infinite_children and obj.traversal_parent is None:\n            field_index = int(obj.name[4:])\n            if field_index > self._last_child_index:\n                self._last_child_index = field_index\n        super(Segment, self).add(obj)",
  rule='C12-O')
V('c12-remove-by-name-then-check', 'C12', 'hl7apy/core.py',
  "        child = self.child_at_index(name, index)\n        self.remove(child)\n        return child",
  "        child = self.child_at_index(name, index)\n        self.remove(child)\n        if child is None:\n            raise ChildNotFound(name)\n        return child",
  rule='C12-O')
V('c12-append-then-cardinality', 'C12', 'hl7apy/core.py',
  "                self._remove_from_traversal_index(child)\n                self.list.append(child)\n                try:\n                    self.indexes[child.name].append(child)\n                except KeyError:\n                    self.indexes[child.name] = [child]",
  "                self._remove_from_traversal_index(child)\n                self.list.append(child)\n                try:\n                    self.indexes[child.name].append(child)\n                except KeyError:\n                    self.indexes[child.name] = [child]\n                if len(self.indexes[child.name]) > 100:\n                    raise MaxChildLimitReached(self.element, child, 100)",
  rule='C12-O')
V('c12-group-parse-children-clears-first', 'C12', 'hl7apy/core.py',
  "        children = super(Group, self).parse_children(text, **kwargs)\n        self.children = children",
  "        self.children = []\n        children = super(Group, self).parse_children(text, **kwargs)\n        self.children = children",
  rule='C12-O')
V('c12-component-add-after-super', 'C12', 'hl7apy/core.py',
  "        # base datatype components can't have more than one child\n        if self.name and is_base_datatype(self.datatype, self.version) and \\\n                len(self.children) >= 1:\n            raise MaxChildLimitReached(self, obj, 1)\n\n        return super(Field, self).add(obj)",
  "        res = super(Field, self).add(obj)\n        # base datatype components can't have more than one child\n        if self.name and is_base_datatype(self.datatype, self.version) and \\\n                len(self.children) > 1:\n            raise MaxChildLimitReached(self, obj, 1)\n        return res",
  rule='C12-O')
V('c12-set-value-datatype-first', 'C12', 'hl7apy/core.py',
  "            children = self.parse_children(value)\n            if Validator.is_tolerant(self.validation_level) and \\\n                    is_base_datatype(self.datatype, self.version) and len(children) > 1:\n                self.datatype = None\n            self.children = children",
  "            self.datatype = None if Validator.is_tolerant(self.validation_level) else self.datatype\n            children = self.parse_children(value)\n            self.children = children",
  rule='C12-O')
V('c12-fix-replace-child', 'C12', 'hl7apy/core.py',
  "            self.remove(old_child)\n            self.insert(list_index, new_child, by_name_index)",
  "            self._check_replacement(old_child, new_child)\n            self._swap(list_index, by_name_index, old_child, new_child)",
  expect='fixed:C12-O|core.ElementList.replace_child')
V('c12-twin-reorder-independent', 'C12', 'hl7apy/core.py',
  "            list_index = self.list.index(old_child)\n            by_name_index = self.indexes[old_child.name].index(old_child)",
  "            by_name_index = self.indexes[old_child.name].index(old_child)\n            list_index = self.list.index(old_child)",
  expect='clean')

# ---------------------------------------------------------------- C03
V('c03-fields-skip-on-keyerror', 'C03', 'hl7apy/parser.py',
  "        try:\n            reference = references[name]['ref'] if references is not None else None\n        except KeyError:\n            reference = None\n\n        if field.strip() or name is None:",
  "        try:\n            reference = references[name]['ref'] if references is not None else None\n        except KeyError:\n            continue\n\n        if field.strip() or name is None:",
  rule='C03-P')
V('c03-components-drop-beyond-structure', 'C03', 'hl7apy/parser.py',
  "        if component.strip() or component_name is None or component_name.startswith(\"VARIES_\"):\n            components.append(",
  "        if (component.strip() or component_name is None or component_name.startswith(\"VARIES_\")) and \\\n                (references is None or reference is not None):\n            components.append(",
  rule='C03-P')
V('c03-subcomponents-max-three', 'C03', 'hl7apy/parser.py',
  "        if subcomponent.strip() or subcomponent_name is None:\n            subcomponents.append(",
  "        if index > 20:\n            break\n        if subcomponent.strip() or subcomponent_name is None:\n            subcomponents.append(",
  rule='C03-P')
V('c03-repetitions-first-only', 'C03', 'hl7apy/parser.py',
  "                for rep in field.split(repetition_sep):\n                    fields.append(parse_field(rep, name, version, encoding_chars, validation_level,\n                                              reference, force_varies))",
  "                for rep in field.split(repetition_sep):\n                    if rep != field and name is not None and name.startswith('MSH'):\n                        continue\n                    fields.append(parse_field(rep, name, version, encoding_chars, validation_level,\n                                              reference, force_varies))",
  rule='C03-P')
V('c03-segments-sorted', 'C03', 'hl7apy/parser.py', "    return segments\n\n\ndef parse_segment(",
  "    return sorted(segments, key=lambda e: e.name != 'MSH')\n\n\ndef parse_segment(", rule='C03-O')
V('c03-get-children-filters', 'C03', 'hl7apy/core.py', "        return [(v,) for v in self.list]",
  "        return [(v,) for v in self.list if v.name is not None]", rule='C03-O')
V('c03-parse-field-raises-on-unknown', 'C03', 'hl7apy/parser.py',
  "        else:\n            field = Field(version=version, validation_level=validation_level, reference=reference)\n",
  "        else:\n            raise\n", rule='C03-U')
V('c03-encoder-drops-unnamed', 'C03', 'hl7apy/core.py',
  "            for i in xrange(self._last_allowed_child_index + 1, self._last_child_index + 1):\n                children.append(self.children.indexes.get('{}_{}'.format(self.name, i), None))\n        children.extend([c for c in self.children.get_children() if c[0].name in (None, 'ST')])",
  "            for i in xrange(self._last_allowed_child_index + 1, self._last_child_index + 1):\n                children.append(self.children.indexes.get('{}_{}'.format(self.name, i), None))",
  rule='C03-U')
V('c03-twin-enumerate-start', 'C03', 'hl7apy/parser.py',
  "    for index, subcomponent in enumerate(text.split(subcomp_sep)):",
  "    pieces = text.split(subcomp_sep)\n    for index, subcomponent in enumerate(pieces):", expect='clean')

# ---------------------------------------------------------------- C08
V('c08-pop-without-cursor', 'C08', 'hl7apy/parser.py',
  "                        if current_parent is not None:\n                            parents_refs.pop()\n                            current_parent = current_parent.parent",
  "                        if current_parent is not None:\n                            parents_refs.pop()\n                        if current_parent is not None and x > 0:\n                            current_parent = current_parent.parent",
  rule='C08-S')
V('c08-cursor-before-attach', 'C08', 'hl7apy/parser.py',
  "                            if current_parent.parent is None:\n                                segments.append(group)\n                            else:\n                                current_parent.parent.add(group)\n                            current_parent = group",
  "                            previous = current_parent\n                            current_parent = group\n                            if previous.parent is None:\n                                pass\n                            else:\n                                pass",
  rule='C08-S')
V('c08-push-not-popped', 'C08', 'hl7apy/parser.py',
  "            if ref is not None:\n                break\n            else:\n                parents_ref.pop(-1)",
  "            if ref is not None:\n                break", rule='C08-B')
V('c08-search-sorted', 'C08', 'hl7apy/parser.py', "        for g in groups:\n            parents_ref.append((g[0], g[1]))",
  "        for g in sorted(groups):\n            parents_ref.append((g[0], g[1]))", rule='C08-D')
V('c08-groups-as-set', 'C08', 'hl7apy/parser.py', "    ref = None\n    groups = []\n    p_ref = parents_ref[-1][1]",
  "    ref = None\n    groups = []\n    seen = set()\n    p_ref = parents_ref[-1][1]", rule='C08-D')
V('c08-modes-differ', 'C08', 'hl7apy/parser.py',
  "                    segment = parse_segment(s.strip(), version, encoding_chars, validation_level)\n                    segments.append(segment)",
  "                    segment = parse_segment(s, version, encoding_chars, validation_level)\n                    segments.append(segment)",
  rule='C08-E')
V('c08-group-wrong-reference', 'C08', 'hl7apy/parser.py',
  "                            group = Group(current_parent.name, version=version, reference=current_parent.reference,",
  "                            group = Group(current_parent.name, version=version, reference=parents_refs[-1][1],",
  rule='C08-A')
V('c08-push-segments-too', 'C08', 'hl7apy/parser.py',
  "        elif c[3] == \"GRP\":\n            groups.append(c)", "        else:\n            groups.append(c)", rule='C08-A')
V('c08-twin-rename-loopvar', 'C08', 'hl7apy/parser.py', "        for g in groups:\n            parents_ref.append((g[0], g[1]))",
  "        for grp in groups:\n            g = grp\n            parents_ref.append((grp[0], grp[1]))", expect='clean')

# ---------------------------------------------------------------- C05
V('c05-strict-branch-repairs', 'C05', 'hl7apy/core.py',
  "            if Validator.is_strict(self.validation_level):  # cannot be created if validation is strict\n                raise ChildNotValid(name, self)\n        return element\n\n    def add(self, obj):",
  "            if Validator.is_strict(self.validation_level):  # cannot be created if validation is strict\n                self.structure_by_name = None\n        return element\n\n    def add(self, obj):",
  rule='C05-L')
V('c05-new-tolerant-only-branch', 'C05', 'hl7apy/core.py',
  "        valid = child.classname in (c.__name__ for c in self.child_classes.values())\n        if valid:\n            if child.name is not None:\n                self.find_child_reference(child.name)\n        return valid",
  "        valid = child.classname in (c.__name__ for c in self.child_classes.values())\n        if Validator.is_tolerant(self.validation_level):\n            self.repetitions[child.name] = (0, -1)\n        if valid:\n            if child.name is not None:\n                self.find_child_reference(child.name)\n        return valid",
  rule='C05-L')
V('c05-level-as-value', 'C05', 'hl7apy/core.py',
  "        child_class = list(self.child_classes.values())[0]\n        separator = encoding_chars.get(child_class.__name__.upper(), '')",
  "        child_class = list(self.child_classes.values())[0]\n        strict = Validator.is_strict(self.validation_level)\n        separator = encoding_chars.get(child_class.__name__.upper(), '')",
  rule='C05-L')
V('c05-cardinality-off-by-one', 'C05', 'hl7apy/core.py',
  "                    if len(self.indexes.get(child.name, [])) + 1 > int(max_rep) and max_rep > -1:",
  "                    if len(self.indexes.get(child.name, [])) > int(max_rep) and max_rep > -1:", rule='C05-K')
V('c05-validator-ge', 'C05', 'hl7apy/validation.py', "                elif children_num > max_repetitions:",
  "                elif children_num >= max_repetitions:", rule='C05-K')
V('c05-cardinality-under-tolerant', 'C05', 'hl7apy/core.py',
  "                if Validator.is_strict(self.element.validation_level):\n                    min_rep, max_rep",
  "                if not Validator.is_strict(self.element.validation_level):\n                    min_rep, max_rep", rule='C05-L')
V('c05-datatype-drops-level', 'C05', 'hl7apy/base_datatypes.py',
  "        super(ST, self).__init__(value, 199, highlights, validation_level)", "        super(ST, self).__init__(value, 199, highlights)",
  rule='C05-M')
V('c05-textual-drops-level', 'C05', 'hl7apy/base_datatypes.py',
  "        super(TextualDataType, self).__init__(value, max_length,\n                                              validation_level)",
  "        super(TextualDataType, self).__init__(value, max_length)", rule='C05-M')
V('c05-maxlength-guard-gone', 'C05', 'hl7apy/base_datatypes.py',
  "        if Validator.is_strict(self.validation_level):\n            if self.max_length is not None and len('{0}'.format(value)) > self.max_length:\n                raise MaxLengthReached(value, self.max_length)\n",
  "", rule='C05-M')
V('c05-strict-unknown-child-allowed', 'C05', 'hl7apy/core.py',
  "        # cannot add an unknown child with strict validation\n        if child.name is None and Validator.is_strict(self.validation_level):\n            return False\n        valid = super(Segment, self)._is_valid_child(child)",
  "        valid = super(Segment, self)._is_valid_child(child)", expect='violation')
V('c05-fix-group-order', 'C05', 'hl7apy/core.py',
  "        if Validator.is_strict(self.validation_level):\n            children = self.children.get_ordered_children()\n        else:\n            children = self.children.get_children()",
  "        children = self.children.get_children()", expect='fixed:C05-L|core.Group._get_children')

# ---------------------------------------------------------------- C04
V('c04-validator-repairs-datatype', 'C04', 'hl7apy/validation.py',
  "            ref_datatype = ref[2]\n            if el.datatype != ref_datatype:",
  "            ref_datatype = ref[2]\n            if el.datatype is None:\n                el.datatype = ref_datatype\n            if el.datatype != ref_datatype:",
  rule='C04-E')
V('c04-validator-adds-missing', 'C04', 'hl7apy/validation.py',
  "                if children_num < min_repetitions:\n                    errs.append(ValidationError(\"Missing required child {}.{}\".format(el.name, child_name)))\n                elif",
  "                if children_num < min_repetitions:\n                    el.children.create_element(child_name)\n                    errs.append(ValidationError(\"Missing required child {}.{}\".format(el.name, child_name)))\n                elif",
  rule='C04-E')
V('c04-encoder-caches-index', 'C04', 'hl7apy/core.py',
  "        children = [self.indexes.get(k, None) for k in ordered_keys]\n        return children",
  "        children = [self.indexes.setdefault(k, []) or None for k in ordered_keys]\n        return children", rule='C04-E')
V('c04-is-valid-ignores-errors', 'C04', 'hl7apy/validation.py', "                is_valid=not errors,", "                is_valid=not warnings,",
  rule='C04-V')
V('c04-raise-last', 'C04', 'hl7apy/validation.py', "            raise errors[0]", "            raise errors[-1]", rule='C04-V')
V('c04-report-skips-warnings', 'C04', 'hl7apy/validation.py',
  "                    for e in errors:\n                        f.write(\"Error: {}\\n\".format(e))\n                    for w in warnings:\n                        f.write(\"Warning: {}\\n\".format(w))",
  "                    for e in errors:\n                        f.write(\"Error: {}\\n\".format(e))", rule='C04-V')
V('c04-errors-rebound', 'C04', 'hl7apy/validation.py', "        _is_valid(element, reference, errors, warnings)\n",
  "        _is_valid(element, reference, errors, warnings)\n        errors = errors[:1]\n", rule='C04-V')
V('c04-repetitions-not-called', 'C04', 'hl7apy/validation.py',
  "                        _check_repetitions(el, children, cardinality, child_name, errs)\n", "                        pass\n",
  rule='C04-R')
V('c04-datatype-check-dead', 'C04', 'hl7apy/validation.py', "                _check_datatype(el, ref, errs)\n", "", rule='C04-R')
V('c04-warning-as-error-class', 'C04', 'hl7apy/validation.py',
  "                errs.append(ValidationError(\"Datatype {} is not correct", "                errs.append(ValidationWarning(\"Datatype {} is not correct",
  rule='C04-R')
V('c04-unknown-not-reported', 'C04', 'hl7apy/validation.py',
  "            if el.is_unknown():\n                errs.append(ValidationError(\"Unknown element found: {}.{}\".format(el.parent, el)))\n                return",
  "            if el.is_unknown():\n                return", rule='C04-R')
V('c04-table-negative-min', 'C04', 'hl7apy/v2_4/segments.py', "('ACC_1', FIELDS['ACC_1'], (0, 1), 'FIE')",
  "('ACC_1', FIELDS['ACC_1'], (2, 1), 'FIE')", rule='C04-C')

# ---------------------------------------------------------------- C15
V('c15-raise-typeerror-in-encoder', 'C15', 'hl7apy/core.py',
  "        if encoding_chars is None:\n            encoding_chars = self.encoding_chars\n\n        child_class = list(self.child_classes.values())[0]",
  "        if encoding_chars is None:\n            encoding_chars = self.encoding_chars\n        if not isinstance(encoding_chars, dict):\n            raise TypeError('encoding_chars must be a dict')\n\n        child_class = list(self.child_classes.values())[0]",
  rule='C15-T')
V('c15-msh9-unguarded', 'C15', 'hl7apy/parser.py',
  "    fields, enc_chars = _split_msh(content)\n\n    try:\n        msh_9 = fields[8].strip()\n    except IndexError:\n        msh_9 = None\n\n    return msh_9",
  "    fields, enc_chars = _split_msh(content)\n\n    msh_9 = fields[8].strip()\n\n    return msh_9", rule='C15-I')
V('c15-msh12-unguarded', 'C15', 'hl7apy/parser.py',
  "    try:\n        msh_12 = fields[11].strip()\n    except IndexError:\n        version = None\n    else:",
  "    msh_12 = fields[11].strip()\n    if True:", rule='C15-I')
V('c15-to-er7-reads-reference', 'C15', 'hl7apy/core.py',
  "        separator = encoding_chars.get('FIELD')\n        repetition = encoding_chars.get('REPETITION')",
  "        separator = encoding_chars.get('FIELD')\n        repetition = encoding_chars.get('REPETITION') if self.reference else None",
  rule='C15-A')
V('c15-router-no-mapping', 'C15', 'hl7apy/mllp.py',
  "            try:\n                msg_type = get_message_type(msg)\n            except ParserError:\n                raise InvalidHL7Message\n",
  "            msg_type = get_message_type(msg)\n", rule='C15-M')

# ---------------------------------------------------------------- C16
V('c16-to-mllp-order', 'C16', 'hl7apy/core.py', 'return "{0}{1}{2}{3}{2}".format(MLLP_ENCODING_CHARS.SB,',
  'return "{0}{1}{3}{2}".format(MLLP_ENCODING_CHARS.SB,', rule='C16-F')
V('c16-consts-eb', 'C16', 'hl7apy/consts.py', "    EB = '\\x1c'", "    EB = '\\x1d'", rule='C16-F')
V('c16-handler-eb', 'C16', 'hl7apy/mllp.py', '        self.eb = b"\\x1c"', '        self.eb = b"\\x1d"', rule='C16-F')
V('c16-regex-single-line', 'C16', 'hl7apy/mllp.py', 'r"(([^\\r]+\\r)*([^\\r]+\\r?))"', 'r"([^\\r]+\\r?)"', rule='C16-F')
V('c16-regex-no-anchor-cr', 'C16', 'hl7apy/mllp.py',
  "self.eb.decode('ascii'), self.cr.decode('ascii')]))", "self.eb.decode('ascii')]))", rule='C16-F')
V('c16-end-seq-eb-only', 'C16', 'hl7apy/mllp.py', "        end_seq = self.eb + self.cr", "        end_seq = self.eb + self.eb", rule='C16-F')
V('c16-no-close-after-reply', 'C16', 'hl7apy/mllp.py',
  "                self.wfile.write(response.encode(self.encoding))\n        self.request.close()",
  "                self.wfile.write(response.encode(self.encoding))\n                return\n        self.request.close()", rule='C16-H')
V('c16-reply-twice', 'C16', 'hl7apy/mllp.py',
  "                self.wfile.write(response.encode(self.encoding))\n        self.request.close()",
  "                self.wfile.write(response.encode(self.encoding))\n                self.wfile.write(response.encode(self.encoding))\n        self.request.close()",
  rule='C16-H')
V('c16-route-unextracted', 'C16', 'hl7apy/mllp.py',
  "        message = self._extract_hl7_message(line.decode(self.encoding))\n        if message is not None:",
  "        message = self._extract_hl7_message(line.decode(self.encoding))\n        if message is None:\n            message = line.decode(self.encoding)\n        if message is not None:",
  rule='C16-H')
V('c16-first-byte-ignored', 'C16', 'hl7apy/mllp.py',
  "        if line[:1] != self.sb:  # First MLLP char\n            self.request.close()\n            return\n", "", rule='C16-H')
V('c16-lookup-wrong-key', 'C16', 'hl7apy/mllp.py',
  "                handler, args = self.handlers[msg_type][0], self.handlers[msg_type][1:]",
  "                handler, args = self.handlers[msg][0], self.handlers[msg][1:]", rule='C16-R')
V('c16-unsupported-swallowed', 'C16', 'hl7apy/mllp.py',
  "            except KeyError:\n                raise UnsupportedMessageType(msg_type)", "            except KeyError:\n                return ''",
  rule='C16-R')
V('c16-recv-in-loop', 'C16', 'hl7apy/mllp.py',
  "                char = self.rfile.read(1)\n                if not char:\n                    break\n                line += char",
  "                char = self.request.recv(1)\n                if not char:\n                    break\n                line += char", rule='C16-C')
V('c16-handler-registers-type', 'C16', 'hl7apy/mllp.py',
  "            h = self._create_handler(handler, msg, args)\n            return h.reply()",
  "            h = self._create_handler(handler, msg, args)\n            self.server.last_type = msg_type\n            return h.reply()",
  rule='C16-T')
V('c16-module-counter', 'C16', 'hl7apy/mllp.py',
  "    def handle(self):\n        end_seq = self.eb + self.cr", "    def handle(self):\n        global _CONNECTIONS\n        _CONNECTIONS = 1\n        end_seq = self.eb + self.cr",
  rule='C16-T')
V('c16-twin-recv-size', 'C16', 'hl7apy/mllp.py', "            line = self.request.recv(3)", "            line = self.request.recv(1)",
  expect='clean')

# ---------------------------------------------------------------- C07
V('c07-getter-transposed', 'C07', 'hl7apy/core.py', "            'REPETITION': msh_2[1],\n            'ESCAPE': msh_2[2],",
  "            'REPETITION': msh_2[2],\n            'ESCAPE': msh_2[1],", rule='C07-K')
V('c07-setter-transposed', 'C07', 'hl7apy/core.py',
  "            value = '{0}{1}{2}{3}'.format(encoding_chars['COMPONENT'],\n                                          encoding_chars['REPETITION'],\n                                          encoding_chars['ESCAPE'],\n                                          encoding_chars['SUBCOMPONENT'])",
  "            value = '{0}{1}{2}{3}'.format(encoding_chars['COMPONENT'],\n                                          encoding_chars['REPETITION'],\n                                          encoding_chars['SUBCOMPONENT'],\n                                          encoding_chars['ESCAPE'])",
  rule='C07-K')
V('c07-parser-unpack-order', 'C07', 'hl7apy/parser.py', "            comp_sep, rep_sep, escape, sub_sep = seps\n            trunc_sep = None",
  "            comp_sep, rep_sep, sub_sep, escape = seps\n            trunc_sep = None", rule='C07-K')
V('c07-parser-dict-swapped', 'C07', 'hl7apy/parser.py', "            'SUBCOMPONENT': sub_sep,\n            'REPETITION': rep_sep,",
  "            'SUBCOMPONENT': rep_sep,\n            'REPETITION': sub_sep,", rule='C07-K')
V('c07-threshold-gt', 'C07', 'hl7apy/core.py', "        if self.version >= '2.7' and len(msh_2) == 5:", "        if self.version > '2.7' and len(msh_2) == 5:",
  rule='C07-T')
V('c07-threshold-28', 'C07', 'hl7apy/__init__.py', "    if version and version >= '2.7':", "    if version and version >= '2.8':", rule='C07-T')
V('c07-setter-always-truncation', 'C07', 'hl7apy/core.py', "        if self.version >= '2.7' and 'TRUNCATION' in encoding_chars:",
  "        if 'TRUNCATION' in encoding_chars:", rule='C07-E')
V('c07-getter-ignores-length', 'C07', 'hl7apy/core.py', "        if self.version >= '2.7' and len(msh_2) == 5:", "        if self.version >= '2.7':",
  rule='C07-E')
V('c07-unguarded-truncation-read', 'C07', 'hl7apy/core.py',
  "        separator = encoding_chars.get('FIELD')\n        repetition = encoding_chars.get('REPETITION')",
  "        separator = encoding_chars.get('FIELD')\n        trunc = encoding_chars['TRUNCATION']\n        repetition = encoding_chars.get('REPETITION')",
  rule='C07-R')
V('c07-required-shrinks', 'C07', 'hl7apy/__init__.py', "    required = {'FIELD', 'COMPONENT', 'SUBCOMPONENT', 'REPETITION', 'ESCAPE'}",
  "    required = {'FIELD', 'COMPONENT', 'SUBCOMPONENT', 'REPETITION'}", rule='C07-R')
V('c07-segment-private-copy', 'C07', 'hl7apy/core.py',
  "    def _handle_empty_children(self, encoding_chars=None):\n        return ''\n\n\nclass Group(Element):",
  "    def _handle_empty_children(self, encoding_chars=None):\n        return ''\n\n    @property\n    def encoding_chars(self):\n        return get_default_encoding_chars(self.version)\n\n\nclass Group(Element):",
  rule='C07-I')

# ---------------------------------------------------------------- C06
V('c06-guard-loses-R', 'C06', 'hl7apy/base_datatypes.py', "r'(?<!%s[HNFSTRE])%s(?![HNFSTRE]%s)'", "r'(?<!%s[HNFSTE])%s(?![HNFSTE]%s)'")
V('c06-lookahead-loses-T', 'C06', 'hl7apy/base_datatypes.py', "r'(?<!%s[HNFSTRE])%s(?![HNFSTRE]%s)'", "r'(?<!%s[HNFSTRE])%s(?![HNFSRE]%s)'")
V('c06-v27-guard-without-L', 'C06', 'hl7apy/v2_7/base_datatypes.py', "r'(?<!%s[HNFSTREL])%s(?![HNFSTREL]%s)'",
  "r'(?<!%s[HNFSTRE])%s(?![HNFSTRE]%s)'")
V('c06-drop-repetition-translation', 'C06', 'hl7apy/base_datatypes.py',
  "                (encoding_chars['SUBCOMPONENT'], '{esc}T{esc}'.format(esc=escape_char)),\n                (encoding_chars['REPETITION'], '{esc}R{esc}'.format(esc=escape_char)),)",
  "                (encoding_chars['SUBCOMPONENT'], '{esc}T{esc}'.format(esc=escape_char)),)", rule='C06-P1')
V('c06-wrong-letter', 'C06', 'hl7apy/base_datatypes.py',
  "                (encoding_chars['SUBCOMPONENT'], '{esc}T{esc}'.format(esc=escape_char)),",
  "                (encoding_chars['SUBCOMPONENT'], '{esc}X{esc}'.format(esc=escape_char)),")
V('c06-unterminated-sequence', 'C06', 'hl7apy/base_datatypes.py',
  "        return ((encoding_chars['FIELD'], '{esc}F{esc}'.format(esc=escape_char)),",
  "        return ((encoding_chars['FIELD'], '{esc}F'.format(esc=escape_char)),")
V('c06-replacement-template', 'C06', 'hl7apy/base_datatypes.py', "                       lambda x: '{esc}E{esc}'.format(esc=escape_char), value)",
  "                       lambda x: '{esc}{esc}'.format(esc=escape_char), value)")
V('c06-escape-before-delimiters', 'C06', 'hl7apy/base_datatypes.py',
  "        for char, esc_seq in translations:\n            value = value.replace(char, esc_seq)\n",
  "", expect='violation')
V('c06-sub-before-replace', 'C06', 'hl7apy/base_datatypes.py',
  "        for char, esc_seq in translations:\n            value = value.replace(char, esc_seq)\n",
  "        value = re.sub(self._get_escape_char_regex(escape_char),\n                       lambda x: '{esc}E{esc}'.format(esc=escape_char), value)\n        for char, esc_seq in translations:\n            value = value.replace(char, esc_seq)\n        return value\n",
  expect='violation')
V('c06-v27-table-loses-truncation', 'C06', 'hl7apy/v2_7/base_datatypes.py',
  "                    (encoding_chars['REPETITION'], '{esc}R{esc}'.format(esc=escape_char)),\n                    (encoding_chars['TRUNCATION'], '{esc}L{esc}'.format(esc=escape_char)),)",
  "                    (encoding_chars['REPETITION'], '{esc}R{esc}'.format(esc=escape_char)),)", rule='C06-P1')
V('c06-subcomponent-ignores-chars', 'C06', 'hl7apy/core.py', "            return self.value.to_er7(encoding_chars)", "            return self.value.to_er7()",
  rule='C06-D')
V('c06-twin-raw-string', 'C06', 'hl7apy/base_datatypes.py', "r'(?<!%s[HNFSTRE])%s(?![HNFSTRE]%s)'", "r'(?<!%s[EHNFSTR])%s(?![EHNFSTR]%s)'",
  expect='clean')

# ---------------------------------------------------------------- C13
V('c13-offset-regex-widened', 'C13', 'hl7apy/utils.py', "(\\+(1[0-4]|0[0-9])|(-(1[0-2]|0[0-9])))", "(\\+(1[0-5]|0[0-9])|(-(1[0-2]|0[0-9])))", rule='C13-O')
V('c13-offset-minutes-widened', 'C13', 'hl7apy/utils.py', "([0-5][0-9]))$'", "([0-6][0-9]))$'", rule='C13-O')
V('c13-ctor-bound-tightened', 'C13', 'hl7apy/base_datatypes.py', "d.hour > 14 or offset[0] == '-' and d.hour > 12", "d.hour > 13 or offset[0] == '-' and d.hour > 12", rule='C13-O')
V('c13-precision-length-12', 'C13', 'hl7apy/utils.py', "    elif 8 <= len(value) <= 11 and value[6] == '.':", "    elif 8 <= len(value) <= 12 and value[6] == '.':", rule='C13-P')
V('c13-precision-offset', 'C13', 'hl7apy/utils.py', "        microsec = len(value) - 7", "        microsec = len(value) - 8", rule='C13-P')
V('c13-new-date-format', 'C13', 'hl7apy/utils.py', "    if len(value) == 4:\n        fmt = '%Y'\n    elif len(value) == 6:", "    if len(value) == 4:\n        fmt = '%Y'\n    elif len(value) == 2:\n        fmt = '%y'\n    elif len(value) == 6:", rule='C13-F')
V('c13-allowed-formats-shrink', 'C13', 'hl7apy/base_datatypes.py', "    allowed_formats = ('%H', '%H%M', '%H%M%S', '%H%M%S.%f')", "    allowed_formats = ('%H%M', '%H%M%S', '%H%M%S.%f')", rule='C13-F')
V('c13-dtm-format-missing', 'C13', 'hl7apy/base_datatypes.py', "    allowed_formats = ('%Y', '%Y%m', '%Y%m%d', '%Y%m%d%H', '%Y%m%d%H%M',", "    allowed_formats = ('%Y', '%Y%m', '%Y%m%d', '%Y%m%d%H%M',", rule='C13-F')
V('c13-nm-drops-level', 'C13', 'hl7apy/base_datatypes.py', "        super(NM, self).__init__(value, 16, validation_level)", "        super(NM, self).__init__(value, 16)", rule='C13-L')
V('c13-si-factory-drops-level', 'C13', 'hl7apy/factories.py', "        return datatype_cls(int(value), validation_level=validation_level)", "        return datatype_cls(int(value))", rule='C13-L')
V('c13-dt-drops-format', 'C13', 'hl7apy/base_datatypes.py', "        super(DT, self).__init__(value, out_format)", "        super(DT, self).__init__(value, '%Y%m%d')", rule='C13-F')
V('c13-twin-regex-grouping', 'C13', 'hl7apy/utils.py', "(\\+(1[0-4]|0[0-9])|(-(1[0-2]|0[0-9])))", "(\\+(0[0-9]|1[0-4])|(-(0[0-9]|1[0-2])))", expect='clean')

# ---------------------------------------------------------------- C14
V('c14-lowercase-long-name', 'C14', 'hl7apy/v2_4/fields.py', "'ACCIDENT_DATE_TIME'", "'Accident_Date_Time'", rule='C14-U')
V('c14-segment-no-upper', 'C14', 'hl7apy/core.py',
  "        name = name.upper()\n        element = self.structure_by_name.get(name, None) or self.structure_by_longname.get(name, None)",
  "        element = self.structure_by_name.get(name, None) or self.structure_by_longname.get(name, None)", rule='C14-F')
V('c14-element-upper-after-lookup', 'C14', 'hl7apy/core.py',
  "    def find_child_reference(self, name):\n        name = name.upper()\n        if isinstance(self.structure_by_name, MutableMapping):\n            element = self.structure_by_name.get(name) or self.structure_by_longname.get(name)\n        else:\n            element = None\n        if element is None:  # not found in self.structure\n            element = find_reference(name, self.child_classes.values(), self.version)\n            if Validator.is_strict",
  "    def find_child_reference(self, name):\n        if isinstance(self.structure_by_name, MutableMapping):\n            element = self.structure_by_name.get(name) or self.structure_by_longname.get(name)\n        else:\n            element = None\n        name = name.upper()\n        if element is None:  # not found in self.structure\n            element = find_reference(name, self.child_classes.values(), self.version)\n            if Validator.is_strict",
  rule='C14-F')
V('c14-proxy-keeps-case', 'C14', 'hl7apy/core.py', "        self.element_name = element_name.upper()", "        self.element_name = element_name", rule='C14-F')
V('c14-positional-off-by-one', 'C14', 'hl7apy/core.py', "                component_name = '{0}_{1}'.format(self.datatype, component)",
  "                component_name = '{0}_{1}'.format(self.datatype, component + 1)", rule='C14-P')
V('c14-subcomponent-uses-field-datatype', 'C14', 'hl7apy/core.py',
  "                subcomponent_name = '{0}_{1}'.format(component_datatype, subcomponent)",
  "                subcomponent_name = '{0}_{1}'.format(self.datatype, subcomponent)", rule='C14-P')
V('c14-path-parts-swapped', 'C14', 'hl7apy/core.py', "            component = int(parts[2])\n            subcomponent = int(parts[3]) if len(parts) == 4 else None",
  "            component = int(parts[3]) if len(parts) == 4 else int(parts[2])\n            subcomponent = int(parts[2]) if len(parts) == 4 else None", rule='C14-P')
V('c14-segment-returns-none', 'C14', 'hl7apy/core.py',
  "                element = find_reference(name, self.child_classes.values(), self.version)\n                if element:\n                    raise ChildNotValid(name, self)\n                else:\n                    raise ChildNotFound(name)\n        return element",
  "                return None\n        return element", rule='C14-N')
V('c14-support-complex-swallow', 'C14', 'hl7apy/core.py',
  "            element = find_reference(name, self.child_classes.values(), self.version)\n            if element is None:\n                raise ChildNotFound(name)\n            # it means",
  "            try:\n                element = find_reference(name, self.child_classes.values(), self.version)\n            except ChildNotFound:\n                element = None\n            # it means",
  rule='C14-N')
V('c14-datatype-position-renamed', 'C14', 'hl7apy/v2_6/datatypes.py', "('CX_2', DATATYPES['CX_2'], (0, 1), 'CMP'),\n           ('CX_3', DATATYPES['CX_3']",
  "('CX_3', DATATYPES['CX_3'], (0, 1), 'CMP'),\n           ('CX_2', DATATYPES['CX_2']", rule='C14-P')
V('c14-lib-find-returns-none', 'C14', 'hl7apy/v2_4/__init__.py', "            pass\n    raise ChildNotFound(name)", "            pass\n    return None", rule='C14-N')

# ---------------------------------------------------------------- C01 / C02
V('c01-components-split-on-subcomponent', 'C01', 'hl7apy/parser.py', "    component_sep = encoding_chars['COMPONENT']", "    component_sep = encoding_chars['SUBCOMPONENT']", rule='C01-S')
V('c01-segment-joins-with-repetition', 'C01', 'hl7apy/core.py', "        separator = encoding_chars.get('FIELD')\n        repetition = encoding_chars.get('REPETITION')",
  "        separator = encoding_chars.get('REPETITION')\n        repetition = encoding_chars.get('REPETITION')", rule='C01-S')
V('c01-group-child-classes-order', 'C01', 'hl7apy/core.py', '        self.child_classes = {"SEG": Segment, "GRP": Group}', '        self.child_classes = {"GRP": Group, "SEG": Segment}', rule='C01-S')
V('c01-field-name-off-by-one', 'C01', 'hl7apy/parser.py', '        name = "{0}_{1}".format(name_prefix, index + 1) if name_prefix is not None else None',
  '        name = "{0}_{1}".format(name_prefix, index) if name_prefix is not None else None', rule='C01-N')
V('c01-msh-pop-removed', 'C01', 'hl7apy/core.py', "        if self.name == 'MSH' and len(s) > 1:\n            s.pop(1)\n", "", rule='C01-M')
V('c01-msh2-split-on-repetition', 'C01', 'hl7apy/parser.py',
  "            if name == 'MSH_2':\n                fields.append(parse_field(field, name, version, encoding_chars, validation_level,\n                                          reference))\n            else:\n                for rep",
  "            if name == 'MSH_0':\n                fields.append(parse_field(field, name, version, encoding_chars, validation_level,\n                                          reference))\n            else:\n                for rep",
  rule='C01-M')
V('c01-field-piece-stripped', 'C01', 'hl7apy/parser.py', "                    fields.append(parse_field(rep, name, version, encoding_chars, validation_level,\n                                              reference, force_varies))",
  "                    fields.append(parse_field(rep.strip(), name, version, encoding_chars, validation_level,\n                                              reference, force_varies))", rule='C01-V')
V('c01-component-text-normalised', 'C01', 'hl7apy/parser.py', "    try:\n        component = Component(name, datatype, version=version, validation_level=validation_level,\n                              reference=reference)",
  "    text = text.replace('\\t', ' ')\n    try:\n        component = Component(name, datatype, version=version, validation_level=validation_level,\n                              reference=reference)", rule='C01-V')
V('c01-encoder-sorted', 'C01', 'hl7apy/core.py', "        children = [self.indexes.get(k, None) for k in ordered_keys]", "        children = [self.indexes.get(k, None) for k in sorted(ordered_keys)]", rule='C01-N2')
V('c01-table-row-swapped', 'C01', 'hl7apy/v2_3/segments.py', "('AL1_2', FIELDS['AL1_2'], (0, 1), 'FIE'),\n             ('AL1_3', FIELDS['AL1_3'], (1, 1), 'FIE'),", "('AL1_3', FIELDS['AL1_3'], (1, 1), 'FIE'),\n             ('AL1_2', FIELDS['AL1_2'], (0, 1), 'FIE'),", rule='T2')
V('c02-range-off-by-one', 'C02', 'hl7apy/core.py', "            for i in xrange(self._last_allowed_child_index + 1, self._last_child_index + 1):", "            for i in xrange(self._last_allowed_child_index + 1, self._last_child_index):", rule='C02-K3')
V('c02-add-never-raises-bound', 'C02', 'hl7apy/core.py', "            if field_index > self._last_child_index:\n                self._last_child_index = field_index", "            if field_index > self._last_child_index + 1:\n                self._last_child_index = field_index", rule='C02-K3')
V('c02-subcomponent-name-offset', 'C02', 'hl7apy/parser.py', '            subcomponent_name = "{0}_{1}".format(component_datatype, index + 1)', '            subcomponent_name = "{0}_{1}".format(component_datatype, index + 2)', rule='C02-K2')
V('c02-table-field-deleted', 'C02', 'hl7apy/v2_2/segments.py', "            (('ACC_1', FIELDS['ACC_1'], (0, 1), 'FIE'),\n", "            (", rule='T2')
V('c02-table-tag-wrong', 'C02', 'hl7apy/v2_4/segments.py', "('ACC_2', FIELDS['ACC_2'], (0, 1), 'FIE')", "('ACC_2', FIELDS['ACC_2'], (0, 1), 'CMP')", rule='T3')
V('c02-table-wrong-struct', 'C02', 'hl7apy/v2_4/fields.py', "'ACC_2': ('sequence', DATATYPES_STRUCTS['CE'], 'CE',", "'ACC_2': ('sequence', DATATYPES_STRUCTS['CX'], 'CE',", rule='T5')
V('c02-table-last-field-dropped', 'C02', 'hl7apy/v2_5/segments.py', "             ('ACC_11', FIELDS['ACC_11'], (0, 1), 'FIE'),)),", "             )),", rule='T7')
V('c02-twin-enumerate-one', 'C02', 'hl7apy/parser.py', "    for index, component in enumerate(text.split(component_sep)):", "    for index, component in enumerate(text.split(component_sep), 0):", expect='clean')


# ---------------------------------------------------------------- regressions of repaired defects (fix: commits in /repo)
# each variant reverts one repair: the check must report the violation again (fixed entries suppress nothing)
V('reg-c17-add-subcomponent', 'C17', 'hl7apy/core.py', "        if self.is_unknown() and is_base_datatype(self.datatype, self.version):",
  "        if self.is_unknown() and is_base_datatype(self.datatype):", rule='C17-F')
V('reg-c17-factory-fallback', 'C17', 'hl7apy/factories.py', "        return factories['ST'](value, validation_level=validation_level)",
  "        return factories['ST'](value)", rule='C17-F')
V('reg-c13-factory-fallback', 'C13', 'hl7apy/factories.py', "        return factories['ST'](value, validation_level=validation_level)",
  "        return factories['ST'](value)", rule='C13-L')
V('reg-c18-legacy', 'C18', 'hl7apy/parser.py', "        if reference is not None and reference[0] == 'mp':\n            raise LegacyMessageProfile()\n", "", rule='C18-S')
V('reg-c09-setitem', 'C09', 'hl7apy/core.py', "        child = self.list[index]\n        self.set(child.name, value, self.indexes[child.name].index(child))",
  "        child_name = self.list[index].name\n        self.set(child_name, value, index)", rule='C09-K')
V('reg-c03-fallthrough', 'C03', 'hl7apy/parser.py',
  "            else:\n                # no level of the structure has a place for this segment: keep it at the message level\n                segments.append(parse_segment(s.strip(), version, encoding_chars, validation_level))\n",
  "", rule='C03-P')
V('reg-c15-fields11', 'C15', 'hl7apy/parser.py', "            elif len(seps) == N_SEPS_27 and len(fields) > 11 and fields[11] >= '2.7':",
  "            elif len(seps) == N_SEPS_27 and fields[11] >= '2.7':", rule='C15-I')
V('reg-c15-validate-reference', 'C15', 'hl7apy/core.py', "reference=getattr(self, 'reference', None), report_file=report_file,", "reference=self.reference, report_file=report_file,", rule='C15-A')
V('reg-c07-duplicates', 'C07', 'hl7apy/__init__.py', "    values = [v for k, v in encoding_chars.items() if k in required or k == 'TRUNCATION']",
  "    values = [v for k, v in encoding_chars.items() if k in required]", rule='C07-R')
V('reg-c02-oro', 'C02', 'hl7apy/v2_1/segments.py', "    'ORO': ('sequence',\n            (('ORO_1'", "    'ORO': (\n            (('ORO_1'", rule='T1')
V('reg-c05-raw-level', 'C05', 'hl7apy/core.py', "        if self.is_unknown() and Validator.is_strict(self.validation_level) and \\\n                not is_base_datatype(self.datatype, self.version) and self.datatype != 'varies':",
  "        if self.is_unknown() and Validator.is_strict(validation_level) and \\\n                not is_base_datatype(self.datatype, self.version) and self.datatype != 'varies':", rule='C05-V')
V('reg-c17-raw-level-field', 'C17', 'hl7apy/core.py', "        SupportComplexDataType.__init__(self)\n\n        if validation_level is None:\n            validation_level = get_default_validation_level()\n\n        if name is None",
  "        SupportComplexDataType.__init__(self)\n\n        if name is None", rule='C17-R')
# stale texts refreshed after the repairs
V('c18-validate-ignores-reference', 'C18', 'hl7apy/core.py', "reference=getattr(self, 'reference', None), report_file=report_file,", "report_file=report_file,", rule='C18-V')
V('c18-keyerror-unmapped', 'C18', 'hl7apy/parser.py', "    except KeyError:\n        raise MessageProfileNotFound()\n\n    try:\n        m = Message(", "    except KeyError:\n        reference = None\n\n    try:\n        m = Message(", rule='C18-S')
V('c15-raise-keyerror', 'C15', 'hl7apy/parser.py', "    except KeyError:\n        raise MessageProfileNotFound()\n\n    try:\n        m = Message(", "    except KeyError:\n        raise KeyError(message_structure)\n\n    try:\n        m = Message(", rule='C15-T')

# ---------------------------------------------------------------- benign twins (behaviour-preserving refactors): must stay silent
V('twin-mllp-rename-accumulator', 'C16', 'hl7apy/mllp.py', None, None, expect='clean',
  edits=[('hl7apy/mllp.py', "            line = self.request.recv(3)", "            buf = self.request.recv(3)"),
         ('hl7apy/mllp.py', "        if line[:1] != self.sb:  # First MLLP char", "        if buf[:1] != self.sb:  # First MLLP char"),
         ('hl7apy/mllp.py', "        while line[-2:] != end_seq:", "        while buf[-2:] != end_seq:"),
         ('hl7apy/mllp.py', "                line += char", "                buf += char"),
         ('hl7apy/mllp.py', "        message = self._extract_hl7_message(line.decode(self.encoding))", "        message = self._extract_hl7_message(buf.decode(self.encoding))")])
V('twin-parser-percent-name', 'C02', 'hl7apy/parser.py', '            subcomponent_name = "{0}_{1}".format(component_datatype, index + 1)',
  '            subcomponent_name = "{0}_{1}".format(component_datatype, 1 + index)', expect='clean')
V('twin-segment-add-split', 'C02', 'hl7apy/core.py', "            field_index = int(obj.name[4:])\n            if field_index > self._last_child_index:\n                self._last_child_index = field_index",
  "            field_index = int(obj.name[4:])\n            self._last_child_index = max(self._last_child_index, field_index)", expect='clean')
V('twin-getter-truncation-item', 'C07', 'hl7apy/core.py', "            chars.update({'TRUNCATION': msh_2[4]})", "            chars['TRUNCATION'] = msh_2[4]", expect='clean')
V('twin-can-add-reorder-checks', 'C10', 'hl7apy/core.py',
  "                if self.element.validation_level != child.validation_level:\n                    raise OperationNotAllowed('Cannot add a child with a different validation_level')\n                if self.element.version != child.version:\n                    raise OperationNotAllowed('Cannot add a child with a different HL7 version')",
  "                if self.element.version != child.version:\n                    raise OperationNotAllowed('Cannot add a child with a different HL7 version')\n                if self.element.validation_level != child.validation_level:\n                    raise OperationNotAllowed('Cannot add a child with a different validation_level')",
  expect='clean')
V('twin-validator-rename-lists', 'C04', 'hl7apy/validation.py', None, None, expect='clean',
  edits=[('hl7apy/validation.py', "        errors = []\n        warnings = []\n\n        _is_valid(element, reference, errors, warnings)", "        found = []\n        notes = []\n\n        _is_valid(element, reference, found, notes)"),
         ('hl7apy/validation.py', "                    for e in errors:\n                        f.write(\"Error: {}\\n\".format(e))\n                    for w in warnings:", "                    for e in found:\n                        f.write(\"Error: {}\\n\".format(e))\n                    for w in notes:"),
         ('hl7apy/validation.py', "                for e in errors:\n                    write(\"Error: {}\\n\".format(e))\n                for w in warnings:", "                for e in found:\n                    write(\"Error: {}\\n\".format(e))\n                for w in notes:"),
         ('hl7apy/validation.py', "                is_valid=not errors,\n                errors=errors,\n                warnings=warnings)\n\n        if errors:\n            raise errors[0]", "                is_valid=not found,\n                errors=found,\n                warnings=notes)\n\n        if found:\n            raise found[0]")])
V('twin-set-not-child', 'C09', 'hl7apy/core.py', "        if child_to_remove is None:\n            self.append(child)", "        if not child_to_remove:\n            self.append(child)", expect='clean')
V('twin-parse-fields-msh2-tuple', 'C01', 'hl7apy/parser.py', "            if name == 'MSH_2':", "            if name in ('MSH_2',):", expect='clean')
V('twin-escape-loop-vars', 'C06', 'hl7apy/base_datatypes.py', "        for char, esc_seq in translations:\n            value = value.replace(char, esc_seq)",
  "        for delimiter, sequence in translations:\n            value = value.replace(delimiter, sequence)", expect='clean')
V('twin-remove-trailing-loop', 'C02', 'hl7apy/core.py', "    trailing = list(takewhile(lambda x: not x, reversed(children)))\n    if len(trailing) > 0:\n        children = children[:-len(trailing)]\n    return children",
  "    while children and not children[-1]:\n        children = children[:-1]\n    return children", expect='clean')
V('twin-create-element-ifelse-swapped', 'C11', 'hl7apy/core.py',
  "            if not traversal_parent:\n                kwargs['parent'] = self.element\n            else:\n                kwargs['traversal_parent'] = self.element",
  "            if traversal_parent:\n                kwargs['traversal_parent'] = self.element\n            else:\n                kwargs['parent'] = self.element", expect='clean')
V('twin-split-msh-version-var', 'C07', 'hl7apy/parser.py', "            elif len(seps) == N_SEPS_27 and len(fields) > 11 and fields[11] >= '2.7':",
  "            elif len(fields) > 11 and len(seps) == N_SEPS_27 and fields[11] >= '2.7':", expect='clean')
V('twin-find-child-reference-early-return', 'C14', 'hl7apy/core.py',
  "            element = find_reference(name, self.child_classes.values(), self.version)\n            if element is None:\n                raise ChildNotFound(name)\n            # it means",
  "            element = find_reference(name, self.child_classes.values(), self.version)\n            # it means", expect='clean')
V('reg-c15-validator-none-flow', 'C15', 'hl7apy/validation.py',
  "                    errs.append(ValidationError(\"Invalid element found: {}\".format(el)))\n                    return\n",
  "                    errs.append(ValidationError(\"Invalid element found: {}\".format(el)))\n", rule='C15-N')

# ---------------------------------------------------------------- later additions
V('c13-nm-invalidoperation-leaks', 'C13', 'hl7apy/factories.py', "    except InvalidOperation:\n        raise ValueError('{0} is not an HL7 valid NM value'.format(value))",
  "    except InvalidOperation:\n        raise", rule='C13-E')
V('c13-date-format-typeerror', 'C13', 'hl7apy/utils.py', "        raise ValueError('{0} is not an HL7 valid date value'.format(value))\n\n    return fmt\n\n\ndef _get_timestamp_format",
  "        raise TypeError('{0} is not an HL7 valid date value'.format(value))\n\n    return fmt\n\n\ndef _get_timestamp_format", rule='C13-E')
V('c13-fallback-catches-everything-strict', 'C13', 'hl7apy/factories.py', "        if Validator.is_strict(validation_level):\n            raise e\n        # TODO",
  "        # TODO", rule='C13-E')
V('c16-error-handler-arg-order', 'C16', 'hl7apy/mllp.py', "        return handler_class(exc, msg, *args)", "        return handler_class(msg, exc, *args)", rule='C16-R')
V('c16-handler-without-args', 'C16', 'hl7apy/mllp.py', "        return handler_class(msg, *args)", "        return handler_class(msg)", rule='C16-R')

# ---------------------------------------------------------------- rules added after the second round of seeds (C08-C13)
V('c13-m-digits-only', 'C13', 'hl7apy/base_datatypes.py',
  "len('{0}'.format(value)) > self.max_length", "len([c for c in '{0}'.format(value) if c.isdigit()]) > self.max_length", rule='C13-M')
V('c13-m-extra-condition', 'C13', 'hl7apy/base_datatypes.py',
  "if self.max_length is not None and len('{0}'.format(value)) > self.max_length:",
  "if self.max_length is not None and value is not None and len('{0}'.format(value)) > self.max_length:", rule='C13-M')
V('c13-m-ge', 'C13', 'hl7apy/base_datatypes.py',
  "len('{0}'.format(value)) > self.max_length", "len('{0}'.format(value)) > self.max_length + 1", rule='C13-M')
V('c13-m-nm-skips-base', 'C13', 'hl7apy/base_datatypes.py',
  "        super(NM, self).__init__(value, 16, validation_level)",
  "        if value is None:\n            self.value = None\n            self.validation_level = validation_level\n            self.max_length = 16\n            return\n        super(NM, self).__init__(value, 16, validation_level)", rule='C13-M')
V('c13-m-si-max', 'C13', 'hl7apy/base_datatypes.py', "super(SI, self).__init__(value, 4, validation_level)",
  "super(SI, self).__init__(value, 5, validation_level)", rule='C13-M')
V('c13-m-st-other-value', 'C13', 'hl7apy/base_datatypes.py', "super(ST, self).__init__(value, 199, highlights, validation_level)",
  "super(ST, self).__init__(value and value[:199], 199, highlights, validation_level)", rule='C13-M')
V('twin-c13-m-str', 'C13', 'hl7apy/base_datatypes.py', "len('{0}'.format(value)) > self.max_length",
  "len(str(value)) > self.max_length", expect='clean')
V('twin-c13-m-swapped', 'C13', 'hl7apy/base_datatypes.py',
  "if self.max_length is not None and len('{0}'.format(value)) > self.max_length:",
  "if self.max_length is not None and self.max_length < len('{0}'.format(value)):", expect='clean')
V('twin-c13-m-helper', 'C13', 'hl7apy/base_datatypes.py', None, None, expect='clean', edits=[
  ('hl7apy/base_datatypes.py', "len('{0}'.format(value)) > self.max_length", "self._text_length(value) > self.max_length"),
  ('hl7apy/base_datatypes.py', "        self.value = value\n\n    def to_er7(self, encoding_chars=None):\n        \"\"\"\n        Encode to ER7 format",
   "        self.value = value\n\n    def _text_length(self, v):\n        text = '{0}'.format(v)\n        return len(text)\n\n    def to_er7(self, encoding_chars=None):\n        \"\"\"\n        Encode to ER7 format")])
V('c09-e-no-clear', 'C09', 'hl7apy/core.py',
  "        if parent is not None:\n            self.traversal_parent = None\n            self.parent.add(self)",
  "        if parent is not None:\n            self.parent.add(self)", rule='C09-E')
V('c09-e-clear-after-add', 'C09', 'hl7apy/core.py',
  "        if parent is not None:\n            self.traversal_parent = None\n            self.parent.add(self)",
  "        if parent is not None:\n            self.parent.add(self)\n            self.traversal_parent = None", rule='C09-E')
V('c10-x-no-clear', 'C10', 'hl7apy/core.py',
  "        if parent is not None:\n            self.traversal_parent = None\n            self.parent.add(self)",
  "        if parent is not None:\n            self.parent.add(self)", rule='C10-X')
V('twin-c09-e-early-return', 'C09', 'hl7apy/core.py',
  "        self._parent = parent\n        if parent is not None:\n            self.traversal_parent = None\n            self.parent.add(self)",
  "        self._parent = parent\n        if parent is None:\n            return\n        self._traversal_parent = None\n        self.parent.add(self)",
  expect='clean')
V('c08-g-adopt-after', 'C08', 'hl7apy/core.py', None, None, rule='C08-G', edits=[
  ('hl7apy/core.py', "        elif self.is_unknown():  # the message become a known message\n            self.name = message_structure\n            self._find_structure()\n", ""),
  ('hl7apy/core.py', "        super(Message, self).parse_children(text, find_groups, **kwargs)\n",
   "        super(Message, self).parse_children(text, find_groups, **kwargs)\n        if self.is_unknown():\n            self.name = message_structure\n            self._find_structure()\n")])
V('c08-g-name-only', 'C08', 'hl7apy/core.py',
  "            self.name = message_structure\n            self._find_structure()\n        if self.version != version:",
  "            self.name = message_structure\n        if self.version != version:", rule='C08-G')
V('twin-c08-g-split-if', 'C08', 'hl7apy/core.py',
  "        elif self.is_unknown():  # the message become a known message\n            self.name = message_structure\n            self._find_structure()\n",
  "        if self.is_unknown():\n            self.name = message_structure\n            self._find_structure()\n", expect='clean')
V('reg-c07-traversal-delims', 'C07', 'hl7apy/core.py',
  "        if self.traversal_parent is not None:\n            return self.traversal_parent.encoding_chars\n        return get_default_encoding_chars(self.version)",
  "        return get_default_encoding_chars(self.version)", rule='C07-H')
V('reg-c17-traversal-delims', 'C17', 'hl7apy/core.py',
  "        if self.traversal_parent is not None:\n            return self.traversal_parent.encoding_chars\n        return get_default_encoding_chars(self.version)",
  "        return get_default_encoding_chars(self.version)", rule='C17-H')
V('twin-c07-h-single-chain', 'C07', 'hl7apy/core.py',
  "        if self.parent is not None:\n            return self.parent.encoding_chars\n        if self.traversal_parent is not None:\n            return self.traversal_parent.encoding_chars\n        return get_default_encoding_chars(self.version)",
  "        up = self.parent\n        if up is None:\n            up = self.traversal_parent\n        if up is not None:\n            return up.encoding_chars\n        return get_default_encoding_chars(self.version)",
  expect='clean')
V('reg-c12-proxy-value-promote-first', 'C12', 'hl7apy/core.py',
  "            setattr(element, name, value)\n            if name == 'value':\n                element.set_parent_to_traversal()\n",
  "            if name == 'value':\n                element.set_parent_to_traversal()\n            setattr(element, name, value)\n", rule='C12-O')

# ---------------------------------------------------------------- rules added after the second round of seeds (C14-C19)
V('c15-x-unguarded-subscript', 'C15', 'hl7apy/utils.py', "    elif 8 <= len(value) <= 11 and value[6] == '.':",
  "    elif value[6] == '.' and 8 <= len(value) <= 11:", rule='C15-X')
V('c15-x-weaker-bound', 'C15', 'hl7apy/utils.py', "    elif 8 <= len(value) <= 11 and value[6] == '.':",
  "    elif 6 <= len(value) <= 11 and value[6] == '.':", rule='C15-X')
V('c15-x-offset-sign-first', 'C15', 'hl7apy/base_datatypes.py',
  "        if offset and offset[0] not in ('+', '-'):", "        if offset[0] not in ('+', '-') and offset:", rule='C15-X')
V('twin-c15-x-len-gt', 'C15', 'hl7apy/utils.py', "    elif 8 <= len(value) <= 11 and value[6] == '.':",
  "    elif len(value) > 7 and len(value) <= 11 and value[6] == '.':", expect='clean')
V('twin-c15-x-try', 'C15', 'hl7apy/base_datatypes.py',
  "        if offset and offset[0] not in ('+', '-'):\n            raise InvalidDateOffset(offset)",
  "        try:\n            bad_sign = offset[0] not in ('+', '-')\n        except IndexError:\n            bad_sign = False\n        if bad_sign:\n            raise InvalidDateOffset(offset)",
  expect='clean')
V('c18-r-reload-always', 'C18', 'hl7apy/core.py',
  "        elif self.is_unknown():  # the message become a known message\n            self.name = message_structure\n            self._find_structure()\n",
  "        else:\n            self.name = message_structure\n            self._find_structure()\n", rule='C18-R')
V('c18-r-reload-in-setter', 'C18', 'hl7apy/core.py',
  "        children = super(Group, self).parse_children(text, **kwargs)\n        self.children = children",
  "        children = super(Group, self).parse_children(text, **kwargs)\n        self._find_structure()\n        self.children = children", rule='C18-R')
V('twin-c18-r-name-none', 'C18', 'hl7apy/core.py',
  "        elif self.is_unknown():  # the message become a known message\n",
  "        elif self.name is None:  # the message become a known message\n", expect='clean')
V('twin-c18-r-pass-reference', 'C18', 'hl7apy/core.py',
  "        children = super(Group, self).parse_children(text, **kwargs)\n        self.children = children",
  "        children = super(Group, self).parse_children(text, **kwargs)\n        self._find_structure(self.reference)\n        self.children = children", expect='clean')
V('c16-f-dot-payload', 'C16', 'hl7apy/mllp.py', 'r"(([^\\r]+\\r)*([^\\r]+\\r?))"', 'r"(.+)"', rule='C16-F')
V('twin-c16-f-dotall-class', 'C16', 'hl7apy/mllp.py', 'r"(([^\\r]+\\r)*([^\\r]+\\r?))"', 'r"((?:[^\\r]+\\r)*(?:[^\\r]+\\r?))"', expect='clean')

# ---------------------------------------------------------------- benign refactorings as twins, and breaking edits on top of them
import glob as _glob
import os as _os
_HERE = _os.path.dirname(_os.path.dirname(_os.path.abspath(__file__)))
_PROPS_OF = {'B1': ('C01', 'C02', 'C03', 'C07', 'C08', 'C15', 'C17', 'C18'), 'B2': ('C04', 'C09', 'C10', 'C11', 'C12', 'C14'),
             'B3': ('C05', 'C09', 'C11', 'C12', 'C14', 'C17'), 'B4': ('C01', 'C02', 'C07', 'C08', 'C09', 'C18', 'C19'),
             'B5': ('C04', 'C05', 'C13', 'C15', 'C19'), 'B6': ('C05', 'C06', 'C07', 'C13', 'C16', 'C19')}
for _d in sorted(_glob.glob(_os.path.join(_HERE, 'benign', '*', 'patch.diff'))):
    _n = _os.path.basename(_os.path.dirname(_d))
    for _p in _PROPS_OF.get(_n[:2], ()):
        VARIANTS.append(dict(id='benign-%s-%s' % (_n, _p), prop=_p, file=None, old=None, new=None, expect='clean', rule=None,
                             patch='benign/%s/patch.diff' % _n, edits=[]))
# a wrapper that attaches on one path only is not an attach
V('c03-wrapper-one-sided', 'C03', None, None, None, rule='C03-P', patch='benign/B1-04/patch.diff', edits=[
  ('hl7apy/parser.py', "    if parent is None:\n        top_level.append(element)\n    else:\n        parent.add(element)\n",
   "    if parent is None:\n        top_level.append(element)\n")])
V('c08-wrapper-one-sided', 'C08', None, None, None, rule='C08-S', patch='benign/B1-04/patch.diff', edits=[
  ('hl7apy/parser.py', "    if parent is None:\n        top_level.append(element)\n    else:\n        parent.add(element)\n",
   "    if parent is None:\n        top_level.append(element)\n")])
V('c11-helper-creates-real', 'C11', None, None, None, rule='C11-L1', patch='benign/B2-01/patch.diff', edits=[
  ('hl7apy/core.py', "            return proxy.element_list.create_element(proxy.element_name, traversal_parent=True)",
   "            return proxy.element_list.create_element(proxy.element_name)")])
V('c07-helper-other-value', 'C07', None, None, None, rule='C07-K', patch='benign/B4-05/patch.diff', edits=[
  ('hl7apy/core.py', "encoding_chars['FIELD'])", "encoding_chars['COMPONENT'])")])

# ---------------------------------------------------------------- rules added after the third round of seeded changes
from . import variants_r3  # noqa: E402,F401
from . import variants_r5  # noqa: E402,F401
