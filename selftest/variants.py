"""Self-test variants: one realistic edit each (see harness.py)."""
VARIANTS = []


def V(id, prop, file, old, new, expect='violation', rule=None, **kw):
    d = dict(id=id, prop=prop, file=file, old=old, new=new, expect=expect, rule=rule)
    d.update(kw)
    VARIANTS.append(d)


# ---------------------------------------------------------------- C19
V('c19-drop-copy', 'C19', 'hl7apy/factories.py', 'factories = base_datatypes.copy()', 'factories = base_datatypes',
  rule='C19-W')
V('c19-alias-reference', 'C19', 'hl7apy/core.py', 'new_ref = [ref_item for ref_item in self.reference]',
  'new_ref = self.reference', rule='C19-W')
V('c19-module-cache', 'C19', 'hl7apy/__init__.py',
  "    lib = load_library(version)\n    ref = lib.get(name, element_type)\n    return ref",
  "    lib = load_library(version)\n    ref = lib.get(name, element_type)\n    SUPPORTED_LIBRARIES[name] = ref\n    return ref",
  rule='C19-W')
V('c19-class-cache', 'C19', 'hl7apy/core.py',
  "        self.children.append(obj)\n\n    def is_named",
  "        self.children.append(obj)\n        Element.cls_attrs.append(obj.name)\n\n    def is_named", rule='C19-W')
V('c19-default-from-parser', 'C19', 'hl7apy/parser.py',
  "def _get_version(version):\n    if version is None:",
  "def _get_version(version):\n    global _LAST\n    _LAST = version\n    if version is None:", rule='C19-W')
V('c19-mutate-defaults-dict', 'C19', 'hl7apy/core.py',
  "        if encoding_chars is None:\n            encoding_chars = get_default_encoding_chars(version)\n        # TODO",
  "        if encoding_chars is None:\n            encoding_chars = get_default_encoding_chars(version)\n            encoding_chars['GROUP'] = '\\r'\n        # TODO",
  rule='C19-W')
V('c19-mutable-default-arg', 'C19', 'hl7apy/core.py',
  "    def parse_child(self, text, **kwargs):\n        if self.child_parser:\n            kwargs['version'] = self.version",
  "    def parse_child(self, text, kwargs={}):\n        if self.child_parser:\n            kwargs['version'] = self.version",
  rule='C19-D')
V('c19-table-fixup-at-runtime', 'C19', 'hl7apy/v2_5/__init__.py',
  "    try:\n        return ELEMENTS[element_type][name]\n",
  "    try:\n        ELEMENTS[element_type].setdefault(name + '_', None)\n        return ELEMENTS[element_type][name]\n",
  rule='C19-W')
V('c19-twin-local-copy', 'C19', 'hl7apy/factories.py', 'factories = base_datatypes.copy()',
  'factories = dict(base_datatypes)', expect='clean')
V('c19-twin-rename', 'C19', 'hl7apy/core.py', 'new_ref = [ref_item for ref_item in self.reference]',
  'new_ref = list(self.reference)', expect='clean')
