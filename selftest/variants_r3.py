"""Variants for the rules added after the third round of seeded changes (imported by variants.py)."""
from .variants import V  # noqa

# ---------------------------------------------------------------- C01-R / C03-R: repetitions are positional
V('c01-r-skip-empty-repetition', 'C01', 'hl7apy/parser.py',
  "                for rep in field.split(repetition_sep):\n                    fields.append(",
  "                for rep in field.split(repetition_sep):\n                    if not rep:\n                        continue\n                    fields.append(",
  rule='C01-R')
V('c03-r-filter-repetitions', 'C03', 'hl7apy/parser.py',
  "                for rep in field.split(repetition_sep):",
  "                for rep in [r for r in field.split(repetition_sep) if r.strip()]:", rule='C03-R')
V('twin-c01-r-named-pieces', 'C01', 'hl7apy/parser.py',
  "                for rep in field.split(repetition_sep):",
  "                pieces = field.split(repetition_sep)\n                for rep in pieces:", expect='clean')
V('twin-c03-r-named-pieces', 'C03', 'hl7apy/parser.py',
  "                for rep in field.split(repetition_sep):",
  "                pieces = field.split(repetition_sep)\n                for rep in pieces:", expect='clean')

# ---------------------------------------------------------------- C06-V: leaf classes come from the requested version's library
V('c06-v-fallback-generic-st', 'C06', 'hl7apy/factories.py',
  "        return factories['ST'](value, validation_level=validation_level)",
  "        from hl7apy.base_datatypes import ST\n        return ST(value, validation_level=validation_level)", rule='C06-V')
V('twin-c06-v-fallback-from-library', 'C06', 'hl7apy/factories.py',
  "        return factories['ST'](value, validation_level=validation_level)",
  "        return base_datatypes['ST'](value, validation_level=validation_level)", expect='clean')

# ---------------------------------------------------------------- C08-T / T8: a version package uses its own tables
V('c08-t-foreign-segments', 'C08', 'hl7apy/v2_4/groups.py', "from .segments import SEGMENTS",
  "from hl7apy.v2_3_1.segments import SEGMENTS", rule='C08-T')
V('c02-t8-foreign-fields', 'C02', 'hl7apy/v2_6/segments.py', "from .fields import FIELDS",
  "from hl7apy.v2_5_1.fields import FIELDS", rule='T8')
V('twin-c08-t-absolute-own-package', 'C08', 'hl7apy/v2_4/groups.py', "from .segments import SEGMENTS",
  "from hl7apy.v2_4.segments import SEGMENTS", expect='clean')

# ---------------------------------------------------------------- C10-P: who writes the parent pointers, and under which guard
V('c10-p-remove-clears-parent', 'C10', 'hl7apy/core.py',
  "                self._remove_from_index(child)\n                self.list.remove(child)\n        except:",
  "                self._remove_from_index(child)\n                self.list.remove(child)\n                child.parent = None\n        except:",
  rule='C10-P')
V('c10-p-proxy-writes-traversal-parent', 'C10', 'hl7apy/core.py',
  "            setattr(element, name, value)\n            if name == 'value':",
  "            setattr(element, name, value)\n            element.traversal_parent = None\n            if name == 'value':",
  rule='C10-P')

# ---------------------------------------------------------------- C11-L9: lazy creation only after both look-ups failed
V('c11-l9-setattr-ignores-shadow', 'C11', 'hl7apy/core.py',
  "            except IndexError:  # first child not found, create the element\n                try:\n                    element = self.traversal_list[0]\n                except IndexError:\n                    element = self.element_list.create_element(self.element_name, traversal_parent=True)\n            setattr(",
  "            except IndexError:  # first child not found, create the element\n                element = self.element_list.create_element(self.element_name, traversal_parent=True)\n            setattr(",
  rule='C11-L9')
V('c11-l9-getattr-ignores-shadow', 'C11', 'hl7apy/core.py',
  "        except IndexError:  # first child not found, create the element\n            try:\n                element = self.traversal_list[0]\n            except IndexError:\n                element = self.element_list.create_element(self.element_name, traversal_parent=True)\n        return getattr(",
  "        except IndexError:  # first child not found, create the element\n            element = self.element_list.create_element(self.element_name, traversal_parent=True)\n        return getattr(",
  rule='C11-L9')
V('twin-c11-l9-len-tests', 'C11', 'hl7apy/core.py',
  "            try:\n                element = self.list[0]\n            except IndexError:  # first child not found, create the element\n                try:\n                    element = self.traversal_list[0]\n                except IndexError:\n                    element = self.element_list.create_element(self.element_name, traversal_parent=True)\n            setattr(",
  "            if self.list:\n                element = self.list[0]\n            elif self.traversal_list:\n                element = self.traversal_list[0]\n            else:\n                element = self.element_list.create_element(self.element_name, traversal_parent=True)\n            setattr(",
  expect='clean')

# ---------------------------------------------------------------- C15-R: a match object is dereferenced only under a None test
V('c15-r-offset-unchecked', 'C15', 'hl7apy/utils.py',
  "    if offset:\n        offset = offset.groups()[0]\n        return value.replace(offset, ''), offset\n    return value, ''",
  "    offset = offset.groups()[0]\n    return value.replace(offset, ''), offset", rule='C15-R')
V('c15-r-mllp-unchecked', 'C15', 'hl7apy/mllp.py',
  "        if matched is not None:\n            message = matched.groups()[0]\n        return message",
  "        message = matched.groups()[0]\n        return message", rule='C15-R')
V('twin-c15-r-truthiness', 'C15', 'hl7apy/mllp.py',
  "        if matched is not None:\n            message = matched.groups()[0]",
  "        if matched:\n            message = matched.group(1)", expect='clean')
V('twin-c15-r-early-return', 'C15', 'hl7apy/utils.py',
  "    if offset:\n        offset = offset.groups()[0]\n        return value.replace(offset, ''), offset\n    return value, ''",
  "    if offset is None:\n        return value, ''\n    offset = offset.groups()[0]\n    return value.replace(offset, ''), offset",
  expect='clean')

# ---------------------------------------------------------------- C13-P: the fractional format needs the dot at index 6
V('c13-p-dot-anywhere', 'C13', 'hl7apy/utils.py',
  "    elif 8 <= len(value) <= 11 and value[6] == '.':", "    elif 8 <= len(value) <= 11 and '.' in value:", rule='C13-P')
V('c13-p-dot-by-find', 'C13', 'hl7apy/utils.py',
  "    elif 8 <= len(value) <= 11 and value[6] == '.':", "    elif 8 <= len(value) <= 11 and value.find('.') > 0:", rule='C13-P')
V('twin-c13-p-swapped-conjuncts', 'C13', 'hl7apy/utils.py',
  "    elif 8 <= len(value) <= 11 and value[6] == '.':", "    elif len(value) >= 8 and len(value) <= 11 and '.' == value[6]:",
  expect='clean')

# ---------------------------------------------------------------- C12: two refusals of one class are two findings
_STRICT_REFUSAL = """        if Validator.is_strict(self.validation_level) and self.datatype and \\
                datatype != self.datatype:
            raise OperationNotAllowed("Cannot change datatype using STRICT validation")
"""
V('c12-o-strict-refusal-after-change', 'C12', None, None, None, rule='C12-O', edits=[
  ('hl7apy/core.py', _STRICT_REFUSAL + "\n        # This will change", "        # This will change"),
  ('hl7apy/core.py', "            else:\n                raise OperationNotAllowed(\"Cannot change datatype: the Element already contains children\")\n        else:\n            self._datatype = datatype\n",
   "            else:\n                raise OperationNotAllowed(\"Cannot change datatype: the Element already contains children\")\n        else:\n            self._datatype = datatype\n" + _STRICT_REFUSAL)])

# ---------------------------------------------------------------- C15-Z: a name is measured in the form in which it is compared (fixed by 561bb6c)
V('c15-z-regression-raw-length', 'C15', 'hl7apy/core.py',
  "    name = name.upper()  # the name is stored upper-cased, and upper-casing can change the length (e.g. 'ß')\n    return name.startswith('Z') and len(name) == 3",
  "    return name.upper().startswith('Z') and len(name) == 3", rule='C15-Z')
V('c15-z-raw-slice', 'C15', 'hl7apy/core.py',
  "    name = name.upper()  # the name is stored upper-cased, and upper-casing can change the length (e.g. 'ß')\n    return name.startswith('Z') and len(name) == 3",
  "    return name.upper().startswith('Z') and name[3:] == '' and name[2:] != ''", rule='C15-Z')
V('twin-c15-z-other-local', 'C15', 'hl7apy/core.py',
  "    name = name.upper()  # the name is stored upper-cased, and upper-casing can change the length (e.g. 'ß')\n    return name.startswith('Z') and len(name) == 3",
  "    upper = name.upper()\n    return upper.startswith('Z') and len(upper) == 3", expect='clean')

# ---------------------------------------------------------------- C05-Z: the Z-name predicates agree (fixed by 1d36fa8)
V('c05-z-regression-no-zero', 'C05', 'hl7apy/core.py', "regex = r'^z[a-z0-9]{2}_\\d+$'", "regex = r'^z[a-z1-9]{2}_\\d+$'", rule='C05-Z')
V('c05-z-message-letters-only', 'C05', 'hl7apy/core.py', "regex = r'^z[a-z0-9]{2}_z[a-z0-9]{2}$'", "regex = r'^z[a-z]{2}_z[a-z0-9]{2}$'",
  rule='C05-Z')
V('c05-z-field-case-sensitive', 'C05', 'hl7apy/core.py',
  "    regex = r'^z[a-z0-9]{2}_\\d+$'\n    return re.match(regex, name, re.IGNORECASE) is not None",
  "    regex = r'^z[a-z0-9]{2}_\\d+$'\n    return re.match(regex, name.lower()) is not None", expect='clean')
V('twin-c05-z-class-spelling', 'C05', 'hl7apy/core.py', "regex = r'^z[a-z0-9]{2}_\\d+$'", "regex = r'^z[0-9a-z]{2}_[0-9]+$'", expect='clean')
V('twin-c05-z-inline-pattern', 'C05', 'hl7apy/core.py',
  "    regex = r'^z[a-z0-9]{2}_\\d+$'\n    return re.match(regex, name, re.IGNORECASE) is not None",
  "    return re.match(r'^z[a-z\\d]{2}_\\d+$', name, flags=re.IGNORECASE) is not None", expect='clean')

# ---------------------------------------------------------------- rules re-checked on top of refactored forms (T round)
V('c11-l2-computed-key-swapped', 'C11', None, None, None, rule='C11-L2', patch='benign/T1-04/patch.diff', edits=[
  ('hl7apy/core.py', "parent_kwarg = 'traversal_parent' if traversal_parent else 'parent'",
   "parent_kwarg = 'parent' if traversal_parent else 'traversal_parent'")])
V('c13-p-direct-return-wrong-precision', 'C13', None, None, None, rule='C13-P', patch='benign/T2-01/patch.diff', edits=[
  ('hl7apy/utils.py', "return '%H%M%S.%f', len(value) - 7", "return '%H%M%S.%f', len(value) - 6")])
V('c01-k-helper-off-by-one', 'C01', None, None, None, patch='benign/T3-05/patch.diff', edits=[
  ('hl7apy/parser.py', "return \"{0}_{1}\".format(field_datatype, index + 1), None", "return \"{0}_{1}\".format(field_datatype, index), None")])
V('c13-o-helper-bound', 'C13', None, None, None, rule='C13-O', patch='benign/T2-05/patch.diff', edits=[
  ('hl7apy/base_datatypes.py', "offset[0] == '-' and d.hour > 12", "offset[0] == '-' and d.hour > 11")])
V('c16-r-server-wrong-class', 'C16', None, None, None, rule='C16-R', patch='benign/T3-06/patch.diff', edits=[
  ('hl7apy/mllp.py', "RequestHandlerClass=request_handler_class", "RequestHandlerClass=MLLPRequestHandler")])

# ---------------------------------------------------------------- C14-I: int() is not a validator of a positional index (fixed by 8c8bd36)
_CANON = "        if str(position) != index or position < 1:\n            return False\n"
V('c14-i-regression-any-spelling', 'C14', None, None, None, rule='C14-I', edits=[
  ('hl7apy/core.py', "        position = int(index)\n", "        int(index)\n"),
  ('hl7apy/core.py', "        # only the canonical spelling names a position: children are looked up as <parent>_<position>\n" + _CANON, "")])
V('c14-i-lower-bound-only', 'C14', 'hl7apy/core.py', _CANON, "        if position < 1:\n            return False\n", rule='C14-I')
V('twin-c14-i-isdigit', 'C14', 'hl7apy/core.py', _CANON,
  "        if not index.isdigit() or index.startswith('0'):\n            return False\n", expect='clean')

# ---------------------------------------------------------------- fourth round of seeded changes (Cxx-d)
V('c14-s-longname-map-left-out', 'C14', 'hl7apy/core.py',
  "            for k, v in iteritems(structure):\n                if k != 'datatype':  # avoid maximum recursion\n                    setattr(self, k, v)",
  "            for k in ('reference', 'structure_by_name', 'ordered_children', 'repetitions'):\n                if k in structure:\n                    setattr(self, k, structure[k])",
  rule='C14-S')
V('c14-s-exclude-longname', 'C14', 'hl7apy/core.py',
  "                if k != 'datatype':  # avoid maximum recursion", "                if k not in ('datatype', 'structure_by_longname'):", rule='C14-S')
V('twin-c14-s-exclude-more-nonlayout', 'C14', 'hl7apy/core.py',
  "                if k != 'datatype':  # avoid maximum recursion", "                if k not in ('datatype',):", expect='clean')
V('c08-p-path-cache', 'C08', 'hl7apy/parser.py',
  "def _get_segment_reference(segment_name, parents_ref):\n    ref = None",
  "_SEEN = {}\n\n\ndef _get_segment_reference(segment_name, parents_ref):\n    _SEEN[segment_name] = parents_ref[-1][0]\n    ref = None", rule='C08-P')
V('c10-v-alias-proxy-element', 'C10', 'hl7apy/core.py',
  "            value = value[0].to_er7()", "            value = value[0] if value[0].version == self.element.version else value[0].to_er7()",
  rule='C10-V')
V('twin-c10-v-named-first', 'C10', 'hl7apy/core.py',
  "            value = value[0].to_er7()", "            value = value[0].to_er7(trailing_children=False)", expect='clean')
V('c18-n-default-separator', 'C18', 'hl7apy/core.py',
  "            if text[:3] != child_name:\n                reference = None",
  "            if text.split(get_default_encoding_chars()['FIELD'], 1)[0] != child_name:\n                reference = None", rule='C18-N')
V('c03-z-first-digits', 'C03', 'hl7apy/core.py', "            field_index = int(obj.name[4:])", "            field_index = int(obj.name[2:3] or 0)",
  rule='C03-Z')
V('c11-l10-early-return-after-replace', 'C11', 'hl7apy/core.py',
  "        else:\n            self.replace_child(child_to_remove, child)\n\n        # a set has been called",
  "        else:\n            self.replace_child(child_to_remove, child)\n            return\n\n        # a set has been called", rule='C11-L10')
V('twin-c11-l10-on-refactored-set', 'C11', None, None, None, expect='clean', patch='benign/U1-04/patch.diff', edits=[])
V('c11-l10-on-refactored-set', 'C11', None, None, None, rule='C11-L10', patch='benign/U1-04/patch.diff', edits=[
  ('hl7apy/core.py', "        self.element.set_parent_to_traversal()\n", "        pass\n")])
V('c02-m-second-header-segment', 'C02', 'hl7apy/parser.py', "    text = text[4:] if segment_name != 'MSH' else text[3:]",
  "    text = text[4:] if segment_name not in ('MSH', 'BHS', 'FHS') else text[3:]", rule='C02-M')

# ---------------------------------------------------------------- C11-L4b: add overrides change the owner for real children only
V('c11-l4b-regression-mark-moves-on-read', 'C11', 'hl7apy/core.py',
  "        if obj.name and self.allow_infinite_children and obj.traversal_parent is None:",
  "        if obj.name and self.allow_infinite_children:", rule='C11-L4b')
V('twin-c11-l4b-early-return', 'C11', 'hl7apy/core.py',
  "        if obj.name and self.allow_infinite_children and obj.traversal_parent is None:",
  "        if obj.traversal_parent is not None:\n            return\n        if obj.name and self.allow_infinite_children:", expect='clean')
