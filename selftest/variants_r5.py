"""Variants for the rules added after the fifth round of seeded changes (imported by variants.py)."""
from .variants import V  # noqa

# ---------------------------------------------------------------- C09-N: the by-name forms address the same repetition
V('c09-n-delattr-last', 'C09', 'hl7apy/core.py', "    def remove_by_name(self, name, index=0):",
  "    def remove_by_name(self, name, index=-1):", rule='C09-N')
V('c09-n-setattr-default-index', 'C09', 'hl7apy/core.py', "            self.children.set(name, value, 0)",
  "            self.children.set(name, value)", rule='C09-N')
V('c09-n-setitem-drops-position', 'C09', 'hl7apy/core.py',
  "        self.set(child.name, value, self.indexes[child.name].index(child))", "        self.set(child.name, value)", rule='C09-N')
V('c09-n-proxy-delattr-last', 'C09', 'hl7apy/core.py', "        delattr(self.list[0], name)", "        delattr(self.list[-1], name)",
  rule='C09-N')
V('twin-c09-n-keyword-index', 'C09', 'hl7apy/core.py', "            self.children.set(name, value, 0)",
  "            self.children.set(name, value, index=0)", expect='clean')
V('twin-c09-n-explicit-delete-index', 'C09', 'hl7apy/core.py', "            self.children.remove_by_name(name)",
  "            self.children.remove_by_name(name, 0)", expect='clean')

# ---------------------------------------------------------------- C10-Y: the proxy is a live view
V('c10-y-cached-list', 'C10', 'hl7apy/core.py',
  "        return self.element_list.indexes.get(self.element_name, [])",
  "        try:\n            return self._cached\n        except AttributeError:\n            pass\n"
  "        found = self.element_list.indexes.get(self.element_name)\n        if found is None:\n            return []\n"
  "        object.__setattr__(self, '_cached', found)\n        return self._cached", rule='C10-Y')
V('twin-c10-y-local', 'C10', 'hl7apy/core.py',
  "        return self.element_list.indexes.get(self.element_name, [])",
  "        found = self.element_list.indexes.get(self.element_name, [])\n        return found", expect='clean')

# ---------------------------------------------------------------- C14-X: proxies are filed under canonical names
V('c14-x-alias-under-spelling', 'C14', 'hl7apy/core.py',
  "                    self.proxies[child_name] = ElementProxy(self, child_name)\n                    return self.proxies[child_name]",
  "                    self.proxies[child_name] = ElementProxy(self, child_name)\n                    self.proxies[name] = self.proxies[child_name]\n                    return self.proxies[child_name]",
  rule='C14-X')

# ---------------------------------------------------------------- C15-L: datatype look-ups of the validator under a not-None test
V('c15-l-none-test-dropped', 'C15', 'hl7apy/validation.py',
  "                if not is_base_datatype(el.datatype, el.version) and el.datatype is not None:",
  "                if not is_base_datatype(el.datatype, el.version):", rule='C15-L')
V('twin-c15-l-reordered', 'C15', 'hl7apy/validation.py',
  "                if not is_base_datatype(el.datatype, el.version) and el.datatype is not None:",
  "                if el.datatype is not None and not is_base_datatype(el.datatype, el.version):", expect='clean')

# ---------------------------------------------------------------- Cxx-M: memo keys cover the inputs of the value
_MEMO_OLD = "        translations = self._get_translations(encoding_chars)\n"
_MEMO_BAD = ("        _k = (self.__class__, encoding_chars['COMPONENT'], encoding_chars['SUBCOMPONENT'], encoding_chars['REPETITION'],\n"
             "              encoding_chars['ESCAPE'], encoding_chars.get('TRUNCATION'))\n"
             "        if _k not in _TRANSLATIONS:\n            _TRANSLATIONS[_k] = self._get_translations(encoding_chars)\n"
             "        translations = _TRANSLATIONS[_k]\n")
_MEMO_GOOD = _MEMO_BAD.replace("(self.__class__, ", "(self.__class__, encoding_chars['FIELD'], ")
for _pid in ('C01', 'C19'):
    V('%s-m-key-without-field-separator' % _pid.lower(), _pid, None, None, None, rule='%s-M' % _pid,
      edits=[('hl7apy/base_datatypes.py', _MEMO_OLD, _MEMO_BAD),
             ('hl7apy/base_datatypes.py', "import re\n", "import re\n\n_TRANSLATIONS = {}\n")])
V('twin-c01-m-complete-key', 'C01', None, None, None, expect='clean',
  edits=[('hl7apy/base_datatypes.py', _MEMO_OLD, _MEMO_GOOD),
         ('hl7apy/base_datatypes.py', "import re\n", "import re\n\n_TRANSLATIONS = {}\n")])
