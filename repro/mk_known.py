"""Maintenance tool (run by hand, never by a check): merges confirmed entries
produced by repro/confirm_*.py into known_findings.json."""
import json, sys, os
path = os.path.join(os.path.dirname(os.path.dirname(os.path.abspath(__file__))), 'known_findings.json')
try:
    cur = json.load(open(path))
except IOError:
    cur = {'comment': 'Genuine defects of crs4/hl7apy found by the checks and recorded rather than repaired. '
                      'Read-only at run time. status open = suppresses exactly the finding with this key; '
                      'status fixed = repaired by the named fix: commit, suppresses nothing.', 'findings': []}
have = {(f['property'], f['key']) for f in cur['findings']}
also = [a for a in sys.argv[2:]]
for e in json.load(open(sys.argv[1])):
    if e['status'] != 'open' or (e['property'], e['key']) in have:
        continue
    ent = {'property': e['property'], 'key': e['key'], 'status': 'open',
           'what': '%s %s: %s' % (e['rule'], e['construct'], e['what']), 'repro': e['repro']}
    if also and e['rule'] in ('T2',):
        ent['also'] = also
    cur['findings'].append(ent)
json.dump(cur, open(path, 'w'), indent=1)
print(len(cur['findings']), 'entries')
