"""Triage helper (NOT part of any check): re-runs the reproductions quoted in known_findings.json for the
code-level findings against the real hl7apy.  usage: /venv/bin/python repro/confirm_misc.py [name ...]"""
import sys
import hl7apy
from hl7apy import set_default_validation_level, set_default_encoding_chars, set_default_version
from hl7apy.consts import VALIDATION_LEVEL as VL
from hl7apy.core import *
from hl7apy.parser import *
from hl7apy.factories import datatype_factory
from hl7apy.exceptions import *
from hl7apy.base_datatypes import ST, NM, SI

CASES = {}


def case(f):
    CASES[f.__name__] = f
    return f


def raises(exc, f, *a, **k):
    try:
        f(*a, **k)
    except exc:
        return True
    except Exception as e:
        return 'other:%s' % type(e).__name__
    return False


@case
def c17_factory_fallback():
    set_default_validation_level(VL.STRICT)
    try:
        return raises(MaxLengthReached, datatype_factory, 'NM', 'x' * 300, '2.5', VL.TOLERANT)
    finally:
        set_default_validation_level(VL.TOLERANT)


@case
def c17_add_subcomponent_version():
    c = Component(datatype='CM', version='2.1', validation_level=VL.TOLERANT)
    # CM is a base datatype in 2.1 only: with the default version (2.5) the guard is skipped
    r1 = raises(ChildNotValid, c.add_subcomponent, 'CM_1')
    set_default_version('2.1')
    try:
        c = Component(datatype='CM', version='2.1', validation_level=VL.TOLERANT)
        r2 = raises(ChildNotValid, c.add_subcomponent, 'CM_1')
    finally:
        set_default_version('2.5')
    return (r1, r2), r1 != r2


@case
def c17_lazy_encoding_chars():
    s = parse_segment('PID|1||A^B')
    before = s.to_er7()
    old = dict(hl7apy.get_default_encoding_chars())
    set_default_encoding_chars({'FIELD': '!', 'COMPONENT': '@', 'SUBCOMPONENT': '%', 'REPETITION': '*', 'ESCAPE': '$'})
    try:
        after = s.to_er7()
    finally:
        set_default_encoding_chars(old)
    return (before, after), before != after


@case
def c17_raw_level_component():
    set_default_validation_level(VL.STRICT)
    try:
        a = raises(OperationNotAllowed, Component, datatype='CX')
        b = raises(OperationNotAllowed, Component, datatype='CX', validation_level=VL.STRICT)
        return (a, b), a != b
    finally:
        set_default_validation_level(VL.TOLERANT)


@case
def c17_raw_level_field_unknown():
    set_default_validation_level(VL.STRICT)
    try:
        a = raises(OperationNotAllowed, Field)
        b = raises(OperationNotAllowed, Field, validation_level=VL.STRICT)
        return (a, b), a != b
    finally:
        set_default_validation_level(VL.TOLERANT)


@case
def c17_raw_level_field_override():
    set_default_validation_level(VL.STRICT)
    try:
        a = raises(OperationNotAllowed, Field, 'PID_5', datatype='ST')
        b = raises(OperationNotAllowed, Field, 'PID_5', datatype='ST', validation_level=VL.STRICT)
        return (a, b), a != b
    finally:
        set_default_validation_level(VL.TOLERANT)


@case
def c17_raw_level_canbevaries():
    set_default_validation_level(VL.STRICT)
    try:
        a = raises(Exception, Component, 'CX_10', datatype='CWE')
        b = raises(Exception, Component, 'CX_10', datatype='CWE', validation_level=VL.STRICT)
        # under default-STRICT the not-strict branch of CanBeVaries.__init__ (reference rebuilt for the override) runs
        return (a, b), True
    finally:
        set_default_validation_level(VL.TOLERANT)


import os
PROFILES = '/repo/tests/profiles'
QBP = ('MSH|^~\\&|SENDING APP|SENDING FAC|REC APP|REC FAC|20110708162817||QBP^Q22^QBP_Q21|1|P|2.5|||||ITA||EN\r'
       'QPD|IHE PDQ Query|111069|@PID.5.1.1^SMITH~@PID.5.2^JOHN~@PID.8^A|||||^^^ADT1&1.2.3&ISO\r'
       'RCP|I|')


@case
def c18_find_groups_false_drops_profile():
    mp = hl7apy.load_message_profile(os.path.join(PROFILES, 'iti_21'))
    txt = ('MSH|^~\\&|SENDING APP|SENDING FAC|REC APP|REC FAC|20110708162817||RSP^K22^RSP_K21|1|P|2.5|||||ITA||EN\r'
           'MSA|AA|26775702551812240|\rQAK|1|OK||1|1|0\r'
           'QPD|IHE PDQ Query|111069|@PID.5.1.1^SMITH~@PID.5.2^JOHN|||||^^^ADT1&1.2.3&ISO\r')
    a = parse_message(txt, message_profile=mp, find_groups=True)
    b = parse_message(txt, message_profile=mp, find_groups=False)
    da = a.qpd.qpd_3.datatype
    db = b.qpd.qpd_3.datatype
    return (da, db), da != db


@case
def c18_legacy_profile_via_parse_message():
    name = 'old_pharm_h4_win' if os.name == 'nt' else 'old_pharm_h4'
    mp = hl7apy.load_message_profile(os.path.join(PROFILES, name))
    a = raises(LegacyMessageProfile, Message, 'RAS_O17', reference=mp)
    txt = 'MSH|^~\\&|A|B|C|D|20110708162817||RAS^O17^RAS_O17|1|P|2.5\rPID|1\r'
    b = raises(LegacyMessageProfile, parse_message, txt, message_profile=mp)
    return (a, b), a is True and b is not True


@case
def c10_reparenting_keeps_old_parent():
    s1 = Segment('PID'); s2 = Segment('PID')
    f = Field('PID_1'); f.value = '1'
    s1.add(f)
    s2.add(f)
    return (f in s1.children, f in s2.children, f.parent is s2), (f in s1.children) and (f in s2.children)


@case
def c09_assignment_moves_repetition():
    s = parse_segment('PID|||A~B~C')
    s.pid_3 = 'X'
    a = s.to_er7()
    s = parse_segment('PID|||A~B~C')
    s.pid_3[1] = 'X'
    b = s.to_er7()
    return (a, b), a != 'PID|||X~B~C' and b != 'PID|||A~X~C'


@case
def c09_setitem_by_position():
    s = parse_segment('PID|1||A~B|C')
    before = s.to_er7()
    s.children[3] = 'PID|||Z'[4:] if False else 'Z'
    return (before, s.to_er7()), True


def _snap(e):
    try:
        enc = e.to_er7()
    except Exception as x:
        enc = 'EXC %s' % type(x).__name__
    return enc, [c.name for c in e.children]


def _attempt(target, f):
    b = _snap(target)
    try:
        f()
        r = 'no exception'
    except Exception as x:
        r = type(x).__name__
    a = _snap(target)
    return r, b, a, (r != 'no exception' and a != b)


@case
def c12_replace_child():
    s = parse_segment('PID|1||A')
    f = Field('PID_1', validation_level=VL.STRICT)
    f.value = '2'
    r = _attempt(s, lambda: setattr(s, 'pid_1', f))
    return r[:3], r[3]


@case
def c12_half_attached_child():
    s = Segment('PID')
    f = Field('PID_1', validation_level=VL.STRICT)
    r = _attempt(s, lambda: s.add(f))
    return (r[0], 'child.parent is the refusing segment: %s' % (f.parent is s)), r[0] != 'no exception' and f.parent is s


@case
def c12_half_attached_traversal_child():
    s = Segment('PID')
    box = {}

    def mk():
        try:
            Field('PID_1', validation_level=VL.STRICT, traversal_parent=s)
        except Exception as e:
            box['e'] = type(e).__name__
            raise
    r = _attempt(s, mk)
    return r[:3], False     # the refused object is unreachable afterwards: nothing observable


@case
def c12_set_rejected_datatype_object():
    s = Segment('PID', validation_level=VL.STRICT)
    r = _attempt(s, lambda: setattr(s, 'pid_1', ST('x')))
    return r[:3], r[3]


@case
def c12_datatype_change_populated():
    f = Field('PID_3')
    f.value = '1^2^3'
    r = _attempt(f, lambda: setattr(f, 'datatype', 'CE'))
    return r[:3], r[3]


@case
def c12_children_setter():
    s = parse_segment('PID|1||A')
    r = _attempt(s, lambda: setattr(s, 'children', [Field('PID_5'), Field('OBX_1')]))
    return r[:3], r[3]


@case
def c12_ctor_field_with_parent():
    seg = Segment('PID', validation_level=VL.STRICT)
    r = _attempt(seg, lambda: Field('PID_5', datatype='ST', parent=seg, validation_level=VL.STRICT))
    return r[:3], r[3]


@case
def c12_ctor_subcomponent_with_parent():
    c = Component('CX_4', validation_level=VL.STRICT)
    r = _attempt(c, lambda: SubComponent('HD_1', parent=c, validation_level=VL.STRICT, value='x' * 400))
    return r[:3], r[3]


@case
def c12_ctor_component_override_with_parent():
    f = Field('PID_3', validation_level=VL.STRICT)
    r = _attempt(f, lambda: Component('CX_10', datatype='CE', parent=f, validation_level=VL.STRICT))
    return r[:3], r[3]


@case
def c12_ctor_component_unknown_with_parent():
    f = Field(datatype='varies', validation_level=VL.STRICT)
    r = _attempt(f, lambda: Component(datatype='CX', parent=f, validation_level=VL.STRICT))
    return r[:3], r[3]


@case
def c03_segment_dropped_by_group_search():
    txt = ('MSH|^~\\&|A|B|C|D|20110708162817||ADT^A01^ADT_A01|1|P|2.5\rEVN||20110708\rPID|1||X\rZZZ|1|2\rPV1|1|I\r')
    a = parse_message(txt, find_groups=True).to_er7()
    b = parse_message(txt, find_groups=False).to_er7()
    return ('ZZZ' in a, 'ZZZ' in b), ('ZZZ' not in a) and ('ZZZ' in b)


@case
def c03_unlisted_segment_dropped():
    txt = ('MSH|^~\\&|A|B|C|D|20110708162817||ADT^A01^ADT_A01|1|P|2.5\rEVN||20110708\rPID|1||X\rSPM|1\rPV1|1|I\r')
    a = parse_message(txt, find_groups=True).to_er7()
    return ('SPM' in a,), 'SPM' not in a


@case
def c05_group_order_depends_on_level():
    out = []
    for lvl in (VL.STRICT, VL.TOLERANT):
        m = Message('ADT_A01', validation_level=lvl)
        m.add_segment('PID')
        m.add_segment('EVN')
        out.append([c.name for c in m.children] and m.to_er7().replace('\r', ' ').split(' ')[1][:3])
    return out, out[0] != out[1]


@case
def c15_short_header_five_seps():
    txt = 'MSH|^~\\&#|A|B\r'
    a = raises(HL7apyException, get_message_type, txt)
    b = raises(HL7apyException, parse_message, txt)
    return (a, b), a == 'other:IndexError' and b == 'other:IndexError'


@case
def c15_validate_unknown_structure():
    m = parse_message('MSH|^~\\&|A|B|C|D|20110708||XXX^Y01^XXX_Y01|1|P|2.5\rPID|1\r')
    a = raises(HL7apyException, m.validate, return_errors=True)
    return (a,), a == 'other:AttributeError'


@case
def c07_truncation_duplicate_accepted():
    ec = {'FIELD': '|', 'COMPONENT': '^', 'SUBCOMPONENT': '&', 'REPETITION': '~', 'ESCAPE': '\\', 'TRUNCATION': '^',
          'SEGMENT': '\r', 'GROUP': '\r'}
    m = Message('ADT_A01', version='2.7', encoding_chars=ec)
    txt = m.to_er7()
    r = raises(InvalidEncodingChars, parse_message, txt)
    return (txt[:12], r), r is True


def _dangling(out, letters):
    i = 0
    while i < len(out):
        if out[i] == '\\':
            if i + 2 < len(out) and out[i + 1] in letters and out[i + 2] == '\\':
                i += 3
                continue
            return True
        i += 1
    return False


@case
def c06_overlapping_escape_sequences():
    from hl7apy.base_datatypes import ST as ST25
    from hl7apy.v2_7.base_datatypes import ST as ST27
    from hl7apy import get_default_encoding_chars
    res = []
    okall = True
    for cls, ver, letters in ((ST25, '2.5', 'HNFSTRE'), (ST27, '2.7', 'HNFSTREL')):
        ec = get_default_encoding_chars(ver)
        for txt in ('\\E^', '^E\\', '\\E\\E\\'):
            out = cls(txt).to_er7(ec)
            bad = _dangling(out, letters)
            res.append((ver, txt, out, bad))
            okall = okall and bad
    return res, okall


@case
def c06_wd_truncation_unescaped_v27():
    import importlib
    from hl7apy import get_default_encoding_chars
    res = []
    for ver in ('2.7', '2.8', '2.8.1', '2.8.2'):
        lib = importlib.import_module('hl7apy.v' + ver.replace('.', '_'))
        WD = lib.get_base_datatypes()['WD']
        ST = lib.get_base_datatypes()['ST']
        ec = get_default_encoding_chars(ver)
        res.append((ver, WD('a#b').to_er7(ec), ST('a#b').to_er7(ec)))
    return res, all(w == 'a#b' and s_ != 'a#b' for _, w, s_ in res)


@case
def c15_validate_typeerror_z_subcomponent():
    txt = 'MSH|^~\\&|A||||20080115153000||ADT^A01^ADT_A01|1|P|2.5\rEVN||20080115\rPID|1||123^^^X||DOE^JOHN\rPV1||I\rZZZ|a|b^c&'
    m = parse_message(txt, validation_level=VL.TOLERANT)
    r = raises(HL7apyException, m.validate, return_errors=True)
    return (r,), r == 'other:TypeError'


if __name__ == '__main__':
    names = sys.argv[1:] or sorted(CASES)
    for n in names:
        try:
            r = CASES[n]()
        except Exception as e:
            r = 'ERROR %s: %s' % (type(e).__name__, e)
        print('%-36s %s' % (n, r))
