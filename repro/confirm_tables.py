"""Triage helper (NOT part of any check): reproduces table findings against the
real hl7apy code so that only confirmed defects are listed in known_findings.json.
usage: /venv/bin/python repro/confirm_tables.py out/C02.violation.json [...]  -> prints JSON entries"""
import json
import re
import sys

from hl7apy.core import Segment, Field, Component
from hl7apy.parser import parse_segment
from hl7apy.exceptions import HL7apyException

PAT = re.compile(r'^(v2_[0-9_]+)\.(\w+)\[(.*)\]$')


def ver(v):
    return v[1:].replace('_', '.')


def confirm(v):
    m = PAT.match(v['construct'])
    vv, table, key = m.groups()
    version = ver(vv)
    rule = v['rule']
    try:
        if rule == 'T1':
            try:
                Segment(key, version=version)
            except HL7apyException as e:
                return None
            except Exception as e:
                return "Segment(%r, version=%r) raises %s" % (key, version, type(e).__name__)
            return None
        if rule == 'T2' and table == 'SEGMENTS':
            fm = re.search(r'child at rank (\d+) is (\w+)', v['detail'])
            rank, child = int(fm.group(1)), fm.group(2)
            if child == 'None':
                return confirm(dict(v, rule='T1'))
            s = Segment(key, version=version)
            setattr(s, child.lower(), 'X')
            enc = s.to_er7()
            idx = int(child.split('_')[1])
            want = key + '|' * idx + 'X'
            if enc != want:
                return "Segment(%r, version=%r).%s = 'X' encodes as %r (slot %d, not %d)" % (
                    key, version, child.lower(), enc, enc.count('|'), idx)
            return None
        if rule in ('T5', 'T6') and table == 'FIELDS':
            seg = key.split('_')[0]
            idx = int(key.split('_')[1])
            res = []
            for lvl, lname in ((2, 'TOLERANT'), (1, 'STRICT')):
                try:
                    f = Field(key, version=version, validation_level=lvl)
                    f.value = 'A^B' if v['detail'].find('leaf datatype None') < 0 else 'A'
                    val = f.to_er7()
                    if val not in ('A^B', 'A'):
                        res.append("%s: Field(%r, version=%r).value='A^B' encodes as %r" % (lname, key, version, val))
                except HL7apyException as e:
                    res.append("%s: Field(%r, version=%r) with value 'A^B' raises %s" % (lname, key, version, type(e).__name__))
                except Exception as e:
                    res.append("%s: Field(%r, version=%r) raises %s" % (lname, key, version, type(e).__name__))
            return '; '.join(res) or None
        if rule == 'T7':
            fm = re.search(r'not listed: (.*)$', v['detail'])
            missing = fm.group(1).split(', ')[0]
            if table == 'SEGMENTS':
                return confirm(dict(v, rule='T1'))
            c = Field(datatype=key, version=version)
            try:
                setattr(c, missing.lower(), '1')
                enc = c.to_er7()
                n = int(missing.rsplit('_', 1)[1])
                if enc.count('^') != n - 1:
                    return "Field(datatype=%r, version=%r).%s='1' encodes as %r" % (key, version, missing.lower(), enc)
            except Exception as e:
                return "Field(datatype=%r, version=%r).%s = '1' raises %s" % (key, version, missing.lower(), type(e).__name__)
            return None
        if rule == 'C14-U':
            fm = re.search(r"long name '(.*)' cannot", v['detail'])
            ln = fm.group(1)
            parent = key.rsplit('_', 1)[0]
            if table == 'FIELDS':
                p = Segment(parent, version=version)
            else:
                p = Field(datatype=parent, version=version)
            try:
                ok_name = getattr(p, key.lower())
                got = getattr(p, ln.lower()) if ln else None
                if got is None:
                    return "child %s of %s %r has the empty long name: not addressable by long name" % (key, version, parent)
            except Exception as e:
                return "getattr(<%s %s>, %r) raises %s although %s exists" % (parent, version, ln.lower(), type(e).__name__, key)
            try:
                compile('p.' + ln.lower(), 'x', 'eval')
            except SyntaxError:
                return "long name %r of %s is not an attribute name (p.%s is a syntax error)" % (ln, key, ln.lower())
            return None
    except Exception as e:
        return 'repro helper raised %s: %s' % (type(e).__name__, e)
    return None


out = []
for path in sys.argv[1:]:
    d = json.load(open(path))
    for v in d['violations']:
        r = confirm(v)
        out.append({'property': d['property'], 'key': v['key'], 'rule': v['rule'], 'construct': v['construct'],
                    'status': 'open' if r else 'UNCONFIRMED', 'what': v['detail'], 'repro': r})
json.dump(out, sys.stdout, indent=1)
