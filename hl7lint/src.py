"""E0 SourceIndex: parses the hl7apy code modules (never imports them) and
offers modules / classes (with C3 MRO, class attributes, properties) /
functions (with nested closures) by qualified name."""
import ast
import glob
import os

from .report import AnalysisError, repo_root

CORE_MODULES = ('__init__', 'core', 'parser', 'validation', 'factories',
                'base_datatypes', 'utils', 'consts', 'exceptions', 'mllp')


class ModuleInfo(object):
    def __init__(self, name, path, relpath):
        self.name = name
        self.path = path
        self.relpath = relpath
        with open(path) as f:
            self.source = f.read()
        try:
            self.tree = ast.parse(self.source, filename=path)
        except SyntaxError as e:
            raise AnalysisError('cannot parse %s: %s' % (relpath, e))
        if os.environ.get('HL7LINT_NOCANON') != '1':
            from .canon import canonicalize
            self.tree = canonicalize(self.tree)
        for node in ast.walk(self.tree):
            for child in ast.iter_child_nodes(node):
                child._parent = node
        self.tree._parent = None
        self.imports = {}     # local name -> (dotted module, original name or None)
        self.functions = {}
        self.classes = {}
        self.assigns = {}     # module-level NAME = value (last binding)
        self.assign_count = {}

    def __repr__(self):
        return '<module %s>' % self.name


class FuncInfo(object):
    def __init__(self, qualname, node, module, cls=None, outer=None):
        self.qualname = qualname
        self.name = node.name
        self.node = node
        self.module = module
        self.cls = cls
        self.outer = outer
        self.nested = {}
        a = node.args
        self.params = [x.arg for x in getattr(a, 'posonlyargs', [])] + [x.arg for x in a.args]
        self.kwonly = [x.arg for x in a.kwonlyargs]
        self.vararg = a.vararg.arg if a.vararg else None
        self.kwarg = a.kwarg.arg if a.kwarg else None
        self.decorators = [ast.unparse(d) for d in node.decorator_list]
        self.is_static = 'staticmethod' in self.decorators
        self.is_property = 'property' in self.decorators
        # defaults by param name
        self.defaults = {}
        pos = self.params
        for name, d in zip(pos[len(pos) - len(a.defaults):], a.defaults):
            self.defaults[name] = d
        for name, d in zip(self.kwonly, a.kw_defaults):
            if d is not None:
                self.defaults[name] = d

    @property
    def loc(self):
        return '%s:%d' % (self.module.relpath, self.node.lineno)

    def call_params(self):
        """Parameters as seen by a caller (drops self/cls of bound methods)."""
        if self.cls is not None and not self.is_static and self.params:
            return self.params[1:]
        return list(self.params)

    def __repr__(self):
        return '<func %s>' % self.qualname


class ClassInfo(object):
    def __init__(self, name, node, module):
        self.name = name
        self.node = node
        self.module = module
        self.qualname = '%s.%s' % (module.name, name)
        self.base_exprs = [ast.unparse(b) for b in node.bases]
        self.bases = []
        self.mro = []
        self.methods = {}
        self.attrs = {}
        self.properties = {}   # name -> (getter FuncInfo|None, setter FuncInfo|None)
        self.external_bases = []

    def find_method(self, name):
        for c in self.mro:
            if name in c.methods:
                return c.methods[name]
        return None

    def find_property(self, name):
        for c in self.mro:
            if name in c.properties:
                return c.properties[name]
        return None

    def find_attr(self, name):
        for c in self.mro:
            if name in c.attrs:
                return c.attrs[name]
        return None

    def __repr__(self):
        return '<class %s>' % self.qualname


def _c3(cls, seen=()):
    if cls in seen:
        raise AnalysisError('inheritance cycle at %s' % cls.qualname)
    seqs = [list(_c3(b, seen + (cls,))) for b in cls.bases] + [list(cls.bases)]
    res = [cls]
    while True:
        seqs = [s for s in seqs if s]
        if not seqs:
            return res
        for s in seqs:
            cand = s[0]
            if not any(cand in t[1:] for t in seqs):
                break
        else:
            raise AnalysisError('no consistent MRO for %s' % cls.qualname)
        res.append(cand)
        for s in seqs:
            if s[0] is cand:
                del s[0]


class SourceIndex(object):
    def __init__(self, root=None):
        self.root = root or repo_root()
        self.pkg = os.path.join(self.root, 'hl7apy')
        if not os.path.isdir(self.pkg):
            raise AnalysisError('no hl7apy package under %s' % self.root)
        self.modules = {}
        self.functions = {}   # qualname -> FuncInfo
        self.classes = {}     # qualname -> ClassInfo
        self.versions = []    # ['v2_1', ...]
        for m in CORE_MODULES:
            p = os.path.join(self.pkg, m + '.py')
            if os.path.exists(p):
                self._load(m, p)
        for d in sorted(glob.glob(os.path.join(self.pkg, 'v2_*'))):
            v = os.path.basename(d)
            init = os.path.join(d, '__init__.py')
            if os.path.isdir(d) and os.path.exists(init):
                self.versions.append(v)
                self._load(v, init)
                bd = os.path.join(d, 'base_datatypes.py')
                if os.path.exists(bd):
                    self._load(v + '.base_datatypes', bd)
        self._link()

    # -- loading -----------------------------------------------------------
    def _load(self, name, path):
        mod = ModuleInfo(name, path, os.path.relpath(path, self.root))
        self.modules[name] = mod
        self._scan_body(mod, mod.tree.body, None, None, name)

    def _modname(self, mod, dotted, level):
        """hl7apy-relative module name of an import."""
        if level:
            base = mod.name.split('.')
            # module 'v2_7' is a package __init__: relative level 1 = itself
            is_pkg = mod.path.endswith('__init__.py')
            if not is_pkg:
                base = base[:-1]
            up = level - 1
            if up:
                base = base[:-up] if up <= len(base) else []
            parts = base + (dotted.split('.') if dotted else [])
            return '.'.join(parts) if parts else '__init__'
        if dotted == 'hl7apy':
            return '__init__'
        if dotted and dotted.startswith('hl7apy.'):
            return dotted[len('hl7apy.'):]
        return 'ext:' + (dotted or '')

    def _scan_body(self, mod, body, cls, outer, prefix):
        for st in body:
            if isinstance(st, (ast.FunctionDef, ast.AsyncFunctionDef)):
                qn = '%s.%s' % (prefix, st.name)
                fi = FuncInfo(qn, st, mod, cls if outer is None else None, outer)
                if outer is not None:
                    outer.nested[st.name] = fi
                elif cls is not None:
                    cls.methods[st.name] = fi
                else:
                    mod.functions[st.name] = fi
                self.functions[qn] = fi
                self._scan_nested(mod, st, fi, qn)
            elif isinstance(st, ast.ClassDef) and outer is None and cls is None:
                ci = ClassInfo(st.name, st, mod)
                mod.classes[st.name] = ci
                self.classes[ci.qualname] = ci
                self._scan_body(mod, st.body, ci, None, ci.qualname)
            elif isinstance(st, ast.Assign) and outer is None:
                for t in st.targets:
                    if isinstance(t, ast.Name):
                        if cls is not None:
                            cls.attrs[t.id] = st.value
                        else:
                            mod.assigns[t.id] = st.value
                            mod.assign_count[t.id] = mod.assign_count.get(t.id, 0) + 1
            elif isinstance(st, (ast.Import, ast.ImportFrom)) and cls is None and outer is None:
                self._scan_import(mod, st)
            elif isinstance(st, ast.Try) and cls is None and outer is None:
                # try: import X / except ImportError: import Y   (py2/3 shims)
                for sub in st.body + [s for h in st.handlers for s in h.body]:
                    if isinstance(sub, (ast.Import, ast.ImportFrom)):
                        self._scan_import(mod, sub)
                    elif isinstance(sub, ast.Assign):
                        for t in sub.targets:
                            if isinstance(t, ast.Name):
                                mod.assigns.setdefault(t.id, sub.value)

    def _scan_import(self, mod, st):
        if isinstance(st, ast.Import):
            for a in st.names:
                mod.imports[a.asname or a.name.split('.')[0]] = (self._modname(mod, a.name, 0), None)
        else:
            m = self._modname(mod, st.module, st.level)
            for a in st.names:
                mod.imports[a.asname or a.name] = (m, a.name)

    def _scan_nested(self, mod, fnode, fi, prefix):
        for node in ast.walk(fnode):
            if node is fnode:
                continue
            if isinstance(node, (ast.FunctionDef, ast.AsyncFunctionDef)):
                # direct nesting only (one level is all hl7apy uses; deeper ones get dotted names)
                p = node._parent
                while not isinstance(p, (ast.FunctionDef, ast.AsyncFunctionDef)):
                    p = p._parent
                if p is fnode:
                    qn = '%s.%s' % (prefix, node.name)
                    sub = FuncInfo(qn, node, mod, None, fi)
                    fi.nested[node.name] = sub
                    self.functions[qn] = sub
                    self._scan_nested(mod, node, sub, qn)
            elif isinstance(node, (ast.Import, ast.ImportFrom)):
                # function-level imports (validation <-> core cycle breakers)
                self._scan_import(mod, node)

    def _link(self):
        for ci in self.classes.values():
            for b in ci.node.bases:
                target = self.resolve_class_expr(ci.module, b)
                if target is not None:
                    ci.bases.append(target)
                else:
                    ci.external_bases.append(ast.unparse(b))
        for ci in self.classes.values():
            ci.mro = _c3(ci)
        # properties: NAME = property(getter, setter, ...) and @property
        for ci in self.classes.values():
            for name, val in ci.attrs.items():
                if isinstance(val, ast.Call) and isinstance(val.func, ast.Name) and val.func.id == 'property':
                    g = s = None
                    args = list(val.args)
                    kw = {k.arg: k.value for k in val.keywords}
                    gexpr = args[0] if args else kw.get('fget')
                    sexpr = args[1] if len(args) > 1 else kw.get('fset')
                    if isinstance(gexpr, ast.Name):
                        g = ci.methods.get(gexpr.id)
                    if isinstance(sexpr, ast.Name):
                        s = ci.methods.get(sexpr.id)
                    ci.properties[name] = (g, s)
            for name, fi in ci.methods.items():
                if fi.is_property:
                    ci.properties[name] = (fi, None)

    # -- queries -----------------------------------------------------------
    def resolve_class_expr(self, mod, expr):
        if isinstance(expr, ast.Name):
            return self.resolve_class_name(mod, expr.id)
        return None

    def resolve_class_name(self, mod, name):
        if name in mod.classes:
            return mod.classes[name]
        imp = mod.imports.get(name)
        if imp and imp[1]:
            m = self.modules.get(imp[0])
            if m is not None:
                if imp[1] in m.classes:
                    return m.classes[imp[1]]
                # re-export through an import in that module
                if imp[1] in m.imports and m is not mod:
                    return self.resolve_class_name(m, imp[1])
        return None

    def resolve_function_name(self, mod, name):
        if name in mod.functions:
            return mod.functions[name]
        imp = mod.imports.get(name)
        if imp and imp[1]:
            m = self.modules.get(imp[0])
            if m is not None and imp[1] in m.functions:
                return m.functions[imp[1]]
        return None

    def func(self, qualname):
        f = self.functions.get(qualname)
        if f is None and qualname.count('.') >= 2:
            # a method that is now inherited (the override was merged into a base class): the implementation the class uses
            cq, meth = qualname.rsplit('.', 1)
            k = self.classes.get(cq)
            if k is not None:
                f = k.find_method(meth)
        if f is None:
            raise AnalysisError('anchor function %s not found' % qualname)
        return f

    def cls(self, qualname):
        c = self.classes.get(qualname)
        if c is None:
            raise AnalysisError('anchor class %s not found' % qualname)
        return c

    def module(self, name):
        m = self.modules.get(name)
        if m is None:
            raise AnalysisError('anchor module %s not found' % name)
        return m

    def subclasses(self, ci, include_self=True):
        res = [c for c in self.classes.values() if ci in c.mro and (include_self or c is not ci)]
        return sorted(res, key=lambda c: c.qualname)

    def all_functions(self, modules=None):
        for qn in sorted(self.functions):
            f = self.functions[qn]
            if modules is None or f.module.name in modules:
                yield f

    def enclosing_function(self, mod, node):
        """FuncInfo of the innermost function containing `node`."""
        p = node
        chain = []
        while p is not None:
            if isinstance(p, (ast.FunctionDef, ast.AsyncFunctionDef, ast.ClassDef)):
                chain.append(p.name)
            p = getattr(p, '_parent', None)
        if not chain:
            return None
        qn = '%s.%s' % (mod.name, '.'.join(reversed(chain)))
        return self.functions.get(qn)


def parents(node):
    p = getattr(node, '_parent', None)
    while p is not None:
        yield p
        p = getattr(p, '_parent', None)


def own_nodes(fnode):
    """Walk a function body without descending into nested defs/lambdas' bodies
    (nested FunctionDef nodes themselves are yielded, their bodies are not)."""
    stack = list(reversed(fnode.body))
    while stack:
        n = stack.pop()
        yield n
        if isinstance(n, (ast.FunctionDef, ast.AsyncFunctionDef, ast.ClassDef)):
            continue
        stack.extend(reversed(list(ast.iter_child_nodes(n))))


def norm(node):
    """Normalised text of an AST node (stable across formatting)."""
    return ast.unparse(node) if node is not None else ''
