"""E7 small automata library over a symbolic alphabet: NFAs with word-labelled edges, image under a symbol->word
homomorphism, image under a local rewriting with bounded look-behind / look-ahead, product with a DFA, emptiness with a
shortest witness (input and output)."""
from collections import deque


class NFA(object):
    """states are hashable; edges[state] = list of (output word (tuple of symbols), next state, consumed input or None)"""

    def __init__(self, start, accept_fn, edges_fn):
        self.start = start
        self.accept = accept_fn      # state -> bool
        self.edges = edges_fn        # state -> iterable of (word, next, consumed)

    @staticmethod
    def universal(alphabet):
        return NFA('u', lambda s: True, lambda s: [((a,), 'u', a) for a in alphabet])


def image_hom(nfa, hom):
    """image under the homomorphism symbol -> word (symbols absent from hom map to themselves)"""
    def edges(s):
        for word, nxt, cons in nfa.edges(s):
            out = []
            for x in word:
                out.extend(hom.get(x, (x,)))
            yield (tuple(out), nxt, cons)
    return NFA(nfa.start, nfa.accept, edges)


BOT, TOP = '<', '>'      # before the first / after the last symbol


def flatten(nfa):
    """NFA whose edges carry exactly one output symbol (chains for longer words, epsilon for empty ones)"""
    def edges(s):
        if isinstance(s, tuple) and len(s) == 4 and s[0] == '#chain':
            _, word, i, nxt = s
            if i == len(word) - 1:
                yield ((word[i],), nxt, None)
            else:
                yield ((word[i],), ('#chain', word, i + 1, nxt), None)
            return
        for word, nxt, cons in nfa.edges(s):
            if len(word) <= 1:
                yield (word, nxt, cons)
            else:
                yield ((word[0],), ('#chain', word, 1, nxt), cons)
    return NFA(nfa.start, lambda s: not (isinstance(s, tuple) and len(s) == 4 and s[0] == '#chain') and nfa.accept(s), edges)


def image_local(nfa, decide, behind=2, ahead=2):
    """image under a position-wise rewriting: decide(hist, sym, look) -> output word, where hist = the `behind` previous
    *input* symbols (BOT padded) and look = the `ahead` next input symbols (TOP padded).  `nfa` must be flat."""
    start = (nfa.start, (BOT,) * behind, (), False)

    def accept(s):
        q, hist, buf, done = s
        return done and not buf

    def edges(s):
        q, hist, buf, done = s
        if not done:
            for word, nxt, cons in nfa.edges(q):
                if len(word) == 0:
                    yield ((), (nxt, hist, buf, False), cons)
                    continue
                x = word[0]
                nb = buf + (x,)
                if len(nb) == ahead + 1:
                    z = nb[0]
                    out = decide(hist, z, nb[1:])
                    yield (tuple(out), (nxt, (hist + (z,))[-behind:], nb[1:], False), cons)
                else:
                    yield ((), (nxt, hist, nb, False), cons)
            if nfa.accept(q):
                yield ((), (q, hist, buf, True), None)
        elif buf:
            z = buf[0]
            look = buf[1:] + (TOP,) * (ahead - len(buf) + 1)
            out = decide(hist, z, look[:ahead])
            yield (tuple(out), (q, (hist + (z,))[-behind:], buf[1:], True), None)
    return NFA(start, accept, edges)


def find_witness(nfa, dfa_start, dfa_step, dfa_bad, limit=400000):
    """shortest accepted run of `nfa` whose output drives the DFA into a state where dfa_bad(state, at_end) holds at the end.
    Returns (input symbols, output symbols) or None.  nfa need not be flat."""
    flat = flatten(nfa)
    start = (flat.start, dfa_start)
    seen = {start}
    queue = deque([(start, (), ())])
    n = 0
    while queue:
        (s, d), inp, out = queue.popleft()
        n += 1
        if n > limit:
            raise RuntimeError('automata search exceeded %d states' % limit)
        if flat.accept(s) and dfa_bad(d):
            return inp, out
        for word, nxt, cons in flat.edges(s):
            d2 = d
            for x in word:
                d2 = dfa_step(d2, x)
            st = (nxt, d2)
            if st not in seen:
                seen.add(st)
                queue.append((st, inp + ((cons,) if cons is not None else ()), out + tuple(word)))
    find_witness.last_states = n
    return None


def count_states(nfa, limit=400000):
    flat = flatten(nfa)
    seen = {flat.start}
    work = [flat.start]
    tr = 0
    while work:
        s = work.pop()
        for word, nxt, cons in flat.edges(s):
            tr += 1
            if nxt not in seen:
                seen.add(nxt)
                work.append(nxt)
                if len(seen) > limit:
                    raise RuntimeError('too many states')
    return len(seen), tr
