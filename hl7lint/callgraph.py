"""E4 call graph: explicit calls plus the implicit ones Python performs for
attribute / item / iteration syntax on hl7apy objects (properties,
__getattr__/__setattr__/__delattr__, __getitem__/__setitem__/__delitem__,
__len__/__iter__/__contains__, collections.abc mixins)."""
import ast

from .src import own_nodes, norm
from .types import Target, STR_METHODS, MUTATORS, READ_METHODS

# collections.abc mixin methods -> the abstract methods they are written in terms of
MIXIN_AXIOMS = {
    'pop': ('__getitem__', '__delitem__'),
    'extend': ('append',),
    '__iadd__': ('append',),
    'clear': ('__getitem__', '__delitem__', '__len__'),
    'reverse': ('__getitem__', '__setitem__', '__len__'),
    'remove': ('__getitem__', '__delitem__', '__len__'),
    'append': ('insert', '__len__'),
    '__iter__': ('__getitem__',),
    '__contains__': ('__getitem__',),
    '__reversed__': ('__getitem__', '__len__'),
    'index': ('__getitem__',),
    'count': ('__getitem__',),
}


class Site(object):
    """A (possibly implicit) call site."""
    __slots__ = ('node', 'kind', 'targets', 'fn', 'label', 'args')

    def __init__(self, node, kind, targets, fn, label, args=None):
        self.node = node          # AST node of the site
        self.kind = kind          # call | getprop | setprop | getattr | setattr | delattr | getitem | setitem |
        self.targets = targets    # delitem | len | iter | contains | mixin
        self.fn = fn
        self.label = label
        self.args = args or {}    # for implicit calls: {'name': const attr name, 'value': expr}

    @property
    def lineno(self):
        return getattr(self.node, 'lineno', 0)

    def funcs(self):
        return [t.func for t in self.targets if t.kind == 'func']

    def __repr__(self):
        return '<site %s %s@%s:%s>' % (self.kind, self.label, self.fn.qualname, self.lineno)


class CallGraph(object):
    def __init__(self, index, te):
        self.index = index
        self.te = te
        self.sites = {}     # fq -> [Site]
        self.callers = {}   # callee fq -> set(caller fq)
        for f in te.funcs:
            self.sites[f.qualname] = self._scan(f)
        for fq, sites in self.sites.items():
            for s in sites:
                for t in s.targets:
                    if t.kind == 'func':
                        self.callers.setdefault(t.func.qualname, set()).add(fq)

    # ------------------------------------------------------------------
    def _cls_tags(self, expr, fn):
        return [self.index.classes[t[2:]] for t in sorted(self.te.type_of(expr, fn))
                if t.startswith('C:') and t[2:] in self.index.classes]

    def _methods(self, classes, name, via):
        out, seen = [], set()
        for ci in classes:
            for s in self.te.subs(ci):
                m = s.find_method(name)
                if m is not None and m.qualname not in seen:
                    seen.add(m.qualname)
                    out.append(Target('func', m, name, bound=True, via=via))
        return out

    def _mixin(self, classes, name):
        """targets for a collections.abc mixin method `name` on these classes"""
        out = []
        for need in MIXIN_AXIOMS.get(name, ()):
            got = self._methods(classes, need, 'mixin:' + name)
            if got:
                out.extend(got)
            elif need in MIXIN_AXIOMS:
                out.extend(self._mixin(classes, need))
        return out

    def _scan(self, fn):
        te = self.te
        sites = []
        for n in own_nodes(fn.node):
            if isinstance(n, ast.Call):
                targets = list(te.resolve_call(n, fn))
                f = n.func
                # super().<mixin method> / unresolved mixin method on an hl7apy sequence
                extra = []
                for t in targets:
                    if t.kind in ('ext', 'builtin') and isinstance(f, ast.Attribute) and f.attr in MIXIN_AXIOMS:
                        if isinstance(f.value, ast.Call) and isinstance(f.value.func, ast.Name) and f.value.func.id == 'super':
                            k = te.self_class(fn)
                            if k is not None:
                                extra.extend(self._mixin([k], f.attr))
                        else:
                            cl = [c for c in self._cls_tags(f.value, fn) if c.find_method(f.attr) is None]
                            if cl:
                                extra.extend(self._mixin(cl, f.attr))
                targets.extend(extra)
                sites.append(Site(n, 'call', targets, fn, norm(f)[:60]))
                if isinstance(f, ast.Name) and te._is_builtin_name(fn, f.id):
                    self._builtin_call(n, f.id, fn, sites)
                if isinstance(f, ast.Attribute) and f.attr == 'format':
                    for a in list(n.args) + [k.value for k in n.keywords]:
                        cl = self._cls_tags(a, fn)
                        if cl:
                            ts = self._methods(cl, '__str__', 'format') or self._methods(cl, '__repr__', 'format')
                            if ts:
                                sites.append(Site(n, 'str', ts, fn, 'format(%s)' % norm(a)[:30]))
            elif isinstance(n, ast.Attribute):
                self._attribute(n, fn, sites)
            elif isinstance(n, ast.Subscript):
                cl = self._cls_tags(n.value, fn)
                if cl:
                    name = {'Load': '__getitem__', 'Store': '__setitem__', 'Del': '__delitem__'}[type(n.ctx).__name__]
                    ts = self._methods(cl, name, 'item')
                    if ts:
                        sites.append(Site(n, name.strip('_'), ts, fn, norm(n)[:60]))
            elif isinstance(n, (ast.For, ast.comprehension)):
                cl = self._cls_tags(n.iter, fn)
                if cl:
                    self._iteration(n, n.iter, cl, fn, sites)
            elif isinstance(n, ast.Compare):
                for op, comp in zip(n.ops, n.comparators):
                    if isinstance(op, (ast.In, ast.NotIn)):
                        cl = self._cls_tags(comp, fn)
                        if cl:
                            ts = self._methods(cl, '__contains__', 'contains') or self._mixin(cl, '__contains__')
                            if ts:
                                sites.append(Site(n, 'contains', ts, fn, norm(comp)[:40]))
        return sites

    def _iteration(self, node, it, classes, fn, sites):
        ts = self._methods(classes, '__iter__', 'iter')
        no_iter = [c for c in classes if c.find_method('__iter__') is None]
        if no_iter:
            ts = ts + self._mixin(no_iter, '__iter__') + self._methods(no_iter, '__len__', 'iter')
        if ts:
            sites.append(Site(node, 'iter', ts, fn, norm(it)[:40]))

    def _builtin_call(self, n, name, fn, sites):
        te = self.te
        if name == 'len' and n.args:
            cl = self._cls_tags(n.args[0], fn)
            ts = self._methods(cl, '__len__', 'len') if cl else []
            if ts:
                sites.append(Site(n, 'len', ts, fn, norm(n)[:40]))
        elif name in ('list', 'tuple', 'sorted', 'reversed', 'enumerate', 'set', 'iter', 'any', 'all', 'sum') and n.args:
            cl = self._cls_tags(n.args[0], fn)
            if cl:
                self._iteration(n, n.args[0], cl, fn, sites)
        elif name in ('repr', 'str') and n.args:
            cl = self._cls_tags(n.args[0], fn)
            ts = self._methods(cl, '__%s__' % name, name) if cl else []
            if name == 'str' and not ts and cl:
                ts = self._methods(cl, '__repr__', name)
            if ts:
                sites.append(Site(n, name, ts, fn, norm(n)[:40]))
        elif name in ('getattr', 'setattr', 'delattr', 'hasattr') and len(n.args) >= 2:
            obj = n.args[0]
            names = te.const_strings(n.args[1], fn)
            kind = {'getattr': 'Load', 'hasattr': 'Load', 'setattr': 'Store', 'delattr': 'Del'}[name]
            value = n.args[2] if name == 'setattr' and len(n.args) > 2 else None
            if names:
                for an in sorted(names):
                    self._attr_access(n, obj, an, kind, value, fn, sites)
            else:
                dyn = te.dynamic_setattr_names(n, fn) if name == 'setattr' else None
                if dyn is not None:
                    for an in sorted(dyn):
                        self._attr_access(n, obj, an, kind, value, fn, sites)
                else:
                    self._attr_access(n, obj, None, kind, value, fn, sites)

    def _attribute(self, n, fn, sites):
        parent = getattr(n, '_parent', None)
        if isinstance(parent, ast.Call) and parent.func is n:
            # method call: the attribute load itself is part of the call -- unless it goes through __getattr__
            rt = self.te.type_of(n.value, fn)
            if (rt & {'str', 'list', 'dict', 'tuple', 'set'}) and (
                    n.attr in STR_METHODS or n.attr in MUTATORS or n.attr in READ_METHODS):
                return    # a builtin method of the plain value this expression may also be
            cl = self._cls_tags(n.value, fn)
            for ci in cl:
                if not any(s.find_method(n.attr) for s in self.te.subs(ci)) and self._dyn_lookup(ci, n.attr):
                    self._attr_access(n, n.value, n.attr, 'Load', None, fn, sites)
                    break
            return
        kind = type(n.ctx).__name__
        value = None
        if kind == 'Store' and isinstance(parent, ast.Assign) and len(parent.targets) >= 1:
            value = parent.value
        self._attr_access(n, n.value, n.attr, kind, value, fn, sites)

    def _dyn_lookup(self, ci, name):
        """True when attribute `name` of an instance of ci is not found by normal lookup (=> __getattr__)"""
        te = self.te
        if name.startswith('__') and name.endswith('__'):
            return False
        for s in te.subs(ci):
            if s.find_method(name) or s.find_property(name) or s.find_attr(name) is not None:
                return False
        if (te.root_of(ci), name) in te.iattr:
            return False
        ca = te.cls_attrs(ci)
        if ca is not None and name in ca:
            return False
        return any(s.find_method('__getattr__') for s in te.subs(ci))

    def _attr_access(self, node, obj, name, kind, value, fn, sites):
        """implicit calls of `obj.name` (name None = dynamic) in Load/Store/Del context"""
        te = self.te
        classes = self._cls_tags(obj, fn)
        if not classes:
            return
        is_self_method_body = False
        ts = []
        label = '%s.%s' % (norm(obj)[:30], name or '<dynamic>')
        if kind == 'Load':
            for ci in classes:
                for s in te.subs(ci):
                    if name is not None:
                        p = s.find_property(name)
                        if p is not None and p[0] is not None:
                            ts.append(Target('func', p[0], name, bound=True, via='property'))
                    else:
                        for pn, (g, st) in self._all_props(s).items():
                            if g is not None:
                                ts.append(Target('func', g, pn, bound=True, via='property?'))
                if name is None or self._dyn_lookup(ci, name):
                    ts.extend(self._methods([ci], '__getattr__', 'getattr'))
            skind = 'getprop'
        elif kind == 'Store':
            skind = 'setprop'
            for ci in classes:
                for s in te.subs(ci):
                    ca = te.cls_attrs(s)
                    sa = s.find_method('__setattr__')
                    props = self._all_props(s)
                    if name is not None:
                        p = s.find_property(name)
                        if p is not None and p[1] is not None:
                            ts.append(Target('func', p[1], name, bound=True, via='property'))
                        if sa is not None and ca is not None:
                            if name not in ca:
                                ts.append(Target('func', sa, '__setattr__', bound=True, via='setattr'))
                            elif name == 'children':
                                # Element.__setattr__('children', iterable) re-adds every child
                                ts.append(Target('func', sa, '__setattr__', bound=True, via='setattr:children'))
                        elif sa is not None:
                            ts.append(Target('func', sa, '__setattr__', bound=True, via='setattr'))
                    else:
                        for pn, (g, st) in props.items():
                            if st is not None:
                                ts.append(Target('func', st, pn, bound=True, via='property?'))
                        if sa is not None:
                            ts.append(Target('func', sa, '__setattr__', bound=True, via='setattr'))
        else:
            skind = 'delattr'
            for ci in classes:
                for s in te.subs(ci):
                    da = s.find_method('__delattr__')
                    ca = te.cls_attrs(s)
                    if da is not None and (name is None or ca is None or name not in ca):
                        ts.append(Target('func', da, '__delattr__', bound=True, via='delattr'))
        seen, res = set(), []
        for t in ts:
            k = (t.func.qualname, t.via)
            if k not in seen:
                seen.add(k)
                res.append(t)
        # inside the accessor itself the access is the raw one (self._parent etc. are plain names)
        res = [t for t in res if t.func is not fn or t.via.startswith('setattr')]
        if res:
            sites.append(Site(node, skind, res, fn, label, {'name': name, 'value': value}))

    def _all_props(self, ci):
        out = {}
        for c in reversed(ci.mro):
            out.update(c.properties)
        return out

    # ------------------------------------------------------------------ queries
    def callees(self, fq, pred=None):
        out = set()
        for s in self.sites.get(fq, ()):
            for t in s.targets:
                if t.kind == 'func' and (pred is None or pred(s, t)):
                    out.add(t.func.qualname)
        return out

    def reachable(self, roots, pred=None, stop=None):
        """qualnames reachable from roots (inclusive); pred(site, target) filters edges; stop(fq) cuts nodes"""
        seen = set()
        work = list(roots)
        parent = {}
        while work:
            fq = work.pop()
            if fq in seen:
                continue
            seen.add(fq)
            if stop is not None and stop(fq):
                continue
            for s in self.sites.get(fq, ()):
                for t in s.targets:
                    if t.kind == 'func' and (pred is None or pred(s, t)):
                        q = t.func.qualname
                        if q not in seen:
                            parent.setdefault(q, (fq, s))
                            work.append(q)
        self.last_parent = parent
        return seen

    # ------------------------------------------------------------------ constant-sensitive reachability
    @staticmethod
    def _const(node):
        if isinstance(node, ast.Constant) and (isinstance(node.value, (str, bool)) or node.value is None):
            return (node.value,)
        return None

    def site_feasible(self, site, consts):
        """False when an enclosing `if P == 'c'` / `if P` / `if not P` test contradicts the known constant
        value of parameter P for this activation"""
        if not consts:
            return True
        child = site.node
        p = getattr(child, '_parent', None)
        while p is not None and not isinstance(p, (ast.FunctionDef, ast.AsyncFunctionDef)):
            if isinstance(p, ast.If) and (any(child is b for b in p.body) or any(child is b for b in p.orelse)):
                in_body = any(child is b for b in p.body)
                verdict = self._eval_test(p.test, consts)
                if verdict is not None and verdict != in_body:
                    return False
            child = p
            p = getattr(p, '_parent', None)
        return True

    def _eval_test(self, t, consts):
        if isinstance(t, ast.Compare) and len(t.ops) == 1 and isinstance(t.left, ast.Name) and t.left.id in consts:
            c = self._const(t.comparators[0])
            if c is not None:
                v = consts[t.left.id]
                if isinstance(t.ops[0], ast.Eq):
                    return v == c[0]
                if isinstance(t.ops[0], ast.NotEq):
                    return v != c[0]
                if isinstance(t.ops[0], ast.Is):
                    return v is c[0]
                if isinstance(t.ops[0], ast.IsNot):
                    return v is not c[0]
        if isinstance(t, ast.Name) and t.id in consts:
            return bool(consts[t.id])
        if isinstance(t, ast.UnaryOp) and isinstance(t.op, ast.Not):
            r = self._eval_test(t.operand, consts)
            return None if r is None else not r
        if isinstance(t, ast.BoolOp) and isinstance(t.op, ast.And):
            rs = [self._eval_test(v, consts) for v in t.values]
            if any(r is False for r in rs):
                return False
            if all(r is True for r in rs):
                return True
        return None

    def reachable_cs(self, roots, pred=None, stop=None, root_consts=None):
        """like reachable(), but each function activation carries the constant str/bool/None arguments it was
        called with, and call sites in branches contradicted by those constants are skipped"""
        seen = set()
        fqs = set()
        work = [(r, frozenset((root_consts or {}).get(r, {}).items())) for r in roots]
        parent = {}
        while work:
            fq, ck = work.pop()
            if (fq, ck) in seen:
                continue
            seen.add((fq, ck))
            fqs.add(fq)
            if stop is not None and stop(fq):
                continue
            consts = dict(ck)
            fi = self.index.functions.get(fq)
            # parameters reassigned in the body are not constant
            if fi is not None and consts:
                for n in own_nodes(fi.node):
                    if isinstance(n, ast.Name) and isinstance(n.ctx, ast.Store) and n.id in consts:
                        consts.pop(n.id, None)
            for s in self.sites.get(fq, ()):
                if not self.site_feasible(s, consts):
                    continue
                for t in s.targets:
                    if t.kind != 'func' or (pred is not None and not pred(s, t)):
                        continue
                    nc = {}
                    if s.kind == 'call':
                        b, _, _, _ = self.te.bind(s.node, t)
                        for pn, a in b.items():
                            c = self._const(a)
                            if c is not None:
                                nc[pn] = c[0]
                            elif isinstance(a, ast.Name) and a.id in consts:
                                nc[pn] = consts[a.id]
                    elif s.kind in ('setprop', 'getprop', 'delattr') and s.args.get('name') is not None and \
                            t.func.name in ('__setattr__', '__getattr__', '__delattr__'):
                        ps = t.func.call_params()
                        if ps:
                            nc[ps[0]] = s.args['name']
                    q = t.func.qualname
                    key = (q, frozenset(nc.items()))
                    if key not in seen:
                        parent.setdefault(q, (fq, s))
                        work.append(key)
        self.last_parent = parent
        return fqs

    def path_to(self, target_fq):
        """call chain (list of 'caller:line -> callee') to target using the parents of the last reachable()"""
        chain = []
        cur = target_fq
        guard = 0
        while cur in self.last_parent and guard < 60:
            fq, s = self.last_parent[cur]
            chain.append('%s:%d %s -> %s' % (fq, s.lineno, s.label, cur))
            cur = fq
            guard += 1
        return list(reversed(chain))
