"""E2 TableModel: evaluates hl7apy/v2_*/{segments,fields,datatypes,groups,messages}.py
from their syntax trees -- nothing is imported or executed.

Supported syntax is exactly what the files contain: one top-level NAME = {...}
literal per table; values built from constants, tuples, lists, -N, and
OTHER['key'] cross references; plus the two recognised fix-up loops.  Anything
else is an AnalysisError (the model would be unfaithful)."""
import ast
import hashlib
import os
import pickle
from collections import namedtuple

from .report import AnalysisError, repo_root, VERIF

Ref = namedtuple('Ref', 'table key')

FILES = ('fields', 'datatypes', 'segments', 'groups', 'messages')
TABLE_OF_FILE = {'fields': ('FIELDS',), 'datatypes': ('DATATYPES', 'DATATYPES_STRUCTS'),
                 'segments': ('SEGMENTS',), 'groups': ('GROUPS',), 'messages': ('MESSAGES',)}

DT_FIXUP = "for k, v in iteritems(DATATYPES):\n    if v[0] == 'sequence':\n        v[1] = DATATYPES_STRUCTS[v[2]]"
GRP_FIXUP = ("for k, v in iteritems(GROUPS):\n    for item in v[1]:\n        if item[3] == 'GRP':\n"
             "            item[1] = GROUPS[item[0]]")


class Unsupported(Exception):
    pass


def _lit(node):
    if isinstance(node, ast.Constant):
        return node.value
    if isinstance(node, ast.Tuple):
        return tuple(_lit(e) for e in node.elts)
    if isinstance(node, ast.List):
        return [_lit(e) for e in node.elts]
    if isinstance(node, ast.UnaryOp) and isinstance(node.op, ast.USub) and isinstance(node.operand, ast.Constant):
        return -node.operand.value
    if isinstance(node, ast.Subscript) and isinstance(node.value, ast.Name):
        sl = node.slice
        if isinstance(sl, ast.Constant) and isinstance(sl.value, str):
            return Ref(node.value.id, sl.value)
    raise Unsupported('%s at line %s' % (ast.dump(node)[:80], getattr(node, 'lineno', '?')))


def _normalise_loop(st):
    return ast.unparse(st)


def load_version_uncached(root, v):
    """-> dict(tables, lines, files, fixups, dupkeys, imports) for version package v (e.g. 'v2_5')."""
    out = {'version': v, 'tables': {}, 'lines': {}, 'files': {}, 'fixups': [], 'dupkeys': [], 'errors': []}
    for f in FILES:
        rel = os.path.join('hl7apy', v, f + '.py')
        path = os.path.join(root, rel)
        if not os.path.exists(path):
            out['errors'].append('%s: file missing' % rel)
            continue
        with open(path) as fh:
            src = fh.read()
        try:
            tree = ast.parse(src)
        except SyntaxError as e:
            out['errors'].append('%s: %s' % (rel, e))
            continue
        for st in tree.body:
            if isinstance(st, ast.Expr) and isinstance(st.value, ast.Constant):
                continue
            if isinstance(st, (ast.Import, ast.ImportFrom)):
                continue
            if isinstance(st, ast.Assign) and len(st.targets) == 1 and isinstance(st.targets[0], ast.Name) \
                    and isinstance(st.value, ast.Dict):
                name = st.targets[0].id
                if name in out['tables']:
                    out['errors'].append('%s:%d: table %s bound twice' % (rel, st.lineno, name))
                tab, lines = {}, {}
                for k, val in zip(st.value.keys, st.value.values):
                    if not (isinstance(k, ast.Constant) and isinstance(k.value, str)):
                        out['errors'].append('%s:%d: non-literal key in %s' % (rel, getattr(k, 'lineno', 0), name))
                        continue
                    if k.value in tab:
                        out['dupkeys'].append((name, k.value, k.lineno))
                    try:
                        tab[k.value] = _lit(val)
                    except Unsupported as e:
                        out['errors'].append('%s:%d: unsupported value for %s[%r]: %s' % (rel, k.lineno, name, k.value, e))
                        continue
                    lines[k.value] = k.lineno
                out['tables'][name] = tab
                out['lines'][name] = lines
                out['files'][name] = rel
                continue
            if isinstance(st, ast.For):
                text = _normalise_loop(st)
                if text == DT_FIXUP:
                    out['fixups'].append('DATATYPES')
                    continue
                if text == GRP_FIXUP:
                    out['fixups'].append('GROUPS')
                    continue
            out['errors'].append('%s:%d: unsupported top-level statement: %s'
                                 % (rel, st.lineno, ast.unparse(st)[:80].replace('\n', ' ')))
    return out


def _digest(root, v):
    h = hashlib.sha1()
    for f in FILES:
        p = os.path.join(root, 'hl7apy', v, f + '.py')
        try:
            with open(p, 'rb') as fh:
                h.update(fh.read())
        except IOError:
            h.update(b'<missing>')
        h.update(b'\0')
    h.update(b'model-v3')
    return h.hexdigest()


def load_version(args):
    root, v = args
    cache_dir = os.path.join(VERIF, '.cache')
    dg = _digest(root, v)
    cpath = os.path.join(cache_dir, 'tables-%s-%s.pkl' % (v, dg))
    if os.environ.get('HL7LINT_NOCACHE') != '1':
        try:
            with open(cpath, 'rb') as f:
                return pickle.load(f)
        except Exception:
            pass
    data = load_version_uncached(root, v)
    if os.environ.get('HL7LINT_NOCACHE') != '1':
        try:
            if not os.path.isdir(cache_dir):
                os.makedirs(cache_dir)
            tmp = cpath + '.%d' % os.getpid()
            with open(tmp, 'wb') as f:
                pickle.dump(data, f, protocol=pickle.HIGHEST_PROTOCOL)
            os.rename(tmp, cpath)
        except Exception:
            pass
    return data


class VersionTables(object):
    def __init__(self, data):
        self.version = data['version']
        self.label = data['version'][1:].replace('_', '.')
        self.tables = data['tables']
        self.lines = data['lines']
        self.files = data['files']
        self.fixups = data['fixups']
        self.dupkeys = data['dupkeys']
        self.errors = data['errors']

    def loc(self, table, key):
        return '%s:%s' % (self.files.get(table, 'hl7apy/%s/?' % self.version), self.lines.get(table, {}).get(key, '?'))

    def deref(self, ref):
        """Row referenced by a Ref, or None when the key does not exist."""
        return self.tables.get(ref.table, {}).get(ref.key)

    def datatype_row_children(self, row):
        """The [1] slot of a DATATYPES row *after* the fix-up loop, as a Ref (or None)."""
        if isinstance(row, (list, tuple)) and len(row) > 2 and row[0] == 'sequence' and 'DATATYPES' in self.fixups:
            return Ref('DATATYPES_STRUCTS', row[2])
        return row[1] if isinstance(row, (list, tuple)) and len(row) > 1 else None


def version_dirs(root=None):
    root = root or repo_root()
    pkg = os.path.join(root, 'hl7apy')
    return sorted(d for d in os.listdir(pkg) if d.startswith('v2_') and os.path.isdir(os.path.join(pkg, d)))


_CACHE = {}


def load_all(root=None, versions=None):
    root = root or repo_root()
    vs = versions or version_dirs(root)
    key = (root, tuple(vs))
    if key in _CACHE:
        return _CACHE[key]
    jobs = [(root, v) for v in vs]
    res = None
    if len(jobs) > 2:
        try:
            import multiprocessing
            ctx = multiprocessing.get_context('fork')
            with ctx.Pool(min(len(jobs), os.cpu_count() or 2, 12)) as pool:
                res = pool.map(load_version, jobs)
        except Exception:
            res = None
    if res is None:
        res = [load_version(j) for j in jobs]
    out = [VersionTables(d) for d in res]
    for vt in out:
        if vt.errors:
            raise AnalysisError('table model unfaithful for %s: %s' % (vt.version, '; '.join(vt.errors[:4])))
    _CACHE[key] = out
    return out
