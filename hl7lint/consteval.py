"""E1 ConstEval: evaluates constant expressions found in the source (literals, '...'.format(...), % formatting,
''.join([...]), b'..'.decode('ascii'), names bound once to constants, class constants such as MLLP_ENCODING_CHARS.SB)."""
import ast

from .src import own_nodes, norm


class NotConstant(Exception):
    pass


class Sym(object):
    """symbolic placeholder for a non-constant sub-expression (kept by name in format results)"""
    def __init__(self, name):
        self.name = name

    def __repr__(self):
        return '<%s>' % self.name


class ConstEval(object):
    def __init__(self, index, te=None):
        self.index = index
        self.te = te

    def eval(self, node, mod, fn=None, env=None, symbolic=False, depth=0):
        env = env or {}
        if depth > 12:
            raise NotConstant('too deep')
        if isinstance(node, ast.Constant):
            return node.value
        if isinstance(node, ast.Name):
            if node.id in env:
                return env[node.id]
            if fn is not None:
                vals = [n.value for n in own_nodes(fn.node) if isinstance(n, ast.Assign) and
                        any(isinstance(t, ast.Name) and t.id == node.id for t in n.targets)]
                if len(vals) == 1:
                    return self.eval(vals[0], mod, fn, env, symbolic, depth + 1)
            if node.id in mod.assigns and mod.assign_count.get(node.id, 1) == 1:
                return self.eval(mod.assigns[node.id], mod, None, env, symbolic, depth + 1)
            imp = mod.imports.get(node.id)
            if imp and imp[1] and imp[0] in self.index.modules:
                m2 = self.index.modules[imp[0]]
                if imp[1] in m2.assigns:
                    return self.eval(m2.assigns[imp[1]], m2, None, env, symbolic, depth + 1)
            if symbolic:
                return Sym(node.id)
            raise NotConstant(node.id)
        if isinstance(node, ast.Attribute):
            # Class.CONST (possibly imported) or self.attr bound once in the class
            if isinstance(node.value, ast.Name):
                ci = self.index.resolve_class_name(mod, node.value.id)
                if ci is not None and ci.find_attr(node.attr) is not None:
                    return self.eval(ci.find_attr(node.attr), ci.module, None, env, symbolic, depth + 1)
                if node.value.id == 'self' and fn is not None:
                    k = fn.cls or (fn.outer.cls if fn.outer else None)
                    if k is not None:
                        vals = []
                        for m in k.methods.values():
                            for n in own_nodes(m.node):
                                if isinstance(n, ast.Assign) and any(norm(t) == 'self.' + node.attr for t in n.targets):
                                    vals.append((n.value, m))
                        if len(vals) == 1:
                            return self.eval(vals[0][0], k.module, vals[0][1], env, symbolic, depth + 1)
            if symbolic:
                return Sym(norm(node))
            raise NotConstant(norm(node))
        if isinstance(node, (ast.Tuple, ast.List)):
            return [self.eval(e, mod, fn, env, symbolic, depth + 1) for e in node.elts]
        if isinstance(node, ast.BinOp) and isinstance(node.op, ast.Add):
            a = self.eval(node.left, mod, fn, env, symbolic, depth + 1)
            b = self.eval(node.right, mod, fn, env, symbolic, depth + 1)
            return a + b
        if isinstance(node, ast.BinOp) and isinstance(node.op, ast.Mult):
            a = self.eval(node.left, mod, fn, env, symbolic, depth + 1)
            b = self.eval(node.right, mod, fn, env, symbolic, depth + 1)
            return a * b
        if isinstance(node, ast.BinOp) and isinstance(node.op, ast.Mod):
            a = self.eval(node.left, mod, fn, env, symbolic, depth + 1)
            b = self.eval(node.right, mod, fn, env, symbolic, depth + 1)
            if isinstance(b, list):
                b = tuple(b)
            return a % b
        if isinstance(node, ast.JoinedStr):
            # canonical form of '..{0}..'.format(..) and '..%s..' % (..): same result shape as self.format()
            out = []
            for v in node.values:
                if isinstance(v, ast.Constant):
                    out.append(v.value)
                else:
                    out.append(self.eval(v.value, mod, fn, env, symbolic, depth + 1))
            if all(isinstance(x, str) for x in out):
                return ''.join(out)
            return [x for x in out if x != '']
        if isinstance(node, ast.Call):
            f = node.func
            if isinstance(f, ast.Attribute) and f.attr == 'format':
                tmpl = self.eval(f.value, mod, fn, env, symbolic, depth + 1)
                args = [self.eval(a, mod, fn, env, symbolic, depth + 1) for a in node.args]
                kw = {k.arg: self.eval(k.value, mod, fn, env, symbolic, depth + 1) for k in node.keywords}
                return self.format(tmpl, args, kw)
            if isinstance(f, ast.Attribute) and f.attr == 'join':
                sep = self.eval(f.value, mod, fn, env, symbolic, depth + 1)
                parts = self.eval(node.args[0], mod, fn, env, symbolic, depth + 1)
                return sep.join(parts)
            if isinstance(f, ast.Attribute) and f.attr == 'decode':
                v = self.eval(f.value, mod, fn, env, symbolic, depth + 1)
                return v.decode('latin-1') if isinstance(v, bytes) else v
            if isinstance(f, ast.Attribute) and f.attr == 'encode':
                v = self.eval(f.value, mod, fn, env, symbolic, depth + 1)
                return v.encode('latin-1') if isinstance(v, str) else v
            if isinstance(f, ast.Attribute) and f.attr == 'upper':
                return self.eval(f.value, mod, fn, env, symbolic, depth + 1).upper()
            if isinstance(f, ast.Name) and f.id == 'tuple' and node.args:
                return tuple(self.eval(node.args[0], mod, fn, env, symbolic, depth + 1))
            if isinstance(f, ast.Attribute) and f.attr == 'escape' and norm(f.value) == 're' and node.args:
                v = self.eval(node.args[0], mod, fn, env, symbolic, depth + 1)
                if isinstance(v, Sym):
                    return v
                import re
                return re.escape(v)
            if symbolic:
                return Sym(norm(node)[:40])
            raise NotConstant(norm(node)[:40])
        if symbolic:
            return Sym(norm(node)[:40])
        raise NotConstant(type(node).__name__)

    @staticmethod
    def format(tmpl, args, kw):
        """str.format restricted to {i}, {name}, {} fields; symbolic arguments are rendered as <name>"""
        import string
        out = []
        auto = 0
        for lit, field, spec, conv in string.Formatter().parse(tmpl):
            out.append(lit)
            if field is None:
                continue
            if field == '':
                v = args[auto]
                auto += 1
            elif field.isdigit():
                v = args[int(field)]
            else:
                v = kw[field]
            out.append(v)
        if all(isinstance(x, str) for x in out):
            return ''.join(out)
        return [x for x in out if x != '']

    @staticmethod
    def format_fields(tmpl):
        import string
        return [field for _, field, _, _ in string.Formatter().parse(tmpl) if field is not None]
