"""E3 statement-level control-flow graph with exceptional edges.

Nodes are simple statements, branch tests, loop headers, handler entries and
three synthetic nodes (ENTRY, EXIT = normal return, RAISE = exception leaves
the function).  Edge labels: '' next, 'true'/'false' branch outcome,
'iter'/'done' loop step, 'exc' exception raised inside the source node.
"""
import ast

from .src import norm

ENTRY, EXIT, RAISE = 'ENTRY', 'EXIT', 'RAISE'
CATCH_ALL = {'Exception', 'BaseException'}


class Node(object):
    __slots__ = ('id', 'kind', 'ast', 'label')

    def __init__(self, nid, kind, node, label=''):
        self.id = nid
        self.kind = kind      # stmt | test | for | handler | with | synthetic
        self.ast = node
        self.label = label

    @property
    def lineno(self):
        return getattr(self.ast, 'lineno', 0)

    def __repr__(self):
        return '<%s %s:%s %s>' % (self.id, self.kind, self.lineno, self.label[:40])


def may_raise(node):
    """syntactic over-approximation: the node contains a call, subscript, attribute access, raise or assert"""
    for n in ast.walk(node):
        if isinstance(n, (ast.Call, ast.Subscript, ast.Attribute, ast.Raise, ast.Assert, ast.BinOp, ast.Delete,
                          ast.Starred, ast.Compare, ast.AugAssign, ast.For, ast.With, ast.Import, ast.ImportFrom)):
            return True
        if isinstance(n, ast.Assign) and any(isinstance(t, (ast.Tuple, ast.List)) for t in n.targets):
            return True          # unpacking: ValueError / TypeError
        if isinstance(n, (ast.FunctionDef, ast.Lambda)) and n is not node:
            continue
    return False


def handler_names(h):
    if h.type is None:
        return None     # bare except
    t = h.type
    elts = t.elts if isinstance(t, ast.Tuple) else [t]
    return [norm(e).split('.')[-1] for e in elts]


class CFG(object):
    def __init__(self, fnode):
        self.fnode = fnode
        self.nodes = {}
        self.succ = {}      # id -> list of (dst, label)
        self.pred = {}
        self._n = 0
        for k in (ENTRY, EXIT, RAISE):
            self.nodes[k] = Node(k, 'synthetic', fnode, k)
            self.succ[k] = []
            self.pred[k] = []
        self.node_of_ast = {}
        self.handler_entry = {}   # id(ExceptHandler) -> node id
        frontier = self._body(fnode.body, [(ENTRY, '')], {'loops': [], 'tries': []})
        for src, lab in frontier:
            self._edge(src, EXIT, lab)

    # ------------------------------------------------------------------ construction
    def _new(self, kind, node, label=''):
        self._n += 1
        nid = 'n%d' % self._n
        self.nodes[nid] = Node(nid, kind, node, label or norm(node)[:80].split('\n')[0])
        self.succ[nid] = []
        self.pred[nid] = []
        self.node_of_ast.setdefault(id(node), nid)
        return nid

    def _edge(self, a, b, label=''):
        if (b, label) not in self.succ[a]:
            self.succ[a].append((b, label))
            self.pred[b].append((a, label))

    def _connect(self, frontier, nid):
        for src, lab in frontier:
            self._edge(src, nid, lab)

    def _exc_targets(self, ctx):
        """where an exception raised here may land: handler entries of enclosing trys, else RAISE"""
        out = []
        for t in reversed(ctx['tries']):
            if t['in_body']:
                out.extend(t['handlers'])
                if t['catch_all']:
                    return out
            if t.get('finally_entry'):
                out.append(t['finally_entry'])
                return out
        out.append(RAISE)
        return out

    def _exc_edges(self, nid, node, ctx, force=False):
        if force or may_raise(node):
            for h in self._exc_targets(ctx):
                self._edge(nid, h, 'exc')

    def _body(self, stmts, frontier, ctx):
        for st in stmts:
            frontier = self._stmt(st, frontier, ctx)
        return frontier

    def _stmt(self, st, frontier, ctx):
        if isinstance(st, ast.If):
            t = self._new('test', st.test)
            self.node_of_ast[id(st)] = t
            self._connect(frontier, t)
            self._exc_edges(t, st.test, ctx)
            a = self._body(st.body, [(t, 'true')], ctx)
            b = self._body(st.orelse, [(t, 'false')], ctx) if st.orelse else [(t, 'false')]
            return a + b
        if isinstance(st, (ast.For, ast.AsyncFor)):
            h = self._new('for', st, 'for %s in %s' % (norm(st.target), norm(st.iter)[:50]))
            self._connect(frontier, h)
            self._exc_edges(h, st.iter, ctx, force=True)
            loop = {'head': h, 'breaks': []}
            ctx['loops'].append(loop)
            body_out = self._body(st.body, [(h, 'iter')], ctx)
            ctx['loops'].pop()
            self._connect(body_out, h)
            out = self._body(st.orelse, [(h, 'done')], ctx) if st.orelse else [(h, 'done')]
            return out + loop['breaks']
        if isinstance(st, ast.While):
            t = self._new('test', st.test)
            self.node_of_ast[id(st)] = t
            self._connect(frontier, t)
            self._exc_edges(t, st.test, ctx)
            loop = {'head': t, 'breaks': []}
            ctx['loops'].append(loop)
            body_out = self._body(st.body, [(t, 'true')], ctx)
            ctx['loops'].pop()
            self._connect(body_out, t)
            const_true = isinstance(st.test, ast.Constant) and bool(st.test.value)
            out = []
            if not const_true:
                out = self._body(st.orelse, [(t, 'false')], ctx) if st.orelse else [(t, 'false')]
            return out + loop['breaks']
        if isinstance(st, ast.Try):
            return self._try(st, frontier, ctx)
        if isinstance(st, (ast.With, ast.AsyncWith)):
            w = self._new('with', st, 'with ' + ', '.join(norm(i.context_expr)[:40] for i in st.items))
            self._connect(frontier, w)
            self._exc_edges(w, st.items[0].context_expr, ctx, force=True)
            return self._body(st.body, [(w, '')], ctx)
        if isinstance(st, (ast.FunctionDef, ast.AsyncFunctionDef, ast.ClassDef)):
            n = self._new('stmt', st, 'def ' + st.name)
            self._connect(frontier, n)
            return [(n, '')]
        n = self._new('stmt', st)
        self._connect(frontier, n)
        if isinstance(st, ast.Return):
            if st.value is not None:
                self._exc_edges(n, st.value, ctx)
            fin = self._pending_finally(ctx)
            if fin:
                self._edge(n, fin, 'return')
            else:
                self._edge(n, EXIT, '')
            return []
        if isinstance(st, ast.Raise):
            for h in self._exc_targets(ctx):
                self._edge(n, h, 'exc')
            return []
        if isinstance(st, ast.Break):
            if ctx['loops']:
                ctx['loops'][-1]['breaks'].append((n, 'break'))
            return []
        if isinstance(st, ast.Continue):
            if ctx['loops']:
                self._edge(n, ctx['loops'][-1]['head'], 'continue')
            return []
        self._exc_edges(n, st, ctx)
        return [(n, '')]

    def _pending_finally(self, ctx):
        for t in reversed(ctx['tries']):
            if t.get('finally_entry') and not t.get('in_finally'):
                return t['finally_entry']
        return None

    def _try(self, st, frontier, ctx):
        handlers = []
        catch_all = False
        for h in st.handlers:
            hn = self._new('handler', h, 'except %s' % (norm(h.type) if h.type is not None else ''))
            self.handler_entry[id(h)] = hn
            handlers.append(hn)
            names = handler_names(h)
            if names is None or any(x in CATCH_ALL for x in names):
                catch_all = True
        t = {'handlers': handlers, 'catch_all': catch_all, 'in_body': True}
        fin_entry = None
        if st.finalbody:
            fin_entry = self._new('stmt', st.finalbody[0], 'finally:')
            # the finally body is represented once; it continues normally and may also re-raise
            t['finally_entry'] = fin_entry
        ctx['tries'].append(t)
        first_body = len(self.nodes)
        body_out = self._body(st.body, frontier, ctx)
        t['in_body'] = False
        # a handler is never dead code for the analysis: if no statement of the body was recognised as a possible raiser,
        # every statement of the body gets an exceptional edge to the handlers
        body_nodes = [nid for nid in list(self.nodes)[first_body:]]
        if handlers and not any(d in handlers for nid in body_nodes for d, lab in self.succ.get(nid, ()) if lab == 'exc'):
            for nid in body_nodes:
                for hn in handlers:
                    self._edge(nid, hn, 'exc')
        else_out = self._body(st.orelse, body_out, ctx) if st.orelse else body_out
        outs = list(else_out)
        for h, hn in zip(st.handlers, handlers):
            outs += self._body(h.body, [(hn, '')], ctx)
        ctx['tries'].pop()
        if fin_entry:
            t['in_finally'] = True
            self._connect(outs, fin_entry)
            # chain the statements of the finally body after its entry node
            cur = [(fin_entry, '')]
            self._exc_edges(fin_entry, st.finalbody[0], ctx)
            cur = self._body(st.finalbody[1:], cur, ctx)
            # after finally: fall through, or (when entered by exception / return) leave
            for src, lab in cur:
                for h in self._exc_targets(ctx):
                    self._edge(src, h, 'exc')
                self._edge(src, EXIT, 'return')
            return cur
        return outs

    # ------------------------------------------------------------------ queries
    def node_for(self, ast_node):
        """CFG node of the statement that contains ast_node"""
        p = ast_node
        while p is not None:
            nid = self.node_of_ast.get(id(p))
            if nid is not None:
                return nid
            p = getattr(p, '_parent', None)
        return None

    def reach(self, start, avoid=(), labels_ok=None, forward=True):
        """ids reachable from start (exclusive of start unless on a cycle) without passing through `avoid`"""
        avoid = set(avoid)
        seen = set()
        work = [start] if not isinstance(start, (list, set, tuple)) else list(start)
        first = set(work)
        table = self.succ if forward else self.pred
        while work:
            n = work.pop()
            for d, lab in table[n]:
                if labels_ok is not None and not labels_ok(n, d, lab):
                    continue
                if d in avoid or d in seen:
                    continue
                seen.add(d)
                work.append(d)
        return seen

    def reach_incomplete(self, start, events, labels_ok=None):
        """nodes reachable from start on paths on which no statement of `events` *completes*: an event node may be
        entered, but only its exceptional out-edges are followed (the statement raised, its effect did not happen)"""
        events = set(events)
        seen = set()
        work = [start]
        while work:
            n = work.pop()
            for d, lab in self.succ[n]:
                if n in events and lab != 'exc':
                    continue
                if labels_ok is not None and not labels_ok(n, d, lab):
                    continue
                if d in seen:
                    continue
                seen.add(d)
                work.append(d)
        return seen

    def path(self, start, goal, avoid=(), labels_ok=None):
        """one path (list of node ids) from start to goal avoiding `avoid`, or None"""
        avoid = set(avoid)
        prev = {start: None}
        work = [start]
        while work:
            n = work.pop(0)
            for d, lab in self.succ[n]:
                if labels_ok is not None and not labels_ok(n, d, lab):
                    continue
                if d in avoid or d in prev:
                    continue
                prev[d] = n
                if d == goal:
                    out = [d]
                    while prev[out[-1]] is not None:
                        out.append(prev[out[-1]])
                    return list(reversed(out))
                work.append(d)
        return None

    def dominators(self):
        """id -> set of dominators (iterative; graphs are tiny)"""
        ids = list(self.nodes)
        dom = {n: set(ids) for n in ids}
        dom[ENTRY] = {ENTRY}
        changed = True
        while changed:
            changed = False
            for n in ids:
                if n == ENTRY:
                    continue
                preds = [p for p, _ in self.pred[n]]
                if not preds:
                    new = {n}
                else:
                    new = set.intersection(*[dom[p] for p in preds]) | {n}
                if new != dom[n]:
                    dom[n] = new
                    changed = True
        return dom

    def describe(self, ids):
        return ['%s:%s %s' % (self.nodes[i].kind, self.nodes[i].lineno, self.nodes[i].label[:60]) for i in ids]


_CACHE = {}


def cfg_of(fi):
    c = _CACHE.get(id(fi.node))
    if c is None:
        c = _CACHE[id(fi.node)] = CFG(fi.node)
    return c


def edge_implies(test, label, pos=(), neg=()):
    """True when following the `label` ('true' / 'false') edge out of the test expression forces FACT, where `pos` are the
    normalised texts of expressions equivalent to FACT and `neg` those equivalent to its negation.  Conjunctions pass the
    true edge down, disjunctions the false edge, `not` swaps them."""
    from .src import norm
    if label not in ('true', 'false'):
        return False
    t = norm(test)
    if label == 'true' and t in pos:
        return True
    if label == 'false' and t in neg:
        return True
    if isinstance(test, ast.UnaryOp) and isinstance(test.op, ast.Not):
        return edge_implies(test.operand, 'false' if label == 'true' else 'true', pos, neg)
    if isinstance(test, ast.BoolOp):
        if isinstance(test.op, ast.And) and label == 'true':
            return any(edge_implies(v, 'true', pos, neg) for v in test.values)
        if isinstance(test.op, ast.Or) and label == 'false':
            return any(edge_implies(v, 'false', pos, neg) for v in test.values)
    return False


def len_implied(test, label, var, k):
    """True when following the `label` edge out of `test` forces len(var) > k (k >= 0), so that var[k] cannot raise.
    Understands ==, !=, <, <=, >, >=, chained comparisons and `in (consts)` on len(var), truthiness of var (k == 0),
    and / or / not."""
    from .src import norm
    if label not in ('true', 'false'):
        return False
    L = 'len(%s)' % var
    if isinstance(test, ast.UnaryOp) and isinstance(test.op, ast.Not):
        return len_implied(test.operand, 'false' if label == 'true' else 'true', var, k)
    if isinstance(test, ast.BoolOp):
        if isinstance(test.op, ast.And) and label == 'true':
            return any(len_implied(v, 'true', var, k) for v in test.values)
        if isinstance(test.op, ast.Or) and label == 'false':
            return any(len_implied(v, 'false', var, k) for v in test.values)
        return False
    if norm(test) in (var, L):
        return label == 'true' and k == 0
    if not isinstance(test, ast.Compare):
        return False
    terms = [test.left] + list(test.comparators)

    def const(n):
        try:
            v = ast.literal_eval(n)
        except Exception:
            return None
        return v if isinstance(v, int) and not isinstance(v, bool) else None
    lo = None     # a proven lower bound on len(var) along this edge
    if len(test.ops) == 1:
        a, op, b = terms[0], test.ops[0], terms[1]
        if norm(a) == L:
            c = const(b)
            if c is not None:
                if label == 'true':
                    lo = {ast.Eq: c, ast.Gt: c + 1, ast.GtE: c}.get(type(op))
                else:
                    lo = {ast.NotEq: c, ast.Lt: c, ast.LtE: c + 1}.get(type(op))
            elif isinstance(op, ast.In) and label == 'true' and isinstance(b, (ast.Tuple, ast.List, ast.Set)):
                cs = [const(e) for e in b.elts]
                if cs and all(x is not None for x in cs):
                    lo = min(cs)
        elif norm(b) == L:
            c = const(a)
            if c is not None:
                if label == 'true':
                    lo = {ast.Eq: c, ast.Lt: c + 1, ast.LtE: c}.get(type(op))
                else:
                    lo = {ast.NotEq: c, ast.Gt: c, ast.GtE: c + 1}.get(type(op))
    elif label == 'true':
        # chained: every link holds
        for i, op in enumerate(test.ops):
            a, b = terms[i], terms[i + 1]
            if norm(b) == L and const(a) is not None:
                c = const(a)
                v = {ast.Lt: c + 1, ast.LtE: c, ast.Eq: c}.get(type(op))
                lo = v if lo is None or (v is not None and v > lo) else lo
            if norm(a) == L and const(b) is not None:
                c = const(b)
                v = {ast.Gt: c + 1, ast.GtE: c, ast.Eq: c}.get(type(op))
                lo = v if lo is None or (v is not None and v > lo) else lo
    return lo is not None and lo > k
