"""C04 -- validate() accepts conforming messages and pinpoints each structural defect (partial: purity, verdict
plumbing, liveness of every check, satisfiable cardinalities; the verdict as a function of the message is declined)."""
import ast

from .. import ctx as ctxmod
from .. import tables
from ..src import own_nodes, norm
from ..report import AnalysisError
from . import tablerules, treefacts as tf
from .c11 import READ_WRITE_ALLOW


def purity(chk, c, rule, entries, what):
    fx, cg, ix = c.fx, c.cg, c.index
    ce = ix.func('core.ElementList.create_element')
    reach = cg.reachable_cs(entries, stop=lambda fq: fq == ce.qualname)
    creators = sorted(f for f in cg.callers.get(ce.qualname, ()) if f in reach)
    for fq in creators:
        ok = fq in tf.lazy_creators(c)     # shadow-channel creation on navigation (lemmas of C11): traversal_parent=True only
        chk.ob(rule, '%s may create an element during %s' % (fq, what), ok,
               '' if ok else 'an observation can create elements outside the shadow channel; call chain: %s' % ' ; '.join(
                   cg.path_to(fq)[-5:]), ix.functions[fq].loc, key='%s|creator|%s' % (rule, fq))
    reach.discard(ce.qualname)
    n = 0
    for fq in sorted(reach):
        for w in fx.writes.get(fq, ()):
            f = tf.field_of(w.loc)
            shared = fx.resolve_shared(w)
            if f is None and not shared:
                continue
            if fq.endswith('.__init__') and isinstance(w.node, ast.Attribute) and norm(w.node.value) == 'self' and not shared:
                continue
            n += 1
            if f is not None and f in READ_WRITE_ALLOW and not shared:
                chk.ok(rule, '%s writes %s.%s' % (fq, f[0].split('.')[-1], f[1]), 'allowed: ' + READ_WRITE_ALLOW[f],
                       w.where(), key='%s|%s|%s' % (rule, fq, f[1]))
                continue
            path = cg.path_to(fq)
            chk.fail(rule, '%s writes %s' % (fq, '%s.%s' % (f[0].split('.')[-1], f[1]) if f else sorted(shared)),
                     '%s reaches `%s` (%s): the observation changes the element; call chain: %s' % (
                         what, w.text, w.how, ' ; '.join(path[-4:])), w.where(),
                     key='%s|%s|%s' % (rule, fq, f[1] if f else 'shared'))
    chk.count('functions reachable from %s' % what, len(reach))
    return len(reach)


def run(chk):
    c = ctxmod.get()
    ix, cg, te = c.index, c.cg, c.te
    chk.rule('C04-E', 'validate() is a pure observation: it and everything it reaches write nothing but the allow-listed '
                      'memo fields and create no element')
    chk.rule('C04-V', 'verdict plumbing: is_valid, the raised error and the report are all derived from the one error list '
                      'that the checks fill')
    chk.rule('C04-R', 'every check closure is live (reachable from _is_valid) and reports with the right class')
    tablerules_rule = 'C04-C'

    vv = ix.func('validation.Validator.validate')
    n = purity(chk, c, 'C04-E', ['validation.Validator.validate', 'core.Element.validate'], 'validate()')
    chk.floor('functions reachable from validate()', n, 25)

    # ---- S: what the validator counts are the real children only
    chk.rule('C04-S', 'nothing the validator reaches consults the shadow (traversal) index except the lazy-creation code: children '
                      'that exist only because somebody navigated to them must not count as present')
    from . import c10
    reach_v = cg.reachable_cs(['validation.Validator.validate'])
    ns = 0
    for fq in sorted(reach_v):
        fi = ix.functions[fq]
        for n_ in own_nodes(fi.node):
            if isinstance(n_, ast.Attribute) and n_.attr in ('traversal_indexes', 'traversal_list'):
                ns += 1
                table = c10.SHADOW_READERS if n_.attr == 'traversal_indexes' else \
                    set(c10.TRAVERSAL_LIST_USERS) | tf.lazy_creators(c)
                ok = fq in table
                chk.ob('C04-S', '%s reads %s' % (fq, n_.attr), ok,
                       '' if ok else 'validate() reaches a function that looks at shadow children: after a mere read below a missing '
                       'required child the validator sees it as present', '%s:%d' % (fi.module.relpath, n_.lineno),
                       key='C04-S|%s|%s' % (fq, n_.attr))
    chk.count('shadow-index reads reachable from validate()', ns)

    # ---- V
    isv = vv.nested.get('_is_valid')
    if isv is None:
        raise AnalysisError('validator closure _is_valid not found')
    root_calls = [n_ for n_ in own_nodes(vv.node) if isinstance(n_, ast.Call) and norm(n_.func) == '_is_valid']
    if len(root_calls) != 1 or len(root_calls[0].args) < 4:
        raise AnalysisError('Validator.validate: the root call _is_valid(element, reference, errors, warnings) was not found')
    L, Wn = norm(root_calls[0].args[2]), norm(root_calls[0].args[3])
    for name in (L, Wn):
        init = [a for a in own_nodes(vv.node) if isinstance(a, ast.Assign) and norm(a.targets[0]) == name]
        ok = len(init) == 1 and isinstance(init[0].value, ast.List) and not init[0].value.elts
        chk.ob('C04-V', '`%s` starts as a fresh empty list and is bound once' % name, ok,
               '%d assignment(s) to %s' % (len(init), name), vv.loc, key='C04-V|init|%s' % name)
    eaw = [n_ for n_ in own_nodes(vv.node) if isinstance(n_, ast.Call) and norm(n_.func) == 'ErrorsAndWarnings']
    ok = False
    detail = 'no ErrorsAndWarnings(...) construction'
    if eaw:
        kw = {k.arg: norm(k.value) for k in eaw[0].keywords}
        pos = [norm(a) for a in eaw[0].args]
        iv = kw.get('is_valid', pos[0] if pos else None)
        er = kw.get('errors', pos[1] if len(pos) > 1 else None)
        wa = kw.get('warnings', pos[2] if len(pos) > 2 else None)
        ok = iv in ('not %s' % L, 'len(%s) == 0' % L) and er == L and wa == Wn
        detail = 'is_valid=%s errors=%s warnings=%s' % (iv, er, wa)
    chk.ob('C04-V', 'return_errors: is_valid = not errors, errors and warnings are the filled lists', ok, detail, vv.loc,
           key='C04-V|report-tuple')
    raises = [n_ for n_ in own_nodes(vv.node) if isinstance(n_, ast.Raise)]
    ok = len(raises) == 1 and norm(raises[0].exc) == '%s[0]' % L
    from .forwarding import branch_context
    guard = branch_context(raises[0]) if raises else ''
    ok = ok and guard in ('%s [true]' % L, 'len(%s) > 0 [true]' % L)
    chk.ob('C04-V', 'the raising form raises exactly the first reported error', ok,
           'raise statements: %s under `%s`' % ([norm(r) for r in raises], guard), vv.loc, key='C04-V|raise-first')
    rets = [n_ for n_ in own_nodes(vv.node) if isinstance(n_, ast.Return)]
    ok = any(isinstance(r.value, ast.Constant) and r.value.value is True for r in rets)
    g_ok = True
    # `return True` must come after the raise guard
    chk.ob('C04-V', 'without errors the raising form returns True', ok, '', vv.loc, key='C04-V|return-true')
    # report writing: wherever lines are written (validate itself, or a closure called with the two lists), a block writes the
    # errors first, then the warnings, with one template each; both ways of writing (file object / path) reach such a block
    def line_template(loop):
        out = []
        for x in ast.walk(loop):
            if isinstance(x, ast.JoinedStr):
                out.append(''.join(v.value if isinstance(v, ast.Constant) else '{}' for v in x.values))
            elif isinstance(x, ast.Constant) and isinstance(x.value, str) and ('{}' in x.value or '%s' in x.value):
                out.append(x.value.replace('%s', '{}'))
        return tuple(out)

    def report_blocks(fnode, roles):
        """roles: local name -> 'E' / 'W'.  -> [(block statements, [(role, templates)])] for every statement list with loops"""
        res = []
        for n in own_nodes(fnode) if not isinstance(fnode, list) else ():
            pass
        stack = [fnode.body]
        while stack:
            blk = stack.pop()
            seq = []
            for st_ in blk:
                if isinstance(st_, (ast.FunctionDef, ast.ClassDef)):
                    continue
                if isinstance(st_, ast.For) and norm(st_.iter) in roles:
                    seq.append((roles[norm(st_.iter)], line_template(st_)))
                for fld in ('body', 'orelse', 'finalbody'):
                    sub = getattr(st_, fld, None)
                    if isinstance(sub, list) and sub and isinstance(sub[0], ast.stmt):
                        stack.append(sub)
                for h in getattr(st_, 'handlers', []) or []:
                    stack.append(h.body)
            if seq:
                res.append((blk, seq))
        return res
    blocks = report_blocks(vv.node, {L: 'E', Wn: 'W'})
    writers = {}      # closure name -> its block signature
    for name_, f2 in vv.nested.items():
        calls_ = [n_ for n_ in own_nodes(vv.node) if isinstance(n_, ast.Call) and isinstance(n_.func, ast.Name) and n_.func.id == name_]
        if not calls_:
            continue
        params_ = [a_.arg for a_ in f2.node.args.args]
        roles_ = {}
        consistent = True
        for cl in calls_:
            for i_, a_ in enumerate(cl.args):
                if i_ < len(params_) and norm(a_) in (L, Wn):
                    r_ = 'E' if norm(a_) == L else 'W'
                    if roles_.get(params_[i_], r_) != r_:
                        consistent = False
                    roles_[params_[i_]] = r_
        if roles_ and consistent:
            bl = report_blocks(f2.node, roles_)
            if bl:
                writers[name_] = bl
    sigs = [tuple(seq) for _, seq in blocks]
    for name_, bl in writers.items():
        sigs += [tuple(seq) for _, seq in bl]
    good_sig = len(set(sigs)) == 1 and sigs and [r_ for r_, _ in sigs[0]] == ['E', 'W'] and \
        all(len(t_) == 1 for _, t_ in sigs[0]) and sigs[0][0][1] != sigs[0][1][1]
    # both ways of writing reach a writer: the handler of AttributeError (path given) and the else branch (file object given)
    ways = []
    for n_ in own_nodes(vv.node):
        if isinstance(n_, ast.Try) and any(h.type is not None and 'AttributeError' in norm(h.type) for h in n_.handlers):
            for part in ([h.body for h in n_.handlers] + [n_.orelse]):
                has = any(blk is part or any(blk is getattr(x, 'body', None) for st_ in part for x in ast.walk(st_))
                          for blk, _ in blocks) or \
                    any(isinstance(x, ast.Call) and isinstance(x.func, ast.Name) and x.func.id in writers
                        for st_ in part for x in ast.walk(st_))
                ways.append(has)
    ok = good_sig and len(ways) == 2 and all(ways)
    chk.ob('C04-V', 'both report branches list the errors then the warnings with the same templates', ok,
           'writer signatures: %s; ways reaching a writer: %s' % (sorted(set(sigs))[:3], ways), vv.loc, key='C04-V|report-file')

    # ---- R
    closures = sorted(k for k in vv.nested if k.startswith('_check_'))
    chk.floor('validator check closures', len(closures), 6)
    reach = cg.reachable([isv.qualname])
    for k in closures:
        fq = vv.nested[k].qualname
        ok = fq in reach
        chk.ob('C04-R', '%s is reachable from _is_valid' % k, ok, 'the check exists but nothing calls it any more',
               vv.nested[k].loc, key='C04-R|live|%s' % k)
    # the root _is_valid must dispatch unknown / Z / known elements
    called = {t.func.name for s in cg.sites[isv.qualname] for t in s.targets if t.kind == 'func'}
    for need in ('_check_z_element', '_check_known_element', 'is_unknown'):
        chk.ob('C04-R', '_is_valid dispatches to %s' % need, need in called, '', isv.loc, key='C04-R|dispatch|%s' % need)
    napp = 0
    for sub in vv.nested.values():
        for n_ in own_nodes(sub.node):
            if isinstance(n_, ast.Call) and isinstance(n_.func, ast.Attribute) and n_.func.attr == 'append' and \
                    isinstance(n_.func.value, ast.Name) and n_.func.value.id in ('errs', 'warns') and n_.args:
                napp += 1
                want = 'ValidationError' if n_.func.value.id == 'errs' else 'ValidationWarning'
                got = norm(n_.args[0].func) if isinstance(n_.args[0], ast.Call) else norm(n_.args[0])
                chk.ob('C04-R', '%s appends a %s to %s' % (sub.name, want, n_.func.value.id), got == want,
                       'appends %s' % got, '%s:%d' % (sub.module.relpath, n_.lineno),
                       key='C04-R|class|%s|%d' % (sub.name, napp))
    chk.floor('error/warning report sites', napp, 8)
    # recursion: children of a known element are validated
    ck = vv.nested.get('_check_known_element')
    rec = [s for s in cg.sites[ck.qualname] if any(t.kind == 'func' and t.func is isv for t in s.targets)]
    chk.ob('C04-R', '_check_known_element recurses into the children', len(rec) >= 2, '%d recursive call(s)' % len(rec),
           ck.loc, key='C04-R|recursion')
    # the missing-required / limit-exceeded / invalid-children / unknown-element messages exist
    texts = ' '.join(x.value for sub in vv.nested.values() for x in ast.walk(sub.node)
                     if isinstance(x, ast.Constant) and isinstance(x.value, str))
    for frag in ('Missing required child', 'Child limit exceeded', 'Invalid children detected', 'Unknown element found'):
        chk.ob('C04-R', 'the validator reports "%s"' % frag, frag in texts, '', vv.loc, key='C04-R|msg|%s' % frag)

    # ---- P: the structural checks are not skipped on any path
    chk.rule('C04-P', 'inside the validator no path skips a structural check: for a sequence/choice reference the allowed-children '
                      'test and the loop over the required children are reached on every path; for a leaf the datatype check is '
                      'reached except for `varies`; unknown elements are reported before anything else')
    from ..cfg import cfg_of, ENTRY, EXIT, RAISE
    g = cfg_of(ck)
    seq_if = None
    for n_ in own_nodes(ck.node):
        if isinstance(n_, ast.If) and norm(n_.test).startswith('ref[0] in ('):
            seq_if = n_
    if seq_if is None:
        raise AnalysisError('_check_known_element: the sequence/choice branch was not found')
    tnode = g.node_of_ast.get(id(seq_if))
    seq_entry = [d for d, lab in g.succ[tnode] if lab == 'true']
    leaf_entry = [d for d, lab in g.succ[tnode] if lab == 'false']
    normal = lambda a, b, lab: not (lab == 'exc' and b == RAISE)

    def must_pass(entries, targets, what, key, allow_conditions=()):
        bad = None
        for e in entries:
            if e in targets:
                continue
            def ok_edge(a, b, lab):
                if not normal(a, b, lab):
                    return False
                nd = g.nodes[a]
                if nd.kind == 'test' and lab == 'true' and norm(nd.ast) in allow_conditions:
                    return False
                return True
            reach = g.reach(e, avoid=targets, labels_ok=ok_edge)
            if EXIT in reach:
                pth = g.path(e, EXIT, avoid=targets, labels_ok=ok_edge) or []
                bad = g.describe(pth[:4])
        chk.ob('C04-P', what, bad is None, '' if bad is None else 'the check can be skipped: ... %s' % ' -> '.join(bad), ck.loc, key=key)
    loops_ = [nid for nid, nd in g.nodes.items() if nd.kind == 'for' and 'valid_children_refs' in nd.label]
    inval = [nid for nid, nd in g.nodes.items() if nd.kind == 'test' and 'element_children <= valid_children' in nd.label]
    if not loops_ or not inval:
        raise AnalysisError('_check_known_element: children loop / allowed-children test not found')
    must_pass(seq_entry, set(inval), 'sequence branch: the allowed-children test is reached on every path', 'C04-P|allowed-children')
    must_pass(seq_entry, set(loops_), 'sequence branch: the loop over the declared children is reached on every path', 'C04-P|children-loop')
    rep_calls = [nid for nid, nd in g.nodes.items() if nd.kind == 'stmt' and '_check_repetitions(' in nd.label]
    body_entry = [d for l_ in loops_ for d, lab in g.succ[l_] if lab == 'iter']
    # inside the loop: the repetition check is reached unless the child lookup itself raised (existing `except Exception: pass`)
    handlers = {nid for nid, nd in g.nodes.items() if nd.kind == 'handler'}
    bad = None
    for e in body_entry:
        reach = g.reach(e, avoid=set(rep_calls) | handlers | set(loops_), labels_ok=normal)
        if EXIT in reach:
            bad = 'loop body can leave the function without checking the cardinality'
    back = any(l_ in g.reach(e, avoid=set(rep_calls) | handlers, labels_ok=normal) for e in body_entry for l_ in loops_)
    chk.ob('C04-P', 'each declared child has its cardinality checked', bad is None and not back and bool(rep_calls),
           bad or ('an iteration can finish without calling _check_repetitions' if back else ''), ck.loc, key='C04-P|cardinality')
    dt_calls = {nid for nid, nd in g.nodes.items() if nd.kind == 'stmt' and '_check_datatype(' in nd.label}
    must_pass(leaf_entry, dt_calls, 'leaf branch: the datatype check is reached (except for varies)', 'C04-P|datatype',
              allow_conditions=("el.datatype == 'varies'",))
    g2 = cfg_of(isv)
    unk = [nid for nid, nd in g2.nodes.items() if nd.kind == 'test' and norm(nd.ast) == 'el.is_unknown()']
    first = [d for d, lab in g2.succ[ENTRY]]
    # skip the docstring-free entry: the first executable node must be the unknown test
    okf = bool(unk) and all(f in unk for f in first)
    chk.ob('C04-P', '_is_valid tests for an unknown element first', okf, '', isv.loc, key='C04-P|unknown-first')
    gz = cfg_of(vv.nested['_check_z_element'])
    zl = [nid for nid, nd in gz.nodes.items() if nd.kind == 'for' and 'el.children' in nd.label]
    chk.ob('C04-P', 'Z-elements have their children validated', bool(zl) and EXIT not in gz.reach(ENTRY, avoid=set(zl) | {nid for nid, nd in gz.nodes.items() if isinstance(nd.ast, ast.Return) and gz.nodes[nid].lineno < gz.nodes[zl[0]].lineno}, labels_ok=normal) if zl else False,
           '', vv.nested['_check_z_element'].loc, key='C04-P|z-children')

    # ---- C
    vts = tables.load_all(ix.root)
    tablerules.c04_cardinalities(chk, vts)

    chk.assume('the verdict of validate() as a function of the message is a run-time result and is not decided')

    chk.rule('C04-A', 'every argument of the validator and of the datatype / factory helpers is used')
    from . import forwarding as _fw
    nd_ = _fw.dead_params(chk, c, 'C04-A', lambda fi: fi.module.name in ('validation', 'factories', 'utils', '__init__', 'base_datatypes', 'mllp') or fi.module.name.endswith('.base_datatypes'))
    chk.floor('parameters examined (C04-A)', nd_, 80)

    chk.rule('C04-D', 'decision structure of the functions this property is anchored in: every effect statement (store, call, return, '
                   'raise) runs under the same combinations of the function\'s elementary tests as in the reviewed tree, and none '
                   'was deleted (reference/decisions.json; compared by meaning, rewritten functions are not compared)')
    from . import guardrules as _gr
    nd2_ = _gr.check_decisions(chk, c, 'C04-D', lambda fq_: fq_.startswith(('validation.',)))
    chk.floor('functions compared with the decision reference (C04-D)', nd2_, 1)
    from . import memo as _memo
    _memo.wire(chk, c, 'C04-M', lambda fi: fi.module.name == 'validation', 'the validator')
