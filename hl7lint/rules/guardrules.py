"""Refusal predicates against the reviewed reference (/verif/reference/guards.json).

For the functions that implement the refusals a property talks about, the condition under which each exception class is
raised (or False is returned) is extracted as a truth table over the function's elementary tests (hl7lint/guards.py) and
compared with the table recorded when the tree was last reviewed:

  * a combination that used to be refused and no longer is  -> the refusal was weakened: violation;
  * a combination that is refused now and was not           -> violation when it can occur without a STRICT test being
    true (TOLERANT must not refuse more than before); a new STRICT-only refusal is reported as information only.

The comparison is on meaning, not spelling: and/or/not structure, branch orientation, temporaries, one-expression helper
predicates and the order of independent tests do not matter.  When the elementary tests themselves were rewritten on both
sides (some vanished and others appeared) the two tables have no common vocabulary; the function is then reported as
`not compared` (information), never as a violation.
"""
import json
import os

from .. import guards
from ..report import AnalysisError

_REF = None
_REF_EV = None
_CUR = {}
_CUR_EV = {}


def reference():
    global _REF
    if _REF is None:
        p = os.path.join(os.path.dirname(os.path.dirname(os.path.dirname(os.path.abspath(__file__)))), 'reference', 'guards.json')
        if not os.path.exists(p):
            raise AnalysisError('reference/guards.json is missing')
        _REF = json.load(open(p))['predicates']
    return _REF


def current(c):
    return _cached(c, 'refusals', lambda index: guards.extract(index, ref=reference()), extra=json.dumps(reference(), sort_keys=True))


_NF = {}


def _none_false(c):
    k = id(c.index)
    if k not in _NF:
        _NF[k] = guards.false_on_none(c.index)
    return _NF[k]


def _show(row):
    return ', '.join('%s%s' % ('' if v else 'not ', a[:50]) for a, v in sorted(row.items()))[:300]


def check(chk, c, rule, funcs, classes=None, what='refusal'):
    """funcs: iterable of function qualnames (or prefixes ending with '*'); classes: exception classes to look at (None = all)"""
    ref = reference()
    cur = current(c)
    names = set()
    for f in funcs:
        if f.endswith('*'):
            names |= {k for k in ref if k.startswith(f[:-1])}
        else:
            names.add(f)
    n = 0
    for fq in sorted(names):
        if fq not in ref:
            continue
        fi = c.index.functions.get(fq)
        for cls, r in sorted(ref[fq].items()):
            if classes is not None and cls not in classes:
                continue
            n += 1
            construct = '%s: %s %s' % (fq, 'raises' if cls != 'return False' else 'returns', cls if cls != 'return False' else 'False')
            key = '%s|%s|%s' % (rule, fq, cls)
            if fi is None:
                chk.info('%s: %s no longer exists (renamed / moved / now inherited): its refusals were not compared' % (rule, fq))
                continue
            loc = fi.loc
            cu = cur.get(fq, {}).get(cls)
            if r is None:
                chk.ok(rule, construct, 'too many elementary tests to tabulate; not compared', loc, key=key)
                continue
            if cu is None and not r['rows']:
                chk.ok(rule, construct, 'was unreachable in the reviewed tree (dead refusal); nothing to keep', loc, key=key)
                continue
            if cu is None:
                moved = _moved_into_helper(c, fq, cls, ref, cur) if cls not in cur.get(fq, {}) else None
                if moved:
                    chk.info('%s: %s/%s now stands in the new helper %s that the function calls; not compared' % (rule, fq, cls, moved))
                    chk.ok(rule, construct, 'not compared: the refusal was extracted into the new function %s' % moved, loc, key=key)
                    continue
                if cls not in cur.get(fq, {}):
                    chk.fail(rule, construct, 'the function no longer %s at all: every input it used to refuse this way is now accepted '
                                              '(or fails differently)' % ('raises %s' % cls if cls != 'return False' else 'returns False'),
                             loc, key=key + '|gone')
                else:
                    chk.info('%s: %s/%s has too many elementary tests now; not compared' % (rule, fq, cls))
                continue
            lost, gained, note = guards.compare(r, cu, none_false=_none_false(c))
            if note:
                chk.info('%s: %s/%s not compared (%s)' % (rule, fq, cls, note))
                chk.ok(rule, construct, 'not compared: ' + note[:120], loc, key=key)
                continue
            if lost:
                chk.fail(rule, construct,
                         'the %s was weakened: %d combination(s) of the function\'s tests that used to be refused are accepted now, '
                         'e.g. when %s' % (what, len(lost), _show(lost[0])), loc, key=key + '|weakened')
                continue
            tolerant_gain = [g_ for g_ in gained if not any(v for a, v in g_.items() if 'is_strict' in a)]
            if tolerant_gain:
                chk.fail(rule, construct,
                         'the %s was extended to %d combination(s) that do not depend on STRICT, e.g. when %s: input that was '
                         'accepted (under TOLERANT too) is refused now' % (what, len(tolerant_gain), _show(tolerant_gain[0])), loc,
                         key=key + '|extended')
                continue
            if gained:
                chk.info('%s: %s/%s refuses %d more combination(s), all under a STRICT test (allowed)' % (rule, fq, cls, len(gained)))
            chk.ok(rule, construct, '%d elementary test(s), %d refusing combination(s)' % (len(cu['atoms']), len(cu['rows'])), loc, key=key)
    return n


def _moved_into_helper(c, fq, cls, ref, cur):
    """qualname of a function that did not exist in the reviewed tree, is called directly by fq and performs the refusal `cls`
    (an extract-function refactoring); None otherwise"""
    try:
        known = set(reference_events())
    except AnalysisError:
        known = set()
    for s_ in c.cg.sites.get(fq, ()):
        if s_.kind != 'call':
            continue
        for t in s_.targets:
            if t.kind == 'func':
                h = t.func.qualname
                if h != fq and h not in ref and h not in known and cls in cur.get(h, {}):
                    return h
    return None


def reference_events():
    global _REF_EV
    if _REF_EV is None:
        p = os.path.join(os.path.dirname(os.path.dirname(os.path.dirname(os.path.abspath(__file__)))), 'reference', 'decisions.json')
        if not os.path.exists(p):
            raise AnalysisError('reference/decisions.json is missing')
        _REF_EV = json.load(open(p))['events']
    return _REF_EV


_MEM = {}


def _cached(c, tag, fn, extra=None):
    """result of an extractor on the tree under analysis; cached in memory and on disk by the digest of the analysed sources
    and of the extractor's own code"""
    import hashlib
    k = (id(c.index), tag)
    if k in _MEM:
        return _MEM[k]
    h = hashlib.sha256()
    for name in sorted(c.index.modules):
        m = c.index.modules[name]
        if name.startswith('v2_') and not name.endswith('base_datatypes'):
            continue
        h.update(name.encode())
        h.update(m.source.encode('utf-8', 'replace'))
    here = os.path.dirname(os.path.dirname(os.path.abspath(__file__)))
    for f in ('guards.py', 'canon.py', 'cfg.py', 'src.py', os.path.join('rules', 'c12.py'), os.path.join('rules', 'pat.py')):
        h.update(open(os.path.join(here, f), 'rb').read())
    if extra is not None:
        h.update(extra.encode())
    cache_dir = os.path.join(os.path.dirname(here), '.cache')
    path = os.path.join(cache_dir, '%s-%s.json' % (tag, h.hexdigest()[:24]))
    res = None
    if os.path.exists(path):
        try:
            res = json.load(open(path))
        except Exception:
            res = None
    if res is None:
        res = fn(c.index)
        try:
            # scratch trees (variants, seeded / benign patches) come and go: only the results for the default tree are kept on disk
            if os.path.abspath(os.environ.get('HL7LINT_REPO', '/repo')) != '/repo':
                raise OSError('scratch tree: memory only')
            os.makedirs(cache_dir, exist_ok=True)
            tmp = path + '.%d.tmp' % os.getpid()
            json.dump(res, open(tmp, 'w'))
            os.replace(tmp, path)
        except Exception:
            pass
    _MEM[k] = res
    return res


def current_events(c):
    return _cached(c, 'decisions', lambda index: guards.extract_events(index, ref=reference_events()),
                   extra=json.dumps(reference_events(), sort_keys=True))


def check_decisions(chk, c, rule, select, what='decision structure'):
    """select(fq) -> bool.  For every selected function of the reference: the set of effect statements (by signature) and,
    for each, the combinations of the function's elementary tests under which it runs.  Reported: a statement whose
    predicate changed while the function's statements are otherwise the same, and statements that vanished without any new
    statement appearing (a deletion).  A function whose statement set changed on both sides was rewritten: not compared."""
    ref = reference_events()
    if chk.tier != 'thorough':
        # the full decision tables are a regression comparison: they also react to simplifications that are equivalent only
        # because of data invariants (a redundant conjunct, dead code), so they are part of the thorough tier only
        chk.info('%s: decision tables are compared in the thorough tier (%d functions in the reference)' % (
            rule, sum(1 for fq in ref if select(fq))))
        return sum(1 for fq in ref if select(fq))
    cur = current_events(c)
    n = 0
    for fq in sorted(ref):
        if not select(fq):
            continue
        fi = c.index.functions.get(fq)
        if fi is None:
            chk.info('%s: %s no longer exists (renamed / moved): not compared' % (rule, fq))
            continue
        r, cu = ref[fq], cur.get(fq, {})
        gone = sorted(s_ for s_ in r if s_ not in cu)
        new = sorted(s_ for s_ in cu if s_ not in r)
        n += 1
        key = '%s|%s' % (rule, fq)
        if gone and new:
            chk.info('%s: %s was rewritten (statements gone %s, new %s): not compared' % (rule, fq, gone[:2], new[:2]))
            chk.ok(rule, '%s: %s' % (fq, what), 'rewritten, not compared', fi.loc, key=key)
            continue
        helpers = set(fi.module.functions) | set(getattr(fi, 'nested', {}) or {}) | \
            (set(fi.outer.nested) if getattr(fi, 'outer', None) is not None else set())
        if gone and all(g_.split(' ', 1)[-1].rstrip('()') in helpers or g_.split(' ', 1)[-1].rstrip('()').lstrip('_') != g_.split(' ', 1)[-1].rstrip('()')
                        and g_.startswith(('call _', 'return _')) and '.' not in g_ for g_ in gone):
            chk.info('%s: %s no longer calls its helper(s) %s (inlined?): not compared' % (rule, fq, gone[:2]))
            chk.ok(rule, '%s: %s' % (fq, what), 'helper calls removed (inlined), not compared', fi.loc, key=key)
            continue
        # control flow by exception replaced by an explicit test (try/except KeyError -> `in` test) or the reverse: the
        # function's vocabulary changed on both sides
        def _atoms(tab):
            return {a for e in tab.values() if e for a in e.get('atoms', ())}
        ra_, ca_ = _atoms(r), _atoms(cu)
        r_raise, c_raise = {a for a in ra_ if a.startswith('raises: ')}, {a for a in ca_ if a.startswith('raises: ')}
        if (r_raise - c_raise and {a for a in ca_ - ra_ if not a.startswith('raises: ')}) or \
                (c_raise - r_raise and {a for a in ra_ - ca_ if not a.startswith('raises: ')}):
            chk.info('%s: %s: a handler-driven decision and an explicit test were exchanged (%s / %s): not compared' % (
                rule, fq, sorted((r_raise - c_raise) | (c_raise - r_raise))[:2], sorted(a for a in (ca_ ^ ra_) if not a.startswith('raises: '))[:2]))
            chk.ok(rule, '%s: %s' % (fq, what), 'handler / explicit test exchanged, not compared', fi.loc, key=key)
            continue
        if gone:
            # extract-function: the statements now stand in a function that did not exist in the reviewed tree and that this one calls
            moved_to = None
            for s_ in c.cg.sites.get(fq, ()):
                for t in (s_.targets if s_.kind == 'call' else ()):
                    if t.kind == 'func' and t.func.qualname not in ref and t.func.qualname != fq:
                        hev = cur.get(t.func.qualname, {})
                        tails = {k_.rsplit('.', 1)[-1] for k_ in hev}
                        if all(g_.rsplit('.', 1)[-1] in tails for g_ in gone):
                            moved_to = t.func.qualname
            if moved_to:
                chk.info('%s: %s: %s now stand(s) in the new function %s that it calls: not compared' % (rule, fq, gone[:2], moved_to))
                chk.ok(rule, '%s: %s' % (fq, what), 'statements extracted into %s, not compared' % moved_to, fi.loc, key=key)
                continue
        if gone:
            chk.fail(rule, '%s: %s' % (fq, what),
                     'statement(s) of the reviewed function are gone and nothing took their place: %s' % ', '.join('`%s`' % g_ for g_ in gone[:3]),
                     fi.loc, key=key + '|gone|' + gone[0][:40])
            continue
        bad = None
        for sig in sorted(r):
            if r[sig] is None or cu.get(sig) is None:
                continue
            if not new and r[sig].get('argc') is not None and cu[sig].get('argc') is not None and \
                    r[sig].get('n') == cu[sig].get('n'):
                if r[sig]['argc'] != cu[sig].get('argc'):
                    bad = ('args', sig, r[sig]['argc'], cu[sig].get('argc'))
                    break
                if r[sig].get('consts') != cu[sig].get('consts'):
                    bad = ('consts', sig, r[sig].get('consts'), cu[sig].get('consts'))
                    break
            if r[sig].get('n') != cu[sig].get('n') and r[sig]['rows'] == cu[sig]['rows'] and r[sig]['atoms'] == cu[sig]['atoms']:
                continue
            lost, gained, note = guards.compare(r[sig], cu[sig], none_false=_none_false(c))
            if note:
                bad = ('note', sig, note)
                break
            if lost or gained:
                bad = ('diff', sig, lost, gained)
                break
        if bad is None:
            chk.ok(rule, '%s: %s' % (fq, what), '%d statement kind(s)' % len(r), fi.loc, key=key)
        elif bad[0] == 'args':
            chk.fail(rule, '%s: %s' % (fq, what),
                     '`%s` passes a different number of arguments than in the reviewed tree (%s -> %s): an argument was dropped or '
                     'added' % (bad[1], bad[2], bad[3]), fi.loc, key=key + '|args|' + bad[1][:40])
        elif bad[0] == 'consts':
            chk.fail(rule, '%s: %s' % (fq, what),
                     '`%s` uses different positions / integer constants than in the reviewed tree (%s -> %s)' % (bad[1], bad[2], bad[3]),
                     fi.loc, key=key + '|consts|' + bad[1][:40])
        elif bad[0] == 'note':
            chk.info('%s: %s / `%s` not compared (%s)' % (rule, fq, bad[1], bad[2]))
            chk.ok(rule, '%s: %s' % (fq, what), 'not compared: ' + bad[2][:100], fi.loc, key=key)
        else:
            _, sig, lost, gained = bad
            ex = (lost or gained)[0]
            chk.fail(rule, '%s: %s' % (fq, what),
                     '`%s` %s, e.g. when %s' % (sig, 'no longer runs in %d combination(s) of the function\'s tests in which it used to' % len(lost)
                                                if lost else 'now also runs in %d combination(s) in which it did not' % len(gained), _show(ex)),
                     fi.loc, key=key + '|' + sig[:40])
    return n

