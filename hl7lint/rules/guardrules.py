"""Refusal predicates against the reviewed reference (/verif/reference/guards.json).

For the functions that implement the refusals a property talks about, the condition under which each exception class is
raised (or False is returned) is extracted as a truth table over the function's elementary tests (hl7lint/guards.py) and
compared with the table recorded when the tree was last reviewed:

  * a combination that used to be refused and no longer is  -> the refusal was weakened: violation;
  * a combination that is refused now and was not           -> violation when it can occur without a STRICT test being
    true (TOLERANT must not refuse more than before); a new STRICT-only refusal is reported as information only.

The comparison is on meaning, not spelling: and/or/not structure, branch orientation, temporaries, one-expression helper
predicates and the order of independent tests do not matter.  When the elementary tests themselves were rewritten on both
sides (some vanished and others appeared) the two tables have no common vocabulary; the function is then reported as
`not compared` (information), never as a violation.
"""
import json
import os

from .. import guards
from ..report import AnalysisError

_REF = None
_CUR = {}


def reference():
    global _REF
    if _REF is None:
        p = os.path.join(os.path.dirname(os.path.dirname(os.path.dirname(os.path.abspath(__file__)))), 'reference', 'guards.json')
        if not os.path.exists(p):
            raise AnalysisError('reference/guards.json is missing')
        _REF = json.load(open(p))['predicates']
    return _REF


def current(c):
    k = id(c.index)
    if k not in _CUR:
        _CUR[k] = guards.extract(c.index)
    return _CUR[k]


def _show(row):
    return ', '.join('%s%s' % ('' if v else 'not ', a[:50]) for a, v in sorted(row.items()))[:300]


def check(chk, c, rule, funcs, classes=None, what='refusal'):
    """funcs: iterable of function qualnames (or prefixes ending with '*'); classes: exception classes to look at (None = all)"""
    ref = reference()
    cur = current(c)
    names = set()
    for f in funcs:
        if f.endswith('*'):
            names |= {k for k in ref if k.startswith(f[:-1])}
        else:
            names.add(f)
    n = 0
    for fq in sorted(names):
        if fq not in ref:
            continue
        fi = c.index.functions.get(fq)
        for cls, r in sorted(ref[fq].items()):
            if classes is not None and cls not in classes:
                continue
            n += 1
            construct = '%s: %s %s' % (fq, 'raises' if cls != 'return False' else 'returns', cls if cls != 'return False' else 'False')
            key = '%s|%s|%s' % (rule, fq, cls)
            if fi is None:
                chk.info('%s: %s no longer exists (renamed / moved): its refusals were not compared' % (rule, fq))
                continue
            loc = fi.loc
            cu = cur.get(fq, {}).get(cls)
            if r is None:
                chk.ok(rule, construct, 'too many elementary tests to tabulate; not compared', loc, key=key)
                continue
            if cu is None:
                if cls not in cur.get(fq, {}):
                    chk.fail(rule, construct, 'the function no longer %s at all: every input it used to refuse this way is now accepted '
                                              '(or fails differently)' % ('raises %s' % cls if cls != 'return False' else 'returns False'),
                             loc, key=key + '|gone')
                else:
                    chk.info('%s: %s/%s has too many elementary tests now; not compared' % (rule, fq, cls))
                continue
            lost, gained, note = guards.compare(r, cu)
            if note:
                chk.info('%s: %s/%s not compared (%s)' % (rule, fq, cls, note))
                chk.ok(rule, construct, 'not compared: ' + note[:120], loc, key=key)
                continue
            if lost:
                chk.fail(rule, construct,
                         'the %s was weakened: %d combination(s) of the function\'s tests that used to be refused are accepted now, '
                         'e.g. when %s' % (what, len(lost), _show(lost[0])), loc, key=key + '|weakened')
                continue
            tolerant_gain = [g_ for g_ in gained if not any(v for a, v in g_.items() if 'is_strict' in a)]
            if tolerant_gain:
                chk.fail(rule, construct,
                         'the %s was extended to %d combination(s) that do not depend on STRICT, e.g. when %s: input that was '
                         'accepted (under TOLERANT too) is refused now' % (what, len(tolerant_gain), _show(tolerant_gain[0])), loc,
                         key=key + '|extended')
                continue
            if gained:
                chk.info('%s: %s/%s refuses %d more combination(s), all under a STRICT test (allowed)' % (rule, fq, cls, len(gained)))
            chk.ok(rule, construct, '%d elementary test(s), %d refusing combination(s)' % (len(cu['atoms']), len(cu['rows'])), loc, key=key)
    return n
