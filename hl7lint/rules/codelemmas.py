"""Code lemmas shared by C01 and C02: separator agreement of each reader/writer pair, ordinal naming, encoder order,
open-ended segment bookkeeping, MSH-1/MSH-2 pairing, verbatim flow of leaf text."""
import ast

from ..src import own_nodes, norm
from ..report import AnalysisError


def split_keys(fi):
    """encoding_chars keys a parser function splits on"""
    var_key = {}
    for n in own_nodes(fi.node):
        if isinstance(n, ast.Assign) and isinstance(n.value, ast.Subscript) and norm(n.value.value) == 'encoding_chars' and \
                isinstance(n.value.slice, ast.Constant) and isinstance(n.targets[0], ast.Name):
            var_key[n.targets[0].id] = n.value.slice.value
    keys = set()
    for n in own_nodes(fi.node):
        if isinstance(n, ast.Call) and isinstance(n.func, ast.Attribute) and n.func.attr == 'split' and n.args:
            a = n.args[0]
            if isinstance(a, ast.Name) and a.id in var_key:
                keys.add(var_key[a.id])
            elif isinstance(a, ast.Subscript) and norm(a.value) == 'encoding_chars' and isinstance(a.slice, ast.Constant):
                keys.add(a.slice.value)
    return keys


def first_child_class(ix, ci):
    """name of the first value of child_classes for class ci (class constant or the dict assigned in __init__)"""
    cc = None
    for k in ci.mro:
        if 'child_classes' in k.attrs:
            cc = k.attrs['child_classes']
            break
        init = k.methods.get('__init__')
        if init is not None:
            for n in own_nodes(init.node):
                if isinstance(n, ast.Assign) and norm(n.targets[0]) == 'self.child_classes' and isinstance(n.value, ast.Dict):
                    cc = n.value
            if cc is not None:
                break
    if isinstance(cc, ast.Dict) and cc.values and isinstance(cc.values[0], ast.Name):
        return cc.values[0].id
    return None


def separators(chk, c, rule):
    ix = c.index
    chk.rule(rule, 'for every element class, the separator its encoder joins its children with is the separator its children '
                   'parser (child_parser[1]) splits on')
    generic = ix.func('core.Element.to_er7')
    gen_ok = any(isinstance(n, ast.Assign) and norm(n.targets[0]) == 'child_class' and
                 norm(n.value) == 'list(self.child_classes.values())[0]' for n in own_nodes(generic.node)) and \
        any(isinstance(n, ast.Assign) and norm(n.targets[0]) == 'separator' and
            norm(n.value).startswith("encoding_chars.get(child_class.__name__.upper()") for n in own_nodes(generic.node)) and \
        any(isinstance(n, ast.Return) and norm(n.value) == 'separator.join(s)' for n in own_nodes(generic.node))
    n_inst = 0
    for cname in ('Segment', 'Field', 'Component', 'Group', 'Message'):
        ci = ix.cls('core.' + cname)
        cp = ci.find_attr('child_parser')
        if not (isinstance(cp, ast.Tuple) and len(cp.elts) == 2 and isinstance(cp.elts[1], ast.Constant)):
            raise AnalysisError('core.%s.child_parser is not a 2-tuple of names' % cname)
        pf = ix.func('parser.' + cp.elts[1].value)
        pkeys = split_keys(pf)
        te7 = ci.find_method('to_er7')
        if te7 is generic:
            if not gen_ok:
                raise AnalysisError('Element.to_er7: the separator computation was not recognised')
            fc = first_child_class(ix, ci)
            ekeys = {fc.upper()} if fc else set()
        else:
            ekeys = set()
            for n in own_nodes(te7.node):
                if isinstance(n, ast.Call) and norm(n.func) == 'encoding_chars.get' and n.args and isinstance(n.args[0], ast.Constant):
                    var = None
                    p = getattr(n, '_parent', None)
                    if isinstance(p, ast.Assign):
                        var = norm(p.targets[0])
                    # only separators that are actually used in a join
                    if var and any(isinstance(x, ast.Call) and norm(x.func) == var + '.join' for x in own_nodes(te7.node)):
                        ekeys.add(n.args[0].value)
            if te7.qualname == 'core.Field.to_er7':
                fc = first_child_class(ix, ci)
                ekeys = {fc.upper()} if fc else set()
        n_inst += 1
        ok = bool(pkeys) and ekeys == pkeys
        chk.ob(rule, '%s: encoder joins with %s, %s splits on %s' % (cname, sorted(ekeys), pf.qualname, sorted(pkeys)), ok,
               'reader and writer of this level disagree on the separator: parse -> encode cannot be the identity', te7.loc,
               key='%s|%s' % (rule, cname))
    chk.floor('reader/writer pairs', n_inst, 5)


def ordinal_naming(chk, c, rule):
    ix = c.index
    chk.rule(rule, 'the parsers name the i-th piece <prefix>_<i> (enumerate start + addend = 1), i.e. the name the tables give '
                   'that position')
    for fq in ('parser.parse_fields', 'parser.parse_components', 'parser.parse_subcomponents'):
        fi = ix.func(fq)
        loops = [n for n in own_nodes(fi.node) if isinstance(n, ast.For) and isinstance(n.iter, ast.Call) and
                 norm(n.iter.func) == 'enumerate']
        if not loops:
            raise AnalysisError('%s: enumerate loop not found' % fq)
        lp = loops[0]
        start = 0
        if len(lp.iter.args) > 1 and isinstance(lp.iter.args[1], ast.Constant):
            start = lp.iter.args[1].value
        for k in lp.iter.keywords:
            if k.arg == 'start' and isinstance(k.value, ast.Constant):
                start = k.value.value
        counter = norm(lp.target.elts[0]) if isinstance(lp.target, ast.Tuple) else None
        if counter is None:
            raise AnalysisError('%s: enumerate target not recognised' % fq)
        nnames = 0

        def offset_of(idx, counter):
            """idx is `counter` (+ constant) -> the constant; None when it involves the counter otherwise; 'other' when it does
            not involve the counter at all"""
            if isinstance(idx, ast.Name) and idx.id == counter:
                return 0
            if isinstance(idx, ast.BinOp) and isinstance(idx.op, ast.Add):
                if isinstance(idx.left, ast.Name) and idx.left.id == counter and isinstance(idx.right, ast.Constant):
                    return idx.right.value
                if isinstance(idx.right, ast.Name) and idx.right.id == counter and isinstance(idx.left, ast.Constant):
                    return idx.left.value
            if counter not in {x.id for x in ast.walk(idx) if isinstance(x, ast.Name)}:
                return 'other'
            return None

        def scan(root, counter, base, where, depth):
            nonlocal nnames
            for n in ast.walk(root):
                # canonical form of '<prefix>_{i}'.format(..) / '%s_%d' % (..): f'{prefix}_{i}' -- last field after a '_' literal
                if isinstance(n, ast.JoinedStr) and len(n.values) >= 2 and isinstance(n.values[-1], ast.FormattedValue) and \
                        isinstance(n.values[-2], ast.Constant) and str(n.values[-2].value).endswith('_'):
                    add = offset_of(n.values[-1].value, counter)
                    if add == 'other':
                        continue          # a name built from something else than the loop counter
                    nnames += 1
                    ok = add is not None and base is not None and start + base + add == 1
                    chk.ob(rule, '%s: `%s`' % (fq, norm(n)[:60]), ok,
                           'the piece at position i is named with index %s + %s: encode and parse disagree on every position' % (
                               'enumerate-start %d' % start, add if base in (0, None) else '%s + %s' % (base, add)),
                           '%s:%d' % (where.module.relpath, n.lineno),
                           key='%s|%s|%s' % (rule, fq, ''.join(v.value if isinstance(v, ast.Constant) else '{}' for v in n.values)))
                # the counter handed to a helper of the same module that builds the name
                if isinstance(n, ast.Call) and isinstance(n.func, ast.Name) and depth < 2:
                    callee = where.module.functions.get(n.func.id)
                    if callee is None or callee.cls is not None:
                        continue
                    params = [a.arg for a in callee.node.args.args]
                    bound = list(zip(params, n.args)) + [(k.arg, k.value) for k in n.keywords if k.arg]
                    for pname, a in bound:
                        off = offset_of(a, counter)
                        if off == 'other':
                            continue
                        scan(callee.node, pname, (base + off) if (off is not None and base is not None) else None, callee, depth + 1)
        scan(lp, counter, 0, fi, 0)
        if nnames == 0:
            raise AnalysisError('%s: no positional name construction found' % fq)


def encoder_order(chk, c, rule):
    ix = c.index
    chk.rule(rule, 'the encoder emits children in table order: ordered_children is filled only by append in table order and is '
                   'never reordered on the way to the join')
    ps = ix.func('core.ElementFinder._parse_structure')
    appends = [n for n in own_nodes(ps.node) if isinstance(n, ast.Call) and norm(n.func) == 'ordered_children.append']
    loop = [n for n in own_nodes(ps.node) if isinstance(n, ast.For) and norm(n.iter) == 'children']
    src = [norm(n.value) for n in own_nodes(ps.node) if isinstance(n, ast.Assign) and norm(n.targets[0]) == 'children']
    ok = len(appends) == 1 and len(loop) == 1 and any(a is x for a in appends for x in ast.walk(loop[0])) and src == ['reference[1]']
    others = [norm(n)[:50] for n in own_nodes(ps.node) if isinstance(n, ast.Call) and isinstance(n.func, ast.Attribute) and
              norm(n.func.value) == 'ordered_children' and n.func.attr != 'append']
    chk.ob(rule, '_parse_structure appends each child key once, in the order of reference[1]', ok and not others,
           'appends %d, other operations %s' % (len(appends), others), ps.loc, key='%s|fill' % rule)
    goc = ix.func('core.ElementList.get_ordered_children')
    comp = [n for n in own_nodes(goc.node) if isinstance(n, ast.ListComp)]
    ok = len(comp) == 1 and norm(comp[0].generators[0].iter) == 'ordered_keys' and not comp[0].generators[0].ifs and \
        norm(comp[0].elt).startswith('self.indexes.get(')
    chk.ob(rule, 'get_ordered_children maps the keys in order, one slot per key', ok, '', goc.loc, key='%s|map' % rule)
    for fq in ('core.Element._get_children', 'core.Segment._get_children', 'core.Element.to_er7', 'core.Segment.to_er7',
               'core.ElementList.get_ordered_children', 'core._remove_trailing'):
        fi = ix.func(fq)
        def only_counted(call):
            # the reordered sequence only feeds a count: `t = list(takewhile(p, reversed(xs)))` with t used as len(t) only
            st_ = call
            while getattr(st_, '_parent', None) is not None and not isinstance(st_, ast.stmt):
                st_ = st_._parent
            if not (isinstance(st_, ast.Assign) and len(st_.targets) == 1 and isinstance(st_.targets[0], ast.Name)):
                return False
            t_ = st_.targets[0].id
            uses = [x for x in ast.walk(fi.node) if isinstance(x, ast.Name) and x.id == t_ and isinstance(x.ctx, ast.Load)]
            return bool(uses) and all(isinstance(getattr(u, '_parent', None), ast.Call) and norm(u._parent.func) == 'len'
                                      for u in uses)
        bad = [norm(n)[:40] for n in own_nodes(fi.node) if isinstance(n, ast.Call) and (
            (isinstance(n.func, ast.Name) and n.func.id in ('sorted', 'set', 'frozenset', 'reversed') and not only_counted(n)) or
            (isinstance(n.func, ast.Attribute) and n.func.attr in ('sort', 'reverse', 'insert')))]
        chk.ob(rule, '%s does not reorder' % fq, not bad, 'reordering: %s' % bad, fi.loc, key='%s|%s' % (rule, fq))
    rt = ix.func('core._remove_trailing')
    rp = rt.params[0]
    rebinds = [n.value for n in own_nodes(rt.node) if isinstance(n, ast.Assign) and norm(n.targets[0]) == rp]
    # every rebinding keeps a prefix (children[:k]); what is cut is tested for emptiness (`not x`)
    ok = bool(rebinds) and all(isinstance(v, ast.Subscript) and norm(v.value) == rp and isinstance(v.slice, ast.Slice) and
                               v.slice.lower is None and v.slice.step is None for v in rebinds) and \
        any(isinstance(n, ast.UnaryOp) and isinstance(n.op, ast.Not) for n in ast.walk(rt.node)) and \
        all(norm(r.value) == rp for r in own_nodes(rt.node) if isinstance(r, ast.Return))
    chk.ob(rule, '_remove_trailing only cuts empty slots off the end', ok, '', rt.loc, key='%s|trailing' % rule)
    # Segment.to_er7 keeps one slot per entry (empty string for a missing child): decided on the CFG -- every normal path
    # through one iteration of the loop over _get_children() appends to the list that is joined in the return
    st = ix.func('core.Segment.to_er7')
    ok, why = one_slot_per_child(st)
    he = ix.func('core.Segment._handle_empty_children')
    if not any(isinstance(n, ast.Return) and isinstance(n.value, ast.Constant) and n.value.value == '' for n in own_nodes(he.node)):
        ok, why = False, 'Segment._handle_empty_children does not return the empty string'
    chk.ob(rule, 'Segment.to_er7 emits an empty slot for every missing position', ok, why, st.loc, key='%s|empty-slot' % rule)


def loop_always_hits(g, loop, events):
    """every normal path through one iteration of `loop` (entered by its 'iter' edge) passes through a node of `events`
    before it reaches the loop head again or leaves the loop"""
    h = g.node_of_ast.get(id(loop))
    if h is None:
        return False
    body = {g.node_for(n) for n in ast.walk(loop) if n is not loop and g.node_for(n)} - {h}
    work = [d for d, lab in g.succ[h] if lab == 'iter']
    seen = set()
    while work:
        n = work.pop()
        if n in seen or n in events:
            continue
        seen.add(n)
        if n == h or n not in body:
            return False
        for d, lab in g.succ[n]:
            if lab != 'exc':
                work.append(d)
    return True


def one_slot_per_child(fi):
    """-> (ok, why): the function returns <sep>.join(L) and the loop over self._get_children(..) appends to L on every path"""
    from ..cfg import cfg_of
    joined = None
    for n in own_nodes(fi.node):
        if isinstance(n, ast.Return) and isinstance(n.value, ast.Call) and isinstance(n.value.func, ast.Attribute) and \
                n.value.func.attr == 'join' and len(n.value.args) == 1 and isinstance(n.value.args[0], ast.Name):
            joined = n.value.args[0].id
    if joined is None:
        return False, 'no `return <separator>.join(<list>)` found'
    loops = [n for n in own_nodes(fi.node) if isinstance(n, ast.For) and isinstance(n.iter, ast.Call) and
             norm(n.iter.func) == 'self._get_children']
    if len(loops) != 1:
        return False, 'the loop over self._get_children(...) was not found'
    g = cfg_of(fi)
    events = set()
    for n in ast.walk(loops[0]):
        if isinstance(n, ast.Call) and isinstance(n.func, ast.Attribute) and n.func.attr in ('append', 'extend') and \
                norm(n.func.value) == joined:
            nid = g.node_for(n)
            if nid:
                events.add(nid)
    if not events:
        return False, 'nothing is appended to `%s` inside the loop' % joined
    if not loop_always_hits(g, loops[0], events):
        return False, 'an iteration can finish without appending to `%s`: the position of the following fields shifts' % joined
    return True, ''


def open_ended(chk, c, rule):
    from . import pat
    ix = c.index
    chk.rule(rule, 'open-ended segments (Z-segments, last field of type varies): slots beyond the table are '
                   'range(last_allowed + 1, last_used + 1), named <SEG>_<i>; add() raises last_used to the index added')
    LA, LU = 'self._last_allowed_child_index', 'self._last_child_index'
    gc = ix.func('core.Segment._get_children')
    returned = {norm(r.value) for r in own_nodes(gc.node) if isinstance(r, ast.Return) and r.value is not None}
    ok, why = False, 'no iteration over range(last_allowed + 1, last_used + 1) found'
    iters = []
    for n in own_nodes(gc.node):
        if isinstance(n, ast.ListComp) and len(n.generators) == 1:
            iters.append((n.generators[0].iter, n.generators[0].target, n.elt, n, bool(n.generators[0].ifs)))
        if isinstance(n, ast.For):
            apps = [x for x in ast.walk(n) if isinstance(x, ast.Call) and isinstance(x.func, ast.Attribute) and x.func.attr == 'append']
            if len(apps) == 1 and apps[0].args:
                iters.append((n.iter, n.target, apps[0].args[0], apps[0], False))
    for it, tgt, elt, holder, filtered in iters:
        it = pat.inline_locals(it, gc.node)
        if not (isinstance(it, ast.Call) and norm(it.func) in ('range', 'xrange') and len(it.args) == 2):
            continue
        if pat.plus_one_of(it.args[0]) != LA or pat.plus_one_of(it.args[1]) != LU:
            why = 'the extra slots run over %s, not over range(%s + 1, %s + 1)' % (norm(it)[:70], LA, LU)
            continue
        i = norm(tgt)
        e = pat.inline_locals(elt, gc.node)
        named = [x for x in ast.walk(e) if isinstance(x, ast.JoinedStr) and pat.fshape(x) == '{}_{}' and
                 [norm(a_) for a_ in pat.fargs(x)] == ['self.name', i]]
        looked = isinstance(e, ast.Call) and isinstance(e.func, ast.Attribute) and e.func.attr == 'get' and \
            norm(e.func.value).endswith('.indexes') and e.args and named and e.args[0] is named[0] and \
            (len(e.args) == 1 or (isinstance(e.args[1], ast.Constant) and e.args[1].value is None))
        par = getattr(holder, '_parent', None)
        sink = norm(par.func.value) if isinstance(holder, ast.ListComp) and isinstance(par, ast.Call) and \
            isinstance(par.func, ast.Attribute) and par.func.attr == 'extend' else \
            (norm(holder.func.value) if isinstance(holder, ast.Call) else None)
        if filtered:
            why = 'the extra slots are filtered'
        elif not looked:
            why = 'slot i is not filled with indexes.get(<SEG>_<i>) (`%s`)' % norm(elt)[:60]
        elif sink is None or (sink not in returned and not any(sink in r for r in returned)):
            why = 'the slots are not added to the list that is returned'
        else:
            ok, why = True, ''
    chk.ob(rule, '_get_children emits one slot for each index last_allowed+1 .. last_used', ok, why, gc.loc, key='%s|range' % rule)

    ad = ix.func('core.Segment.add')
    objp = ad.call_params()[0]
    idx_forms = ('int(%s.name[4:])' % objp, "int(%s.name.split('_')[-1])" % objp, "int(%s.name.split('_')[1])" % objp,
                 "int(%s.name.rsplit('_', 1)[1])" % objp, "int(%s.name.rsplit('_', 1)[-1])" % objp)
    ok = False
    for n in own_nodes(ad.node):
        if not (isinstance(n, ast.Assign) and any(norm(t) == LU for t in n.targets)):
            continue
        v = pat.inline_locals(n.value, ad.node)
        # max(last_used, idx)
        if isinstance(v, ast.Call) and norm(v.func) == 'max' and len(v.args) == 2 and \
                sorted(norm(a_) for a_ in v.args)[0] in idx_forms + (LU,) and {norm(a_) for a_ in v.args} & set(idx_forms) and \
                LU in {norm(a_) for a_ in v.args}:
            ok = True
        # if idx > last_used: last_used = idx
        if norm(v) in idx_forms:
            p_ = n
            while getattr(p_, '_parent', None) is not None and p_ is not ad.node:
                par = p_._parent
                if isinstance(par, ast.If) and p_ in par.body:
                    for t in pat.conjuncts(par.test):
                        t2 = pat.inline_locals(t, ad.node)
                        if isinstance(t2, ast.Compare) and len(t2.ops) == 1:
                            l_, r_ = norm(t2.left), norm(t2.comparators[0])
                            if (isinstance(t2.ops[0], ast.Gt) and l_ in idx_forms and r_ == LU) or \
                                    (isinstance(t2.ops[0], ast.Lt) and r_ in idx_forms and l_ == LU):
                                ok = True
                p_ = par
    chk.ob(rule, 'add() raises last_used to the suffix of the added field iff greater', ok, '', ad.loc, key='%s|add' % rule)

    ini = ix.func('core.Segment.__init__')
    assigns = {}
    for n in own_nodes(ini.node):
        if isinstance(n, ast.Assign):
            for t in n.targets:
                assigns.setdefault(norm(t), []).append(norm(pat.inline_locals(n.value, ini.node)))
    LAST = 'self.structure_by_name[self.ordered_children[-1]]'
    la, lu = set(assigns.get(LA, [])), set(assigns.get(LU, []))
    ok = la == {"int(%s['name'][4:])" % LAST, '0'} and lu <= {"int(%s['name'][4:])" % LAST, LA, '0'} and '0' in lu and len(lu) == 2
    chk.ob(rule, '__init__ starts both bounds at the suffix of the last table field (0 for Z-segments)', ok,
           'last_allowed <- %s, last_used <- %s' % (sorted(la), sorted(lu)), ini.loc, key='%s|init' % rule)
    fl = set(assigns.get('self.allow_infinite_children', []))
    ok = fl == {"%s['ref'][2] == 'varies'" % LAST, 'True'}
    chk.ob(rule, 'a segment is open-ended iff it is a Z-segment or its last field is varies', ok, 'flag <- %s' % sorted(fl),
           ini.loc, key='%s|flag' % rule)
    fcr = ix.func('core.Segment.find_child_reference')
    ok = any(isinstance(n, ast.If) and {norm(t) for t in pat.conjuncts(n.test)} ==
             {'self.allow_infinite_children', '_valid_child_name(name, self.name)'} for n in own_nodes(fcr.node))
    chk.ob(rule, 'fields beyond the table are accepted only when named <SEG>_<n>', ok, '', fcr.loc, key='%s|names' % rule)


def msh_pairing(chk, c, rule):
    from . import pat
    ix = c.index
    chk.rule(rule, 'MSH-1/MSH-2: the parser inserts an MSH_1 field holding the field separator and does not split MSH_2 on the '
                   'repetition separator; the encoder removes slot 1 again and emits MSH-1/MSH-2 raw; both strip 3 characters for MSH')
    pf = ix.func('parser.parse_fields')
    ecp = 'encoding_chars'
    fsep = pat.vars_assigned_from(pf.node, ("%s['FIELD']" % ecp, "%s.get('FIELD')" % ecp)) | {"%s['FIELD']" % ecp}
    rsep = pat.vars_assigned_from(pf.node, ("%s['REPETITION']" % ecp, "%s.get('REPETITION')" % ecp)) | {"%s['REPETITION']" % ecp}
    # (a) a branch that holds exactly for MSH_1 hands the field separator itself to parse_field
    ok1 = False
    for _, blk in pat.blocks_when(pf.node, pat.is_member_test(consts=['MSH_1'], exact=True)):
        for call in pat.calls_in(blk, name='parse_field'):
            if call.args and norm(call.args[0]) in fsep:
                ok1 = True
    chk.ob(rule, 'parse_fields inserts MSH_1 = field separator', ok1,
           'no branch for the name MSH_1 passes the field separator to parse_field', pf.loc, key='%s|insert' % rule)
    # (b) the branch for MSH_2 parses the piece unsplit
    ok2 = False
    why2 = 'no branch for the name MSH_2'
    for _, blk in pat.blocks_when(pf.node, pat.is_member_test(consts=['MSH_2'], exact=True),
                                  pat.is_nonmember_test(consts=['MSH_2'])):
        splits = [x for x in pat.calls_in(blk, attr='split') if x.args and norm(x.args[0]) in rsep]
        passes = [x for x in pat.calls_in(blk, name='parse_field') if x.args and isinstance(x.args[0], ast.Name)]
        ok2 = not splits and bool(passes)
        why2 = 'the MSH_2 branch splits on the repetition separator' if splits else 'the MSH_2 branch does not parse the piece'
    chk.ob(rule, 'parse_fields does not split MSH_2 on the repetition separator', ok2, '' if ok2 else why2, pf.loc,
           key='%s|msh2' % rule)
    # (c) the encoder drops slot 1 of the list it joins, for MSH only
    st = ix.func('core.Segment.to_er7')
    joined = None
    for n in own_nodes(st.node):
        if isinstance(n, ast.Return) and isinstance(n.value, ast.Call) and isinstance(n.value.func, ast.Attribute) and \
                n.value.func.attr == 'join' and len(n.value.args) == 1 and isinstance(n.value.args[0], ast.Name):
            joined = n.value.args[0].id
    ok3 = False
    for _, blk in pat.blocks_when(st.node, pat.is_member_test(var='self.name', consts=['MSH'], exact=True)):
        ok3 = ok3 or any(norm(b) in ('%s.pop(1)' % joined, 'del %s[1]' % joined) for b in blk)
    chk.ob(rule, 'Segment.to_er7 removes the MSH_1 slot', ok3, 'no `<joined list>.pop(1)` under `self.name == \'MSH\'`',
           st.loc, key='%s|pop' % rule)
    # (d) Field.to_er7 has a raw branch for each of the two delimiter fields
    ft = ix.func('core.Field.to_er7')
    named = set()
    for n in ast.walk(ft.node):
        if isinstance(n, ast.Call) and norm(n.func) == 'self.is_named' and n.args and isinstance(n.args[0], ast.Constant):
            named.add(n.args[0].value)
        m = pat.membership(n) if isinstance(n, ast.Compare) else None
        if m and m[0] == 'self.name':
            named |= set(m[1])
    ok4 = {'MSH_1', 'MSH_2'} <= named
    chk.ob(rule, 'Field.to_er7 emits MSH-1/MSH-2 raw (unescaped)', ok4, 'tests for %s only' % sorted(named), ft.loc,
           key='%s|raw' % rule)
    # (e) both splitters cut 3 characters off an MSH line and 4 off any other
    for fq in ('parser.parse_segment', 'core.Segment.parse_children'):
        fi = ix.func(fq)
        ok = False
        for t, _tgt, a_, b_ in pat.choice_assignments(fi.node):
            m = pat.membership(t)
            if m and m[1] == frozenset(['MSH']) and isinstance(a_, ast.Subscript) and isinstance(b_, ast.Subscript) and \
                    norm(a_.value) == norm(b_.value) and norm(a_.slice) == '3:' and norm(b_.slice) == '4:':
                ok = True
        chk.ob(rule, '%s strips 3 characters for MSH and 4 otherwise' % fq, ok, '', fi.loc, key='%s|strip|%s' % (rule, fq))
    # (f) parse_field keeps the two delimiter fields as one unsplit ST value
    pfd = ix.func('parser.parse_field')
    ok = False
    for _, blk in pat.blocks_when(pfd.node, pat.is_member_test(consts=['MSH_1', 'MSH_2'], exact=True),
                                  pat.is_nonmember_test(consts=['MSH_1', 'MSH_2'])):
        textp = pfd.call_params()[0]
        for call in pat.calls_in(blk, name='SubComponent'):
            kw = {k.arg: k.value for k in call.keywords}
            if 'value' in kw and norm(kw['value']) == textp and 'datatype' in kw and isinstance(kw['datatype'], ast.Constant) \
                    and kw['datatype'].value == 'ST':
                ok = True
        ok = ok and not pat.calls_in(blk, attr='split') and not pat.calls_in(blk, name='parse_components')
    chk.ob(rule, 'parse_field stores MSH-1/MSH-2 as one unsplit ST value', ok, '', pfd.loc, key='%s|unsplit' % rule)


def verbatim_flow(chk, c, rule):
    ix = c.index
    chk.rule(rule, 'leaf text flows from the message text to SubComponent(value=...) through split / slicing of the segment name / '
                   'strip of a whole segment line only: no piece is stripped, case-folded or rewritten on the way down')
    from .c03 import piece_vars
    chain = [('parser.parse_segments', 'parse_segment', ('{p}.strip()', '{p}')),
             ('parser.parse_fields', 'parse_field', ('{p}',)),
             ('parser.parse_components', 'parse_component', ('{p}',)),
             ('parser.parse_subcomponents', 'parse_subcomponent', ('{p}',))]
    nedges = 0
    for fq, callee, forms in chain:
        fi = ix.func(fq)
        pieces = piece_vars(fi)
        calls = [n for n in own_nodes(fi.node) if isinstance(n, ast.Call) and norm(n.func) == callee]
        if not calls:
            raise AnalysisError('%s no longer calls %s' % (fq, callee))
        for cl in calls:
            a0 = norm(cl.args[0]) if cl.args else None
            okforms = {f.format(p=p) for p in pieces for f in forms}
            if callee == 'parse_field':     # MSH_1: the field separator itself is the value (rule M)
                from . import pat
                okforms |= pat.vars_assigned_from(fi.node, ("encoding_chars['FIELD']", "encoding_chars.get('FIELD')"))
            nedges += 1
            chk.ob(rule, '%s hands `%s` to %s' % (fq, a0, callee), a0 in okforms,
                   'the piece is transformed (`%s`) before it is parsed: the encoded text can differ from the input' % a0,
                   '%s:%d' % (fi.module.relpath, cl.lineno), key='%s|%s|%s' % (rule, fq, a0))
    # the text parameter is not rewritten inside the single-element parsers
    # the text parameter is not rewritten inside the parsers, except: cutting the segment name off (a constant slice, or a
    # conditional choice between two constant slices: rule M decides which) and parse_fields stripping segment terminators
    def harmless(v, fq):
        if isinstance(v, ast.Subscript) and norm(v.value) == 'text' and isinstance(v.slice, ast.Slice) and v.slice.step is None and \
                v.slice.upper is None and isinstance(v.slice.lower, ast.Constant):
            return fq == 'parser.parse_segment'
        if isinstance(v, ast.IfExp):
            return harmless(v.body, fq) and harmless(v.orelse, fq)
        if fq == 'parser.parse_fields' and norm(v) in ("text.strip('\\r')", "text.rstrip('\\r')"):
            return True
        return False
    for fq in ('parser.parse_segment', 'parser.parse_fields', 'parser.parse_field', 'parser.parse_component',
               'parser.parse_subcomponent', 'parser.parse_components', 'parser.parse_subcomponents'):
        fi = ix.func(fq)
        rew = [n.value for n in own_nodes(fi.node) if isinstance(n, ast.Assign) and any(norm(t) == 'text' for t in n.targets)]
        bad = [norm(r) for r in rew if not harmless(r, fq)]
        nedges += 1
        chk.ob(rule, '%s does not rewrite its text' % fq, not bad, 'text is reassigned: %s' % bad, fi.loc, key='%s|%s|text' % (rule, fq))
    for fq, arg in (('parser.parse_field', 'parse_components'), ('parser.parse_component', 'parse_subcomponents'),
                    ('parser.parse_segment', 'parse_fields')):
        fi = ix.func(fq)
        calls = [n for n in own_nodes(fi.node) if isinstance(n, ast.Call) and norm(n.func) == arg]

        def is_text(e, fi=fi, fq=fq):
            # the parameter itself, or a local every assignment of which is one of the harmless cuts of it
            if e is None:
                return False
            if norm(e) == 'text':
                return True
            if isinstance(e, ast.Name):
                vals = [a.value for a in own_nodes(fi.node) if isinstance(a, ast.Assign) and any(norm(t) == e.id for t in a.targets)]
                return bool(vals) and all(harmless(v, fq) for v in vals)
            return False

        def first_arg(cl):
            if cl.args:
                return cl.args[0]
            for k in cl.keywords:
                if k.arg == 'text':
                    return k.value
            return None
        ok = bool(calls) and all(is_text(first_arg(cl)) for cl in calls)
        nedges += 1
        chk.ob(rule, '%s passes its text unchanged to %s' % (fq, arg), ok, '', fi.loc, key='%s|%s|down' % (rule, fq))
    psc = ix.func('parser.parse_subcomponent')
    ok = any(isinstance(n, ast.Call) and norm(n.func) == 'SubComponent' and any(k.arg == 'value' and norm(k.value) == 'text'
                                                                                 for k in n.keywords) for n in own_nodes(psc.node))
    nedges += 1
    chk.ob(rule, 'parse_subcomponent stores the text as the leaf value', ok, '', psc.loc, key='%s|leaf' % rule)
    chk.floor('flow edges checked', nedges, 12)


def _string_ordered_names(fnode):
    """calls that order / take the extremum of child names as *strings* (lexicographic: 'X_10' < 'X_9')"""
    out = []
    for n in ast.walk(fnode):
        if isinstance(n, ast.Call) and ((isinstance(n.func, ast.Name) and n.func.id in ('max', 'min', 'sorted')) or
                                        (isinstance(n.func, ast.Attribute) and n.func.attr == 'sort')):
            args = list(n.args) + [k.value for k in n.keywords if k.arg != 'key']
            key = [k.value for k in n.keywords if k.arg == 'key']
            # a local variable stands for what it was built from
            expanded = []
            for a in args:
                expanded.append(a)
                if isinstance(a, ast.Name):
                    for d in ast.walk(fnode):
                        if isinstance(d, ast.Assign) and any(isinstance(t, ast.Name) and t.id == a.id for t in d.targets):
                            expanded.append(d.value)
            text = ' '.join(norm(a) for a in expanded)
            ktext = ' '.join(norm(k) for k in key)
            names = ('.name' in text or 'indexes' in text or '.keys()' in text or 'ordered_children' in text)
            numeric = 'int(' in text or 'int(' in ktext
            if names and not numeric:
                out.append(n)
    return out


def no_string_ordering(chk, c, rule):
    ix = c.index
    chk.rule(rule, 'positional child names (<X>_<n>) are never ordered or maximised as strings (lexicographic order puts X_10 before X_9)')
    # positive control: the matcher must recognise the pattern on a synthetic snippet
    probe = ast.parse("def f(self):\n    last = max(c.name for c in self.children)\n    return sorted(self.children.indexes)")
    for x in ast.walk(probe):
        for ch in ast.iter_child_nodes(x):
            ch._parent = x
    if len(_string_ordered_names(probe)) != 2:
        raise AnalysisError('positive control of the string-ordering matcher failed')
    n = 0
    for fq in sorted(ix.functions):
        fi = ix.functions[fq]
        if fi.module.name not in ('core', 'parser', 'validation'):
            continue
        n += 1
        for call in _string_ordered_names(fi.node):
            chk.fail(rule, '%s: `%s`' % (fq, norm(call)[:60]),
                     'child names are compared as strings: positions >= 10 sort before 2..9, so children beyond the ninth are lost '
                     'or misplaced', '%s:%d' % (fi.module.relpath, call.lineno), key='%s|%s|%s' % (rule, fq, norm(call)[:50]))
    chk.ok(rule, 'functions of core/parser/validation scanned: %d' % n, '', key='%s|scan' % rule)


def ancestor_lookup(chk, c, rule):
    """An element that is being created by attribute traversal has no parent yet; the element it is created under is
    its traversal_parent.  A context getter that walks up through `parent` and falls back to the process-wide defaults
    must walk up through `traversal_parent` as well, otherwise text assigned below a lazily created element is parsed
    with the default delimiters instead of the message's.  Decided on the CFG of every encoding_chars getter that calls
    get_default_encoding_chars: the call is unreachable unless an edge establishing `traversal_parent is None` was taken."""
    import ast
    from ..cfg import cfg_of, ENTRY, edge_implies
    from ..src import own_nodes, norm
    ix = c.index
    T_POS = ('self.traversal_parent is None', 'not self.traversal_parent', 'self._traversal_parent is None')
    T_NEG = ('self.traversal_parent is not None', 'self.traversal_parent', 'self._traversal_parent is not None',
             'self._traversal_parent')
    P_POS = ('self.parent is None', 'not self.parent', 'self._parent is None')
    P_NEG = ('self.parent is not None', 'self.parent', 'self._parent is not None', 'self._parent')
    n = 0
    elem = ix.cls('core.Element')
    seen = set()
    for ci in ix.subclasses(elem):
        p = ci.find_property('encoding_chars')
        if p is None or p[0] is None or p[0].qualname in seen:
            continue
        fi = p[0]
        seen.add(fi.qualname)
        defaults = [x for x in own_nodes(fi.node) if isinstance(x, ast.Call) and norm(x.func).endswith('get_default_encoding_chars')]
        # local variables that stand for one of the two links (flow-insensitive: `up = self.parent` ... `up = self.traversal_parent`)
        alias = {'parent': set(), 'traversal_parent': set()}
        for x in own_nodes(fi.node):
            if isinstance(x, ast.Assign) and len(x.targets) == 1 and isinstance(x.targets[0], ast.Name):
                v = norm(x.value)
                if v in ('self.parent', 'self._parent'):
                    alias['parent'].add(x.targets[0].id)
                if v in ('self.traversal_parent', 'self._traversal_parent'):
                    alias['traversal_parent'].add(x.targets[0].id)
        links = ('self.parent', 'self._parent') + tuple(alias['parent'])
        walks_parent = any(isinstance(x, ast.Attribute) and x.attr == 'encoding_chars' and norm(x.value) in links
                           for x in own_nodes(fi.node))
        if not defaults or not walks_parent:
            continue          # getters with their own storage (Message) are not ancestor look-ups
        n += 1
        g = cfg_of(fi)
        for which, pos, neg in (('parent', P_POS, P_NEG), ('traversal_parent', T_POS, T_NEG)):
            pos = tuple(pos) + tuple(t % v for v in alias[which] for t in ('%s is None', 'not %s'))
            neg = tuple(neg) + tuple(t % v for v in alias[which] for t in ('%s is not None', '%s'))
            def labels_ok(src, dst, lab, g=g, pos=pos, neg=neg):
                nd = g.nodes[src]
                return not (nd.kind == 'test' and edge_implies(nd.ast, lab, pos, neg))
            reach = g.reach(ENTRY, labels_ok=labels_ok)
            bad = [d for d in defaults if g.node_for(d) in reach]
            chk.ob(rule, '%s falls back to the defaults only when the element has no %s' % (fi.qualname, which), not bad,
                   'get_default_encoding_chars() is reachable without `self.%s is None` having been established: an element '
                   'created lazily under a message with its own delimiters parses assigned text with the process-wide '
                   'defaults' % which, fi.loc, key='%s|%s|%s' % (rule, fi.qualname, which))
    chk.floor('ancestor look-ups of the encoding characters', n, 1)


def definite_assignment(chk, c, rule, modules=None):
    """No local variable is read on a CFG path on which it has not been bound (UnboundLocalError is a crash, not a library
    exception).  Path-insensitive over the statement CFG with exceptional edges; names bound by an enclosing comprehension,
    parameters, globals and nonlocals are not locals of the function."""
    import ast
    from ..cfg import cfg_of, ENTRY
    from ..src import own_nodes
    ix = c.index
    COMP = (ast.ListComp, ast.SetComp, ast.DictComp, ast.GeneratorExp)
    nfun = nuse = 0
    for fq, fi in sorted(ix.functions.items()):
        mn = fi.module.name
        if mn.startswith('v2_') and not mn.endswith('base_datatypes'):
            continue
        if modules is not None and mn not in modules:
            continue
        nfun += 1
        g = cfg_of(fi)
        binders = {}

        def add(name, node):
            nid = g.node_for(node)
            if nid:
                binders.setdefault(name, set()).add(nid)

        def comp_bound(n):
            out = set()
            p = getattr(n, '_parent', None)
            while p is not None and p is not fi.node:
                if isinstance(p, COMP):
                    for gen in p.generators:
                        out |= {x.id for x in ast.walk(gen.target) if isinstance(x, ast.Name)}
                if isinstance(p, ast.Lambda):
                    out |= {a.arg for a in p.args.args}
                p = getattr(p, '_parent', None)
            return out
        for n in own_nodes(fi.node):
            if isinstance(n, ast.Name) and isinstance(n.ctx, (ast.Store, ast.Del)) and n.id not in comp_bound(n):
                add(n.id, n)
            if isinstance(n, (ast.FunctionDef, ast.ClassDef)):
                add(n.name, n)
            if isinstance(n, ast.ExceptHandler) and n.name:
                add(n.name, n)
            if isinstance(n, (ast.Import, ast.ImportFrom)):
                for a in n.names:
                    add((a.asname or a.name).split('.')[0], n)
        params = set(fi.params) | set(fi.kwonly) | {fi.vararg, fi.kwarg}
        glob = {x for n in own_nodes(fi.node) if isinstance(n, (ast.Global, ast.Nonlocal)) for x in n.names}
        reach_cache = {}
        # names visible from outside the function: module level, enclosing functions, builtins
        outer = set(dir(__import__('builtins'))) | set(fi.module.assigns) | set(fi.module.functions) | set(fi.module.classes) | \
            set(fi.module.imports) | {'basestring', 'unicode', 'xrange', 'long', '__file__', '__name__'}
        for st_ in fi.module.tree.body:
            for x in ast.walk(st_) if not isinstance(st_, (ast.FunctionDef, ast.ClassDef)) else ():
                if isinstance(x, ast.Name) and isinstance(x.ctx, ast.Store):
                    outer.add(x.id)
                if isinstance(x, (ast.Import, ast.ImportFrom)):
                    outer |= {(a.asname or a.name).split('.')[0] for a in x.names}
        o_ = fi.outer
        while o_ is not None:
            outer |= set(o_.params) | set(o_.kwonly) | {o_.vararg, o_.kwarg}
            outer |= {x.id for x in ast.walk(o_.node) if isinstance(x, ast.Name) and isinstance(x.ctx, ast.Store)}
            outer |= {x.name for x in ast.walk(o_.node) if isinstance(x, (ast.FunctionDef, ast.ClassDef))}
            o_ = o_.outer
        for n in own_nodes(fi.node):
            if isinstance(n, ast.Name) and isinstance(n.ctx, ast.Load) and n.id not in binders and n.id not in params and \
                    n.id not in glob and n.id not in outer and n.id not in comp_bound(n):
                nuse += 1
                chk.fail(rule, '%s: `%s` is defined' % (fq, n.id),
                         'line %d reads `%s`, which is bound nowhere (not a local, parameter, module-level name or builtin): '
                         'NameError for every call that reaches it' % (n.lineno, n.id), '%s:%d' % (fi.module.relpath, n.lineno),
                         key='%s|%s|%s|undefined' % (rule, fq, n.id))
                continue
            if not (isinstance(n, ast.Name) and isinstance(n.ctx, ast.Load) and n.id in binders):
                continue
            if n.id in params or n.id in glob or n.id in comp_bound(n):
                continue
            nid = g.node_for(n)
            if nid is None:
                continue
            nuse += 1
            if n.id not in reach_cache:
                reach_cache[n.id] = g.reach(ENTRY, avoid=binders[n.id])
            reach = reach_cache[n.id]
            bad = nid in reach or (nid in binders[n.id] and any(p_ in reach or p_ == ENTRY for p_, _ in g.pred[nid]))
            if bad:
                chk.fail(rule, '%s: `%s` is bound before it is read' % (fq, n.id),
                         'line %d reads the local `%s` on a path on which no assignment to it was executed: UnboundLocalError '
                         'instead of a result or a library exception' % (n.lineno, n.id), '%s:%d' % (fi.module.relpath, n.lineno),
                         key='%s|%s|%s' % (rule, fq, n.id))
    chk.ok(rule, 'reads of locals checked: %d in %d functions' % (nuse, nfun), '', key='%s|scan' % rule)
    chk.floor('reads of local variables checked for definite assignment', nuse, 400)


def call_protocol(chk, c, rule):
    """Three contradictions between a definition and its uses that make an API operation fail with a TypeError / return
    nothing, whatever the input:
      (a) `super(C)` with one argument used to reach a method (the unbound form has no instance: TypeError);
      (b) a function whose result is unpacked into k names by a caller returns something that is not a k-tuple on some path;
      (c) a class defines the accessor pair `_get_X` / `_set_X` but binds no property X to it, while its base classes bind X
          to their own pair (the subclass accessors are dead and the attribute silently behaves like the parent's)."""
    import ast
    from ..src import own_nodes, norm
    ix, te, cg = c.index, c.te, c.cg
    n = 0
    for fq, fi in sorted(ix.functions.items()):
        if fi.module.name.startswith('v2_') and not fi.module.name.endswith('base_datatypes'):
            continue
        for x in own_nodes(fi.node):
            if isinstance(x, ast.Call) and isinstance(x.func, ast.Name) and x.func.id == 'super' and len(x.args) == 1 and \
                    isinstance(getattr(x, '_parent', None), ast.Attribute):
                n += 1
                chk.fail(rule, '%s: `%s`' % (fq, norm(x._parent)[:50]),
                         'one-argument super() is unbound: `.%s` cannot be reached through it, the call raises TypeError' %
                         x._parent.attr, '%s:%d' % (fi.module.relpath, x.lineno), key='%s|super|%s' % (rule, fq))
    # (b) tuple arity
    for fq, sites in sorted(cg.sites.items()):
        fi = ix.functions.get(fq)
        if fi is None:
            continue
        for s in sites:
            if s.kind != 'call':
                continue
            par = getattr(s.node, '_parent', None)
            if not (isinstance(par, ast.Assign) and par.value is s.node and isinstance(par.targets[0], ast.Tuple)):
                continue
            k = len(par.targets[0].elts)
            for t in s.targets:
                if t.kind != 'func' or t.func.module.name.startswith('ext'):
                    continue
                rets = [r for r in own_nodes(t.func.node) if isinstance(r, ast.Return)]
                for r in rets:
                    n += 1
                    v = r.value
                    if v is None or (isinstance(v, ast.Constant) and v.value is None) or \
                            (isinstance(v, ast.Tuple) and len(v.elts) != k):
                        chk.fail(rule, '%s returns %d values to %s' % (t.func.qualname, k, fq),
                                 '`%s` (line %d) does not return %d values although `%s` unpacks %d: TypeError / ValueError at '
                                 'the call site' % (norm(r)[:40], r.lineno, k, norm(par)[:50], k),
                                 '%s:%d' % (t.func.module.relpath, r.lineno), key='%s|arity|%s|%s' % (rule, t.func.qualname, norm(r)[:30]))
    # (c) accessor pairs without a property
    for cq, ci in sorted(ix.classes.items()):
        for name in sorted(ci.methods):
            if not name.startswith('_get_'):
                continue
            attr = name[5:]
            if '_set_' + attr not in ci.methods:
                continue
            n += 1
            bound = ci.properties.get(attr) if hasattr(ci, 'properties') else None
            inherited = any(attr in getattr(b, 'properties', {}) for b in ci.mro[1:])
            if bound is None and inherited:
                chk.fail(rule, '%s binds %s to its own accessors' % (cq, attr),
                         'the class defines _get_%s/_set_%s but no `%s = property(...)`: the accessors are dead code and `.%s` '
                         'behaves like the base class' % (attr, attr, attr, attr), ci.methods[name].loc,
                         key='%s|property|%s|%s' % (rule, cq, attr))
    # (d) calls that cannot bind their arguments: too few / too many positional arguments for every possible callee
    BUILTIN_ARITY = {'delattr': (2, 2), 'setattr': (3, 3), 'getattr': (2, 3), 'hasattr': (2, 2), 'isinstance': (2, 2),
                     'issubclass': (2, 2), 'len': (1, 1)}
    for fq, sites in sorted(cg.sites.items()):
        fi = ix.functions.get(fq)
        if fi is None:
            continue
        for x in own_nodes(fi.node):
            if isinstance(x, ast.Call) and isinstance(x.func, ast.Name) and x.func.id in BUILTIN_ARITY and not x.keywords and \
                    not any(isinstance(a, ast.Starred) for a in x.args):
                lo, hi = BUILTIN_ARITY[x.func.id]
                n += 1
                if not lo <= len(x.args) <= hi:
                    chk.fail(rule, '%s: `%s`' % (fq, norm(x)[:50]), '%s() takes %s argument(s), %d given: TypeError' % (
                        x.func.id, lo if lo == hi else '%d-%d' % (lo, hi), len(x.args)), '%s:%d' % (fi.module.relpath, x.lineno),
                        key='%s|arity|%s|%s' % (rule, fq, x.func.id))
        for s in sites:
            if s.kind != 'call' or not s.targets or any(t.kind != 'func' for t in s.targets):
                continue
            call = s.node
            if any(isinstance(a, ast.Starred) for a in call.args) or any(k.arg is None for k in call.keywords):
                continue
            # only calls whose callee is named directly (a module-level function / class, a method of self / super() / a class):
            # a local variable or parameter that holds a function may be a wrapper with another signature
            f_ = call.func
            local_names = {x.id for x in ast.walk(fi.node) if isinstance(x, ast.Name) and isinstance(x.ctx, ast.Store)} | \
                set(fi.params) | set(fi.kwonly)
            direct = (isinstance(f_, ast.Name) and f_.id not in local_names) or \
                (isinstance(f_, ast.Attribute) and (norm(f_.value) in ('self', 'cls') or norm(f_.value).startswith('super(') or
                                                    (isinstance(f_.value, ast.Name) and f_.value.id[:1].isupper())))
            if not direct:
                continue
            verdicts = []
            for t in s.targets:
                f = t.func
                a = f.node.args
                names = [z.arg for z in a.args]
                if t.bound or (t.ctor is not None):
                    names = names[1:]
                ndef = len(a.defaults)
                required = names[:len(names) - ndef] if ndef else names
                given_pos = len(call.args)
                given_kw = {k.arg for k in call.keywords}
                too_many = given_pos > len(names) and a.vararg is None
                missing = [p_ for i_, p_ in enumerate(required) if i_ >= given_pos and p_ not in given_kw]
                verdicts.append((too_many, missing, f.qualname))
            n += 1
            if verdicts and all(tm or ms for tm, ms, _ in verdicts):
                tm, ms, fq2 = verdicts[0]
                chk.fail(rule, '%s: `%s`' % (fq, norm(call)[:60]),
                         'the call cannot bind its arguments to %s (%s): TypeError whenever this statement runs' % (
                             fq2, 'too many positional arguments' if tm else 'missing %s' % ms),
                         '%s:%d' % (fi.module.relpath, call.lineno), key='%s|bind|%s|%s' % (rule, fq, norm(call.func)[:40]))
    chk.ok(rule, 'definition/use protocol instances examined: %d' % n, '', key='%s|scan' % rule)
    chk.floor('definition/use protocol instances', n, 20)


def producers_return(chk, c, rule, which='resolvers'):
    """Functions whose only purpose is their result never return None silently:
      - resolvers `f(p, ..)` (a module-level function that returns its own parameter p on one path): every other return is the
        result of a call (get_default_*()), never None or nothing -- otherwise an omitted argument stays None downstream;
      - property getters of Element classes named _get_value / value: every return carries a value."""
    import ast
    from ..src import own_nodes, norm
    ix = c.index
    n = 0
    for fq, fi in sorted(ix.functions.items()) if which == 'resolvers' else ():
        if fi.cls is not None or fi.outer is not None or fi.module.name not in ('parser', 'core', '__init__', 'factories'):
            continue
        params = fi.params
        rets = [r for r in own_nodes(fi.node) if isinstance(r, ast.Return)]
        if not params or len(rets) < 2:
            continue
        own = [r for r in rets if r.value is not None and isinstance(r.value, ast.Name) and r.value.id == params[0]]
        tests_none = any(isinstance(t, ast.Compare) and norm(t) in ('%s is None' % params[0], '%s is not None' % params[0])
                         for t in ast.walk(fi.node))
        if not own or not tests_none:
            continue
        for r in rets:
            if r in own:
                continue
            n += 1
            v = r.value
            ok = v is not None and not (isinstance(v, ast.Constant) and v.value is None) and isinstance(v, ast.Call)
            chk.ob(rule, '%s resolves a missing `%s`' % (fq, params[0]), ok,
                   '`%s` (line %d): on the path where `%s` is None the resolver returns %s instead of the default: the caller keeps '
                   'working with None' % (norm(r)[:40], r.lineno, params[0], 'None' if not ok else ''),
                   '%s:%d' % (fi.module.relpath, r.lineno), key='%s|resolver|%s' % (rule, fq))
    elem = ix.cls('core.Element')
    for ci in ix.subclasses(elem) if which == 'getters' else ():
        for name in ('_get_value',):
            fi = ci.methods.get(name)
            if fi is None:
                continue
            rets = [r for r in own_nodes(fi.node) if isinstance(r, ast.Return)]
            n += 1
            bad = [r for r in rets if r.value is None or (isinstance(r.value, ast.Constant) and r.value.value is None)]
            chk.ob(rule, '%s returns the value on every path' % fi.qualname, bool(rets) and not bad,
                   'the getter returns None%s: reading `.value` yields nothing although the element encodes to text' %
                   (' at line %d' % bad[0].lineno if bad else ' (no return statement)'), fi.loc, key='%s|getter|%s' % (rule, fi.qualname))
    chk.floor('resolver returns / value getters examined (%s)' % which, n, 3)


def dynamic_parser_handoff(chk, c, rule, params=('version', 'validation_level', 'encoding_chars')):
    """The element classes reach their child parsers through `getattr(module, self.child_parser[i])(text, **kwargs)`, which no
    call graph resolves.  This lemma resolves it from the class constants: for every class with a `child_parser` pair and both
    hand-off methods (parse_child -> pair[0], parse_children -> pair[1]), the keyword dictionary that reaches the parser --
    the keys set along the chain of parse_child(ren) overrides up to the base method -- contains every context parameter the
    parser takes, bound to the element's own value (self.<param>)."""
    import ast
    from ..src import own_nodes, norm
    ix = c.index
    parser = ix.module('parser')
    n = 0

    def keys_set(fi):
        """{key: value expr} stored into the dict that the function passes on as **kwargs"""
        out = {}
        star = set()
        for x in own_nodes(fi.node):
            if isinstance(x, ast.Call):
                for k in x.keywords:
                    if k.arg is None and isinstance(k.value, ast.Name):
                        star.add(k.value.id)
                    elif k.arg is not None and isinstance(x.func, ast.Attribute) and x.func.attr in ('parse_child', 'parse_children'):
                        out[k.arg] = k.value
        for x in own_nodes(fi.node):
            if isinstance(x, ast.Assign) and len(x.targets) == 1:
                t = x.targets[0]
                if isinstance(t, ast.Name) and t.id in star and isinstance(x.value, ast.Dict):
                    for k, v in zip(x.value.keys, x.value.values):
                        if isinstance(k, ast.Constant):
                            out[k.value] = v
                if isinstance(t, ast.Subscript) and isinstance(t.value, ast.Name) and t.value.id in star and \
                        isinstance(t.slice, ast.Constant):
                    out[t.slice.value] = x.value
        return out
    for cq, ci in sorted(ix.classes.items()):
        cp = ci.attrs.get('child_parser') if hasattr(ci, 'attrs') else None
        if not (isinstance(cp, ast.Tuple) and len(cp.elts) == 2 and all(isinstance(e, ast.Constant) for e in cp.elts)):
            continue
        for idx, meth in ((0, 'parse_child'), (1, 'parse_children')):
            target = parser.functions.get(cp.elts[idx].value)
            if target is None:
                raise AnalysisError('%s.child_parser names %r, which parser.py does not define' % (cq, cp.elts[idx].value))
            chain = []
            for k in ci.mro:
                if meth in k.methods:
                    chain.append(k.methods[meth])
            if not chain:
                continue
            have = {}
            for fi in chain:
                for k_, v_ in keys_set(fi).items():
                    have.setdefault(k_, (fi, v_))
            for P in params:
                if P not in target.params:
                    continue
                n += 1
                construct = '%s.%s -> parser.%s(%s=)' % (cq, meth, target.name, P)
                if P not in have:
                    chk.fail(rule, construct,
                             'no method of the chain %s puts `%s` into the keyword dictionary handed to the parser: the child text is '
                             'parsed with the process-wide default' % ([f.qualname for f in chain], P), chain[0].loc,
                             key='%s|%s|%s|%s' % (rule, cq, meth, P))
                    continue
                fi, v = have[P]
                ok = norm(v) in ('self.%s' % P, P)
                chk.ob(rule, construct, ok, '`%s` is passed for %s, not the element\'s own `self.%s`' % (norm(v)[:40], P, P),
                       '%s:%d' % (fi.module.relpath, v.lineno), key='%s|%s|%s|%s' % (rule, cq, meth, P))
            # the datatype of the child comes from slot 2 of its reference (sibling agreement of the parse_child overrides)
            if meth == 'parse_child' and 'datatype' in target.params:
                for fi in chain:
                    if 'reference' in fi.params and fi.cls is not None and fi.cls is not ix.cls('core.Element'):
                        n += 1
                        ks = keys_set(fi)
                        v = ks.get('datatype')
                        ok = v is not None and norm(v) == 'reference[2]'
                        chk.ob(rule, '%s hands the child its datatype (reference[2])' % fi.qualname, ok,
                               'datatype is %s: the child is parsed with the default datatype ST instead of the one its structure '
                               'gives' % ('`%s`' % norm(v) if v is not None else 'not passed'), fi.loc,
                               key='%s|%s|datatype' % (rule, fi.qualname))
    chk.floor('context keys handed to dynamically resolved parsers', n, 20)


def none_dereference(chk, c, rule):
    """Contradiction rule (Engler et al.): a branch that has just established `x is None` (or took the false edge of
    `x is not None`) must not subscript x or read an attribute of it before x is assigned again -- that is a TypeError /
    AttributeError for every input that reaches the branch."""
    import ast
    from ..cfg import cfg_of, edge_implies
    from ..src import own_nodes, norm
    ix = c.index
    ntests = 0
    for fq, fi in sorted(ix.functions.items()):
        mn = fi.module.name
        if mn.startswith('v2_') and not mn.endswith('base_datatypes'):
            continue
        cands = set()
        for t in ast.walk(fi.node):
            if isinstance(t, ast.Compare) and len(t.ops) == 1 and isinstance(t.ops[0], (ast.Is, ast.IsNot)) and \
                    isinstance(t.left, ast.Name) and isinstance(t.comparators[0], ast.Constant) and t.comparators[0].value is None:
                cands.add(t.left.id)
        if not cands:
            continue
        g = cfg_of(fi)
        for x in sorted(cands):
            pos, neg = ('%s is None' % x,), ('%s is not None' % x, x)
            binds = {g.node_for(n) for n in own_nodes(fi.node)
                     if isinstance(n, ast.Name) and n.id == x and isinstance(n.ctx, (ast.Store, ast.Del))}
            for nid, nd in g.nodes.items():
                if nd.kind != 'test':
                    continue
                for d, lab in g.succ[nid]:
                    if not edge_implies(nd.ast, lab, pos, neg):
                        continue
                    ntests += 1
                    # walk from d while x stays None: stop at rebinding and at tests that re-establish non-None
                    seen = set()
                    work = [d]
                    while work:
                        k = work.pop()
                        if k in seen or k in binds and k != d:
                            continue
                        seen.add(k)
                        kn = g.nodes.get(k)
                        if kn is not None and kn.ast is not None and kn.kind in ('stmt', 'test'):
                            scope = kn.ast
                            for u in ast.walk(scope):
                                if isinstance(u, (ast.Subscript, ast.Attribute)) and isinstance(u.value, ast.Name) and \
                                        u.value.id == x and isinstance(getattr(u.value, 'ctx', None), ast.Load):
                                    # short-circuit protection inside the same expression (`x is not None and x[0]`) is not modelled:
                                    # only flag plain statements and tests that do not mention the None test themselves
                                    if ('%s is not None' % x) in norm(scope) or ('%s is None' % x) in norm(scope):
                                        continue
                                    chk.fail(rule, '%s: `%s` after `%s` was found to be None' % (fq, norm(u)[:40], x),
                                             'line %d dereferences `%s` on the branch taken when `%s is None` (test at line %d)' %
                                             (u.lineno, x, x, getattr(nd.ast, 'lineno', 0)),
                                             '%s:%d' % (fi.module.relpath, u.lineno), key='%s|%s|%s' % (rule, fq, norm(u)[:40]))
                                    work = []
                                    break
                        if k in binds:
                            continue
                        for d2, lab2 in g.succ.get(k, ()):
                            if lab2 == 'exc':
                                continue
                            kn2 = g.nodes.get(k)
                            if kn2 is not None and kn2.kind == 'test' and edge_implies(kn2.ast, lab2, neg[:1], pos):
                                continue       # an edge that proves x is not None
                            if kn2 is not None and kn2.kind == 'test' and k != nid and \
                                    x in {z.id for z in ast.walk(kn2.ast) if isinstance(z, ast.Name)}:
                                continue       # a later test that looks at x (directly or through a helper) may establish that it is set
                            work.append(d2)
    chk.ok(rule, 'branches that establish `x is None`: %d' % ntests, '', key='%s|scan' % rule)
    chk.floor('None-establishing branches examined', ntests, 40)


def explicit_not_overwritten(chk, c, rule, skip=('reference', 'references')):
    """`def f(.., p=None)` ... `if p is None: p = <default>` is how omitted arguments are resolved.  The rule: a parameter with
    default None is re-bound (to something not computed from itself) only on paths on which it was found to be None / falsy;
    anywhere else the caller's explicit argument would be thrown away."""
    import ast
    from ..cfg import cfg_of, ENTRY, edge_implies
    from ..src import own_nodes, norm
    ix = c.index
    n = 0
    for fq, fi in sorted(ix.functions.items()):
        mn = fi.module.name
        if mn.startswith('v2_') and not mn.endswith('base_datatypes'):
            continue
        a = fi.node.args
        names = [z.arg for z in a.args]
        defaults = {names[len(names) - len(a.defaults) + i]: d for i, d in enumerate(a.defaults)}
        for p, d in sorted(defaults.items()):
            if p in skip or not (isinstance(d, ast.Constant) and d.value is None):
                continue
            rebinds = [x for x in own_nodes(fi.node) if isinstance(x, ast.Assign) and any(norm(t) == p for t in x.targets)]
            if not rebinds:
                continue
            g = cfg_of(fi)
            pos, neg = ('%s is None' % p, 'not %s' % p), ('%s is not None' % p, p)

            def unproven(src, dst, lab, g=g, pos=pos, neg=neg):
                nd = g.nodes[src]
                return not (nd.kind == 'test' and edge_implies(nd.ast, lab, pos, neg))
            reach = g.reach(ENTRY, labels_ok=unproven)
            for r in rebinds:
                n += 1
                derived = p in {x.id for x in ast.walk(r.value) if isinstance(x, ast.Name)}
                bad = g.node_for(r) in reach and not derived
                chk.ob(rule, '%s keeps an explicit `%s`' % (fq, p), not bad,
                       '`%s` (line %d) can run when the caller passed a value for `%s`: the explicit argument is replaced' % (
                           norm(r)[:60], r.lineno, p), '%s:%d' % (fi.module.relpath, r.lineno),
                       key='%s|%s|%s|%s' % (rule, fq, p, norm(r.value)[:30]))
    chk.floor('re-bindings of None-default parameters', n, 30)


def match_dereference(chk, c, rule):
    """The result of re.match / re.search / re.fullmatch is None when the text does not match.  Rule: `.group(..)`, `.groups()`,
    `.groupdict()`, `.start()`, `.end()`, `.span()` are applied to such a result only where it was found to be a match (a test
    on the variable on every path), never directly on the call."""
    import ast
    from ..cfg import cfg_of, ENTRY, edge_implies
    from ..src import own_nodes, norm
    ix = c.index
    METH = ('group', 'groups', 'groupdict', 'start', 'end', 'span')
    n = 0
    for fq, fi in sorted(ix.functions.items()):
        mn = fi.module.name
        if mn.startswith('v2_') and not mn.endswith('base_datatypes'):
            continue
        mvars = {}
        for x in own_nodes(fi.node):
            if isinstance(x, ast.Call) and isinstance(x.func, ast.Attribute) and x.func.attr in METH:
                r = x.func.value
                if isinstance(r, ast.Call) and isinstance(r.func, ast.Attribute) and r.func.attr in ('match', 'search', 'fullmatch'):
                    n += 1
                    chk.fail(rule, '%s: `%s`' % (fq, norm(x)[:50]),
                             '.%s() is applied directly to the result of %s: AttributeError when the text does not match' % (
                                 x.func.attr, norm(r.func)), '%s:%d' % (fi.module.relpath, x.lineno), key='%s|%s|direct' % (rule, fq))
            if isinstance(x, ast.Assign) and isinstance(x.value, ast.Call) and isinstance(x.value.func, ast.Attribute) and \
                    x.value.func.attr in ('match', 'search', 'fullmatch') \
                    and len(x.targets) == 1 and isinstance(x.targets[0], ast.Name):
                mvars[x.targets[0].id] = x
        if not mvars:
            continue
        g = cfg_of(fi)
        for v in sorted(mvars):
            pos, neg = ('%s is not None' % v, v), ('%s is None' % v, 'not %s' % v)

            def unproven(src, dst, lab, g=g, pos=pos, neg=neg):
                nd = g.nodes[src]
                return not (nd.kind == 'test' and edge_implies(nd.ast, lab, pos, neg))
            reach = g.reach(g.node_for(mvars[v]), labels_ok=unproven)
            for x in own_nodes(fi.node):
                if isinstance(x, ast.Call) and isinstance(x.func, ast.Attribute) and x.func.attr in METH and \
                        isinstance(x.func.value, ast.Name) and x.func.value.id == v:
                    n += 1
                    nid = g.node_for(x)
                    # the use may sit in the very test that establishes the match (`m and m.group(1)`): tolerated
                    same_test = g.nodes[nid].kind == 'test' and v in {z.id for z in ast.walk(g.nodes[nid].ast) if isinstance(z, ast.Name)} and \
                        isinstance(g.nodes[nid].ast, ast.BoolOp)
                    bad = nid in reach and not same_test
                    chk.ob(rule, '%s: `%s` on a successful match only' % (fq, norm(x)[:40]), not bad,
                           '`%s` can be reached without `%s` having been tested: AttributeError (NoneType) for text that does not '
                           'match' % (norm(x)[:40], v), '%s:%d' % (fi.module.relpath, x.lineno), key='%s|%s|%s' % (rule, fq, v))
    chk.floor('uses of regular-expression match objects', n, 2)


def case_measure(chk, c, rule):
    """Names are stored and compared upper-cased, and upper-/lower-casing can change the length of a string (one 'ß' becomes
    'SS').  Contradiction rule: a function that compares `x.upper()` / `x.lower()` does not also measure the *raw* x
    (`len(x)`, `x[i]`, `x[a:b]`): the positions it computes would be those of another string than the one it compared and
    that the tree stores.  A measure after `x = x.upper()` is a measure of the normalised name."""
    import ast
    from ..cfg import cfg_of, ENTRY
    from ..src import own_nodes, norm
    ix = c.index
    n = 0
    for fq, fi in sorted(ix.functions.items()):
        mn = fi.module.name
        if mn.startswith('v2_') and not mn.endswith('base_datatypes'):
            continue
        cased, renorm, measures = {}, {}, {}
        for x in own_nodes(fi.node):
            if isinstance(x, ast.Assign) and len(x.targets) == 1 and isinstance(x.targets[0], ast.Name):
                v = x.targets[0].id
                if any(isinstance(y, ast.Call) and isinstance(y.func, ast.Attribute) and y.func.attr in ('upper', 'lower', 'casefold') and
                       isinstance(y.func.value, ast.Name) and y.func.value.id == v for y in ast.walk(x.value)):
                    renorm.setdefault(v, []).append(x)
        renorm_calls = {id(y) for xs in renorm.values() for x in xs for y in ast.walk(x.value)}
        for x in own_nodes(fi.node):
            if isinstance(x, ast.Call) and isinstance(x.func, ast.Attribute) and x.func.attr in ('upper', 'lower', 'casefold') and \
                    isinstance(x.func.value, ast.Name) and id(x) not in renorm_calls:
                cased.setdefault(x.func.value.id, []).append(x)
            if isinstance(x, ast.Call) and isinstance(x.func, ast.Name) and x.func.id == 'len' and len(x.args) == 1 and \
                    isinstance(x.args[0], ast.Name):
                measures.setdefault(x.args[0].id, []).append(x)
            if isinstance(x, ast.Subscript) and isinstance(x.value, ast.Name) and isinstance(x.ctx, ast.Load):
                measures.setdefault(x.value.id, []).append(x)
        for v in sorted(set(cased) | set(renorm)):
            n += 1
            ms = measures.get(v, [])
            if not ms or v not in cased:
                chk.ob(rule, '%s: `%s` is compared case-normalised and never measured raw' % (fq, v), True, '', fi.loc,
                       key='%s|%s|%s' % (rule, fq, v))
                continue
            g = cfg_of(fi)
            stops = {g.node_for(a) for a in renorm.get(v, [])}
            raw = g.reach(ENTRY, labels_ok=lambda s, d, lab, stops=stops: s not in stops) | {ENTRY}
            bad = [m for m in ms if g.node_for(m) in raw]
            chk.ob(rule, '%s: `%s` is compared case-normalised and never measured raw' % (fq, v), not bad,
                   '`%s` measures the raw `%s` while `%s` compares its case-normalised form: for a name whose upper-casing changes its '
                   'length (e.g. one containing \'ß\') the two disagree, and positions computed from the stored (normalised) name '
                   'are off (int() of the wrong slice: ValueError)' % (norm(bad[0])[:40] if bad else '', v, norm(cased[v][0])[:40]),
                   '%s:%d' % (fi.module.relpath, (bad[0] if bad else ms[0]).lineno), key='%s|%s|%s' % (rule, fq, v))
    chk.floor('functions that case-normalise a name', n, 8)


def z_name_alphabets(chk, c, rule):
    """Sibling predicates: `_valid_z_segment_name` admits every three-character name that starts with Z; the field-name and
    message-name predicates decide, by regular expression, which names *below / above* such a segment are Z names.  Rule: the
    character class that stands for the two free characters of the segment name admits every letter and every digit in each
    of the regular expressions (and the classes agree): otherwise a Z segment that the parser and STRICT construction accept
    (e.g. `Z01`) has fields that are not Z fields -- `validate()` reports them as invalid, `Field('Z01_1')` is refused --
    while `ZA1` works.  The regular expressions are constants of the functions; their syntax trees are inspected."""
    import ast
    import string
    try:
        import re._parser as sre_parse      # py >= 3.11
    except ImportError:                     # pragma: no cover
        import sre_parse
    from ..src import own_nodes, norm
    from . import pat
    ix = c.index
    seg = ix.func('core._valid_z_segment_name')
    if seg is None:
        raise AnalysisError('core._valid_z_segment_name not found')
    txt = ' '.join(norm(x) for x in own_nodes(seg.node) if isinstance(x, (ast.Return, ast.Assign)))
    if "startswith('Z')" not in txt or '== 3' not in txt or 're.' in txt:
        raise AnalysisError('core._valid_z_segment_name: not the prefix + length form (%s)' % txt[:80])
    need = set(string.ascii_uppercase + string.digits)
    classes = {}
    for fname in ('_valid_z_field_name', '_valid_z_message_name'):
        fi = ix.func('core.' + fname)
        if fi is None:
            raise AnalysisError('core.%s not found' % fname)
        calls = [x for x in own_nodes(fi.node) if isinstance(x, ast.Call) and isinstance(x.func, ast.Attribute) and
                 x.func.attr in ('match', 'fullmatch', 'search', 'compile') and norm(x.func.value) == 're' and x.args]
        if len(calls) != 1:
            raise AnalysisError('core.%s: expected one re.match call, found %d' % (fname, len(calls)))
        call = calls[0]
        patnode = pat.inline_locals(call.args[0], fi.node)
        if not (isinstance(patnode, ast.Constant) and isinstance(patnode.value, str)):
            raise AnalysisError('core.%s: the pattern is not a constant (%s)' % (fname, norm(call.args[0])[:40]))
        icase = any('IGNORECASE' in norm(a) or norm(a) == 're.I' for a in list(call.args[1:]) + [k.value for k in call.keywords]) or \
            '(?i)' in patnode.value
        tree = sre_parse.parse(patnode.value)
        items = list(tree)
        found = []
        for i, (op, av) in enumerate(items):
            if str(op) == 'LITERAL' and chr(av) in 'zZ' and i + 1 < len(items):
                op2, av2 = items[i + 1]
                if str(op2) in ('MAX_REPEAT', 'MIN_REPEAT'):
                    lo, hi, sub = av2
                    sub = list(sub)
                    if lo == hi == 2 and len(sub) == 1:
                        found.append(sub[0])
        if not found:
            raise AnalysisError('core.%s: no `z<class>{2}` part recognised in %r' % (fname, patnode.value))
        for k, (op, av) in enumerate(found):
            chars = set()
            if str(op) == 'IN':
                neg = False
                for o, a in av:
                    if str(o) == 'NEGATE':
                        neg = True
                    elif str(o) == 'RANGE':
                        chars |= {chr(x) for x in range(a[0], a[1] + 1)}
                    elif str(o) == 'LITERAL':
                        chars.add(chr(a))
                    elif str(o) == 'CATEGORY':
                        cat = str(a)
                        if cat.endswith('CATEGORY_WORD'):
                            chars |= set(string.ascii_letters + string.digits + '_')
                        elif cat.endswith('CATEGORY_DIGIT'):
                            chars |= set(string.digits)
                        else:
                            raise AnalysisError('core.%s: category %s in the class' % (fname, cat))
                if neg:
                    chars = {chr(x) for x in range(32, 127)} - chars
            elif str(op) == 'ANY':
                chars = {chr(x) for x in range(32, 127)}
            elif str(op) == 'LITERAL':
                chars = {chr(av)}
            else:
                raise AnalysisError('core.%s: class form %s not recognised' % (fname, op))
            subject = norm(call.args[1]) if len(call.args) > 1 and call.func.attr != 'compile' else ''
            if icase:
                chars |= {ch.upper() for ch in chars} | {ch.lower() for ch in chars}
            elif subject.endswith('.lower()'):
                chars = {ch.upper() for ch in chars if ch.islower() or not ch.isalpha()}
            elif subject.endswith('.upper()'):
                chars = {ch for ch in chars if ch.isupper() or not ch.isalpha()}
            classes[(fname, k)] = chars
            miss = sorted(need - chars)
            chk.ob(rule, 'core.%s: the segment-name class (#%d) of %r admits every letter and digit' % (fname, k + 1, patnode.value),
                   not miss,
                   'characters %s are not admitted: a Z segment named with one of them (e.g. `Z%s1`) is accepted by '
                   '_valid_z_segment_name, the parser and STRICT construction, but its fields / message are not Z elements: '
                   'validate() reports `Invalid element found` for a message STRICT accepted' % (''.join(miss), miss[0] if miss else ''),
                   '%s:%d' % (fi.module.relpath, call.lineno), key='%s|%s|%d|%s' % (rule, fname, k, ''.join(miss)))
    chk.floor('segment-name classes of the Z-name expressions', len(classes), 3)


def conversion_as_validator(chk, c, rule):
    """Children are addressed by their *canonical* positional name (`'%s_%d' % (prefix, i)` in the encoder, `int(name[4:])`
    when a field is attached), but `int()` accepts many spellings of one number ('3', '03', '+3', ' 3', non-ASCII digits).
    Contradiction rule: a predicate that decides whether a text is a valid index by *trying* `int(text)` and discarding the
    result must also pin the spelling down (round trip `str(int(t)) == t`, `t.isdigit()` / `isdecimal()` plus a leading-zero
    test, or a regular expression); otherwise a child is admitted under a name that the encoder never looks up, and its
    value silently disappears from the encoding."""
    import ast
    from ..src import own_nodes, norm
    ix = c.index
    n = 0
    for fq, fi in sorted(ix.functions.items()):
        mn = fi.module.name
        if mn.startswith('v2_') or mn in ('mllp',):
            continue
        tried = []
        for x in own_nodes(fi.node):
            call = None
            bound = None
            if isinstance(x, ast.Expr) and isinstance(x.value, ast.Call):
                call = x.value
            elif isinstance(x, ast.Assign) and isinstance(x.value, ast.Call) and len(x.targets) == 1 and isinstance(x.targets[0], ast.Name):
                call, bound = x.value, x.targets[0].id
            if call is None or not (isinstance(call.func, ast.Name) and call.func.id == 'int' and len(call.args) == 1):
                continue
            # inside a try whose handler answers "not valid" (returns False / None): the conversion is a validity test
            p = x
            in_try = False
            while getattr(p, '_parent', None) is not None and p is not fi.node:
                t = p._parent
                if isinstance(t, ast.Try) and any(p is b for b in t.body) and any(
                        isinstance(r, ast.Return) and (r.value is None or (isinstance(r.value, ast.Constant) and r.value.value in (False, None)))
                        for h in t.handlers for r in ast.walk(h)):
                    in_try = True
                p = t
            if in_try:
                tried.append((x, call, bound))
        for x, call, bound in tried:
            n += 1
            arg = norm(call.args[0])
            pinned = False
            strs = {'str(%s)' % norm(call)} | ({'str(%s)' % bound} if bound else set())
            for y in own_nodes(fi.node):
                if isinstance(y, ast.Call) and isinstance(y.func, ast.Attribute) and y.func.attr in ('isdigit', 'isdecimal') and \
                        norm(y.func.value) == arg:
                    pinned = True
                if isinstance(y, ast.Call) and isinstance(y.func, ast.Attribute) and y.func.attr in ('match', 'fullmatch') and \
                        any(norm(a) == arg for a in y.args):
                    pinned = True
                if isinstance(y, ast.Compare) and len(y.ops) == 1 and isinstance(y.ops[0], (ast.Eq, ast.NotEq)):
                    sides = [norm(y.left), norm(y.comparators[0])]
                    if arg in sides and any(s_ in strs for s_ in sides):
                        pinned = True
            chk.ob(rule, '%s: `%s` is tried as a validity test and the spelling is pinned down' % (fq, norm(call)), pinned,
                   '`%s` only has to succeed: `03`, `+3`, ` 3` and non-ASCII digits pass as well, so a child is admitted under a name '
                   'that is not the canonical `<prefix>_<i>` the encoder looks children up by -- its value is silently left out of '
                   'the encoding instead of the name being refused with ChildNotFound' % norm(call),
                   '%s:%d' % (fi.module.relpath, x.lineno), key='%s|%s|%s' % (rule, fq, arg))
    chk.floor('conversions used as validity tests', n, 1)


def structure_maps_together(chk, c, rule):
    """`ElementFinder._parse_structure` returns the children layout of an element as several maps that describe the *same*
    children (by HL7 name, by long name, in order, with cardinalities).  Rule: whoever copies the result of
    `get_structure` / `_parse_structure` onto an element copies all the layout maps (a loop over all items, with at most
    non-layout keys such as 'datatype' left out) -- otherwise one way of addressing a child (e.g. its long name) keeps
    resolving against the previous layout after a datatype change."""
    import ast
    from ..src import own_nodes, norm
    from . import pat
    ix = c.index
    ps = ix.func('core.ElementFinder._parse_structure')
    if ps is None:
        raise AnalysisError('core.ElementFinder._parse_structure not found')
    # the layout keys: constant keys stored into the result under the sequence / choice branch
    layout = set()
    for n in own_nodes(ps.node):
        mt = pat.membership(pat.inline_locals(n.test, ps.node)) if isinstance(n, ast.If) else None
        if mt and {'sequence', 'choice'} <= set(mt[1]):
            for x in ast.walk(ast.Module(body=n.body, type_ignores=[])):
                if isinstance(x, ast.Subscript) and isinstance(x.ctx, ast.Store) and isinstance(x.slice, ast.Constant) and \
                        isinstance(x.value, ast.Name) and isinstance(x.slice.value, str):
                    # only stores into the returned dictionary (a name that the function returns)
                    if any(isinstance(r, ast.Return) and norm(r.value) == x.value.id for r in own_nodes(ps.node)):
                        layout.add(x.slice.value)
    if len(layout) < 3:
        raise AnalysisError('_parse_structure: layout keys not recognised (%s)' % sorted(layout))
    n = 0
    for fq, fi in sorted(ix.functions.items()):
        if fi is ps or fi.module.name != 'core':
            continue
        svars = {t.id for x in own_nodes(fi.node) if isinstance(x, ast.Assign) and isinstance(x.value, ast.Call) and
                 norm(x.value.func).split('.')[-1] in ('get_structure', '_parse_structure') for t in x.targets if isinstance(t, ast.Name)}
        if not svars:
            continue
        for sv in sorted(svars):
            n += 1
            assigned, everything, excluded = set(), False, set()
            for x in own_nodes(fi.node):
                if isinstance(x, ast.For):
                    it = norm(x.iter)
                    body_sets = [y for y in ast.walk(x) if isinstance(y, ast.Call) and norm(y.func) == 'setattr' and len(y.args) == 3]
                    if not body_sets:
                        continue
                    if it in ('iteritems(%s)' % sv, '%s.items()' % sv, sv, '%s.keys()' % sv):
                        everything = True
                        for y in ast.walk(x):
                            if isinstance(y, ast.If):
                                for t in pat.conjuncts(y.test):
                                    m = pat.non_membership(t)
                                    if m:
                                        excluded |= set(m[1])
                                    m2 = pat.membership(t)
                                    if m2 and not y.orelse:       # `if k in (...)`: only those
                                        everything = False
                                        assigned |= set(m2[1])
                    elif isinstance(x.iter, (ast.Tuple, ast.List, ast.Set)) and all(isinstance(e, ast.Constant) for e in x.iter.elts):
                        assigned |= {e.value for e in x.iter.elts}
                if isinstance(x, ast.Assign) and len(x.targets) == 1 and isinstance(x.targets[0], ast.Attribute) and \
                        norm(x.targets[0].value) == 'self' and isinstance(x.value, ast.Subscript) and norm(x.value.value) == sv and \
                        isinstance(x.value.slice, ast.Constant):
                    assigned.add(x.value.slice.value)
            got = (layout - excluded) if everything else (assigned & layout)
            miss = sorted(layout - got)
            chk.ob(rule, '%s copies every layout map of the parsed structure (%s)' % (fq, ', '.join(sorted(layout))), not miss,
                   'the layout map(s) %s are not replaced together with the others: after this assignment they still describe the '
                   'previous structure, so children addressed that way (e.g. by long name) are not found or are the wrong ones' % miss,
                   fi.loc, key='%s|%s|%s' % (rule, fq, ','.join(miss)))
    chk.floor('functions that copy a parsed structure onto an element', n, 3)


def no_process_state(chk, c, rule, funcs, what):
    """the listed functions write no module- or class-level object (a memo keyed by less than everything the result depends on
    makes the result depend on what the process did before)"""
    ix, fx = c.index, c.fx
    n = 0
    for fq in funcs:
        fi = ix.func(fq)
        if fi is None:
            continue
        n += 1
        bad = []
        for w in fx.writes.get(fq, ()):
            sh = fx.resolve_shared(w)
            if sh:
                bad.append('writes %s' % sorted(sh)[0][2])
        chk.ob(rule, '%s keeps no state between calls' % fq, not bad,
               '%s: %s then depends on the history of the process (what was parsed before), not only on the message and its '
               'structure' % ('; '.join(sorted(set(bad))[:3]), what), fi.loc, key='%s|%s' % (rule, fq))
    return n
