"""Code lemmas shared by C01 and C02: separator agreement of each reader/writer pair, ordinal naming, encoder order,
open-ended segment bookkeeping, MSH-1/MSH-2 pairing, verbatim flow of leaf text."""
import ast

from ..src import own_nodes, norm
from ..report import AnalysisError


def split_keys(fi):
    """encoding_chars keys a parser function splits on"""
    var_key = {}
    for n in own_nodes(fi.node):
        if isinstance(n, ast.Assign) and isinstance(n.value, ast.Subscript) and norm(n.value.value) == 'encoding_chars' and \
                isinstance(n.value.slice, ast.Constant) and isinstance(n.targets[0], ast.Name):
            var_key[n.targets[0].id] = n.value.slice.value
    keys = set()
    for n in own_nodes(fi.node):
        if isinstance(n, ast.Call) and isinstance(n.func, ast.Attribute) and n.func.attr == 'split' and n.args:
            a = n.args[0]
            if isinstance(a, ast.Name) and a.id in var_key:
                keys.add(var_key[a.id])
            elif isinstance(a, ast.Subscript) and norm(a.value) == 'encoding_chars' and isinstance(a.slice, ast.Constant):
                keys.add(a.slice.value)
    return keys


def first_child_class(ix, ci):
    """name of the first value of child_classes for class ci (class constant or the dict assigned in __init__)"""
    cc = None
    for k in ci.mro:
        if 'child_classes' in k.attrs:
            cc = k.attrs['child_classes']
            break
        init = k.methods.get('__init__')
        if init is not None:
            for n in own_nodes(init.node):
                if isinstance(n, ast.Assign) and norm(n.targets[0]) == 'self.child_classes' and isinstance(n.value, ast.Dict):
                    cc = n.value
            if cc is not None:
                break
    if isinstance(cc, ast.Dict) and cc.values and isinstance(cc.values[0], ast.Name):
        return cc.values[0].id
    return None


def separators(chk, c, rule):
    ix = c.index
    chk.rule(rule, 'for every element class, the separator its encoder joins its children with is the separator its children '
                   'parser (child_parser[1]) splits on')
    generic = ix.func('core.Element.to_er7')
    gen_ok = any(isinstance(n, ast.Assign) and norm(n.targets[0]) == 'child_class' and
                 norm(n.value) == 'list(self.child_classes.values())[0]' for n in own_nodes(generic.node)) and \
        any(isinstance(n, ast.Assign) and norm(n.targets[0]) == 'separator' and
            norm(n.value).startswith("encoding_chars.get(child_class.__name__.upper()") for n in own_nodes(generic.node)) and \
        any(isinstance(n, ast.Return) and norm(n.value) == 'separator.join(s)' for n in own_nodes(generic.node))
    n_inst = 0
    for cname in ('Segment', 'Field', 'Component', 'Group', 'Message'):
        ci = ix.cls('core.' + cname)
        cp = ci.find_attr('child_parser')
        if not (isinstance(cp, ast.Tuple) and len(cp.elts) == 2 and isinstance(cp.elts[1], ast.Constant)):
            raise AnalysisError('core.%s.child_parser is not a 2-tuple of names' % cname)
        pf = ix.func('parser.' + cp.elts[1].value)
        pkeys = split_keys(pf)
        te7 = ci.find_method('to_er7')
        if te7 is generic:
            if not gen_ok:
                raise AnalysisError('Element.to_er7: the separator computation was not recognised')
            fc = first_child_class(ix, ci)
            ekeys = {fc.upper()} if fc else set()
        else:
            ekeys = set()
            for n in own_nodes(te7.node):
                if isinstance(n, ast.Call) and norm(n.func) == 'encoding_chars.get' and n.args and isinstance(n.args[0], ast.Constant):
                    var = None
                    p = getattr(n, '_parent', None)
                    if isinstance(p, ast.Assign):
                        var = norm(p.targets[0])
                    # only separators that are actually used in a join
                    if var and any(isinstance(x, ast.Call) and norm(x.func) == var + '.join' for x in own_nodes(te7.node)):
                        ekeys.add(n.args[0].value)
            if te7.qualname == 'core.Field.to_er7':
                fc = first_child_class(ix, ci)
                ekeys = {fc.upper()} if fc else set()
        n_inst += 1
        ok = bool(pkeys) and ekeys == pkeys
        chk.ob(rule, '%s: encoder joins with %s, %s splits on %s' % (cname, sorted(ekeys), pf.qualname, sorted(pkeys)), ok,
               'reader and writer of this level disagree on the separator: parse -> encode cannot be the identity', te7.loc,
               key='%s|%s' % (rule, cname))
    chk.floor('reader/writer pairs', n_inst, 5)


def ordinal_naming(chk, c, rule):
    ix = c.index
    chk.rule(rule, 'the parsers name the i-th piece <prefix>_<i> (enumerate start + addend = 1), i.e. the name the tables give '
                   'that position')
    for fq in ('parser.parse_fields', 'parser.parse_components', 'parser.parse_subcomponents'):
        fi = ix.func(fq)
        loops = [n for n in own_nodes(fi.node) if isinstance(n, ast.For) and isinstance(n.iter, ast.Call) and
                 norm(n.iter.func) == 'enumerate']
        if not loops:
            raise AnalysisError('%s: enumerate loop not found' % fq)
        lp = loops[0]
        start = 0
        if len(lp.iter.args) > 1 and isinstance(lp.iter.args[1], ast.Constant):
            start = lp.iter.args[1].value
        for k in lp.iter.keywords:
            if k.arg == 'start' and isinstance(k.value, ast.Constant):
                start = k.value.value
        counter = norm(lp.target.elts[0]) if isinstance(lp.target, ast.Tuple) else None
        if counter is None:
            raise AnalysisError('%s: enumerate target not recognised' % fq)
        nnames = 0
        for n in ast.walk(lp):
            if isinstance(n, ast.Call) and isinstance(n.func, ast.Attribute) and n.func.attr == 'format' and \
                    isinstance(n.func.value, ast.Constant) and '_{' in str(n.func.value.value) and len(n.args) == 2:
                idx = n.args[1]
                add = None
                if isinstance(idx, ast.Name) and idx.id == counter:
                    add = 0
                elif isinstance(idx, ast.BinOp) and isinstance(idx.op, ast.Add) and isinstance(idx.left, ast.Name) and \
                        idx.left.id == counter and isinstance(idx.right, ast.Constant):
                    add = idx.right.value
                elif isinstance(idx, ast.BinOp) and isinstance(idx.op, ast.Add) and isinstance(idx.right, ast.Name) and \
                        idx.right.id == counter and isinstance(idx.left, ast.Constant):
                    add = idx.left.value
                nnames += 1
                ok = add is not None and start + add == 1
                chk.ob(rule, '%s: `%s`' % (fq, norm(n)[:60]), ok,
                       'the piece at position i is named with index %s + %s: encode and parse disagree on every position' % (
                           'enumerate-start %d' % start, add), '%s:%d' % (fi.module.relpath, n.lineno),
                       key='%s|%s|%s' % (rule, fq, norm(n.func.value)))
        if nnames == 0:
            raise AnalysisError('%s: no positional name construction found' % fq)


def encoder_order(chk, c, rule):
    ix = c.index
    chk.rule(rule, 'the encoder emits children in table order: ordered_children is filled only by append in table order and is '
                   'never reordered on the way to the join')
    ps = ix.func('core.ElementFinder._parse_structure')
    appends = [n for n in own_nodes(ps.node) if isinstance(n, ast.Call) and norm(n.func) == 'ordered_children.append']
    loop = [n for n in own_nodes(ps.node) if isinstance(n, ast.For) and norm(n.iter) == 'children']
    src = [norm(n.value) for n in own_nodes(ps.node) if isinstance(n, ast.Assign) and norm(n.targets[0]) == 'children']
    ok = len(appends) == 1 and len(loop) == 1 and any(a is x for a in appends for x in ast.walk(loop[0])) and src == ['reference[1]']
    others = [norm(n)[:50] for n in own_nodes(ps.node) if isinstance(n, ast.Call) and isinstance(n.func, ast.Attribute) and
              norm(n.func.value) == 'ordered_children' and n.func.attr != 'append']
    chk.ob(rule, '_parse_structure appends each child key once, in the order of reference[1]', ok and not others,
           'appends %d, other operations %s' % (len(appends), others), ps.loc, key='%s|fill' % rule)
    goc = ix.func('core.ElementList.get_ordered_children')
    comp = [n for n in own_nodes(goc.node) if isinstance(n, ast.ListComp)]
    ok = len(comp) == 1 and norm(comp[0].generators[0].iter) == 'ordered_keys' and not comp[0].generators[0].ifs and \
        norm(comp[0].elt).startswith('self.indexes.get(')
    chk.ob(rule, 'get_ordered_children maps the keys in order, one slot per key', ok, '', goc.loc, key='%s|map' % rule)
    for fq in ('core.Element._get_children', 'core.Segment._get_children', 'core.Element.to_er7', 'core.Segment.to_er7',
               'core.ElementList.get_ordered_children', 'core._remove_trailing'):
        fi = ix.func(fq)
        bad = [norm(n)[:40] for n in own_nodes(fi.node) if isinstance(n, ast.Call) and (
            (isinstance(n.func, ast.Name) and n.func.id in ('sorted', 'set', 'frozenset')) or
            (isinstance(n.func, ast.Attribute) and n.func.attr in ('sort', 'reverse', 'insert')) or
            (isinstance(n.func, ast.Name) and n.func.id == 'reversed' and fq != 'core._remove_trailing'))]
        chk.ob(rule, '%s does not reorder' % fq, not bad, 'reordering: %s' % bad, fi.loc, key='%s|%s' % (rule, fq))
    rt = ix.func('core._remove_trailing')
    rp = rt.params[0]
    rebinds = [n.value for n in own_nodes(rt.node) if isinstance(n, ast.Assign) and norm(n.targets[0]) == rp]
    # every rebinding keeps a prefix (children[:k]); what is cut is tested for emptiness (`not x`)
    ok = bool(rebinds) and all(isinstance(v, ast.Subscript) and norm(v.value) == rp and isinstance(v.slice, ast.Slice) and
                               v.slice.lower is None and v.slice.step is None for v in rebinds) and \
        any(isinstance(n, ast.UnaryOp) and isinstance(n.op, ast.Not) for n in ast.walk(rt.node)) and \
        all(norm(r.value) == rp for r in own_nodes(rt.node) if isinstance(r, ast.Return))
    chk.ob(rule, '_remove_trailing only cuts empty slots off the end', ok, '', rt.loc, key='%s|trailing' % rule)
    # Segment.to_er7 keeps one slot per entry (empty string for a missing child)
    st = ix.func('core.Segment.to_er7')
    ok = any(isinstance(n, ast.If) and norm(n.test) == 'child is not None' and n.orelse for n in own_nodes(st.node)) and \
        any(isinstance(n, ast.Return) and norm(n.value) == 'separator.join(s)' for n in own_nodes(st.node))
    he = ix.func('core.Segment._handle_empty_children')
    ok = ok and any(isinstance(n, ast.Return) and isinstance(n.value, ast.Constant) and n.value.value == '' for n in own_nodes(he.node))
    chk.ob(rule, 'Segment.to_er7 emits an empty slot for every missing position', ok, '', st.loc, key='%s|empty-slot' % rule)


def open_ended(chk, c, rule):
    ix = c.index
    chk.rule(rule, 'open-ended segments (Z-segments, last field of type varies): slots beyond the table are '
                   'range(last_allowed + 1, last_used + 1), named <SEG>_<i>; add() raises last_used to the index added')
    gc = ix.func('core.Segment._get_children')
    loops = [n for n in own_nodes(gc.node) if isinstance(n, ast.For)]
    ok = False
    for lp in loops:
        if norm(lp.iter) in ('xrange(self._last_allowed_child_index + 1, self._last_child_index + 1)',
                             'range(self._last_allowed_child_index + 1, self._last_child_index + 1)'):
            i = norm(lp.target)
            body = ' '.join(norm(s) for s in lp.body)
            if ("'{}_{}'.format(self.name, %s)" % i) in body or ("'{0}_{1}'.format(self.name, %s)" % i) in body:
                ok = 'children.append(self.children.indexes.get(' in body
    chk.ob(rule, '_get_children emits one slot for each index last_allowed+1 .. last_used', ok, '', gc.loc, key='%s|range' % rule)
    ad = ix.func('core.Segment.add')
    src = [norm(n) for n in own_nodes(ad.node) if isinstance(n, (ast.Assign, ast.If))]
    objp = ad.call_params()[0]
    idx_var = None
    for n in own_nodes(ad.node):
        if isinstance(n, ast.Assign) and isinstance(n.targets[0], ast.Name) and norm(n.value) in (
                'int(%s.name[4:])' % objp, "int(%s.name.split('_')[-1])" % objp, "int(%s.name.split('_')[1])" % objp,
                "int(%s.name.rsplit('_', 1)[1])" % objp):
            idx_var = n.targets[0].id
    ok = idx_var is not None and (any(
        s.startswith('if %s > self._last_child_index:' % idx_var) and 'self._last_child_index = %s' % idx_var in s for s in src) or any(
        s in ('self._last_child_index = max(self._last_child_index, %s)' % idx_var,
              'self._last_child_index = max(%s, self._last_child_index)' % idx_var) for s in src))
    chk.ob(rule, 'add() raises last_used to the suffix of the added field iff greater', ok, '', ad.loc, key='%s|add' % rule)
    ini = ix.func('core.Segment.__init__')
    src = {norm(n) for n in own_nodes(ini.node) if isinstance(n, ast.Assign)}
    ok = "self._last_allowed_child_index = int(last_field_structure['name'][4:])" in src and \
        'self._last_child_index = self._last_allowed_child_index' in src and 'last_field = self.ordered_children[-1]' in src and \
        'self._last_allowed_child_index = 0' in src and 'self._last_child_index = 0' in src
    chk.ob(rule, '__init__ starts both bounds at the suffix of the last table field (0 for Z-segments)', ok, '', ini.loc, key='%s|init' % rule)
    ok = "self.allow_infinite_children = last_field_structure['ref'][2] == 'varies'" in src and 'self.allow_infinite_children = True' in src
    chk.ob(rule, 'a segment is open-ended iff it is a Z-segment or its last field is varies', ok, '', ini.loc, key='%s|flag' % rule)
    fcr = ix.func('core.Segment.find_child_reference')
    ok = any(isinstance(n, ast.If) and norm(n.test) == 'self.allow_infinite_children and _valid_child_name(name, self.name)'
             for n in own_nodes(fcr.node))
    chk.ob(rule, 'fields beyond the table are accepted only when named <SEG>_<n>', ok, '', fcr.loc, key='%s|names' % rule)


def msh_pairing(chk, c, rule):
    ix = c.index
    chk.rule(rule, 'MSH-1/MSH-2: the parser inserts an MSH_1 field holding the field separator and does not split MSH_2 on the '
                   'repetition separator; the encoder removes slot 1 again and emits MSH-1/MSH-2 raw; both strip 3 characters for MSH')
    pf = ix.func('parser.parse_fields')
    ok1 = any(isinstance(n, ast.If) and norm(n.test) in ("name == 'MSH_1'",) and
              any('parse_field(field_sep' in norm(b) for b in n.body) for n in own_nodes(pf.node))
    chk.ob(rule, 'parse_fields inserts MSH_1 = field separator', ok1, '', pf.loc, key='%s|insert' % rule)
    ok2 = False
    for n in own_nodes(pf.node):
        if isinstance(n, ast.If) and norm(n.test) in ("name == 'MSH_2'", "name in ('MSH_2',)", "name in ['MSH_2']", "'MSH_2' == name"):
            ok2 = not any(isinstance(x, ast.Call) and isinstance(x.func, ast.Attribute) and x.func.attr == 'split'
                          for b in n.body for x in ast.walk(b)) and any('parse_field(field,' in norm(b) for b in n.body)
    chk.ob(rule, 'parse_fields does not split MSH_2 on the repetition separator', ok2, '', pf.loc, key='%s|msh2' % rule)
    st = ix.func('core.Segment.to_er7')
    ok3 = any(isinstance(n, ast.If) and norm(n.test) == "self.name == 'MSH' and len(s) > 1" and
              any(norm(b) == 's.pop(1)' for b in n.body) for n in own_nodes(st.node))
    chk.ob(rule, 'Segment.to_er7 removes the MSH_1 slot', ok3, '', st.loc, key='%s|pop' % rule)
    ft = ix.func('core.Field.to_er7')
    ok4 = any(isinstance(n, ast.If) and norm(n.test) == "self.is_named('MSH_1')" for n in own_nodes(ft.node)) and \
        any(isinstance(n, ast.If) and norm(n.test) == "self.is_named('MSH_2')" for n in own_nodes(ft.node))
    chk.ob(rule, 'Field.to_er7 emits MSH-1/MSH-2 raw (unescaped)', ok4, '', ft.loc, key='%s|raw' % rule)
    for fq in ('parser.parse_segment', 'core.Segment.parse_children'):
        fi = ix.func(fq)
        ok = any(isinstance(n, ast.Assign) and norm(n.value) == "text[4:] if segment_name != 'MSH' else text[3:]"
                 for n in own_nodes(fi.node))
        chk.ob(rule, '%s strips 3 characters for MSH and 4 otherwise' % fq, ok, '', fi.loc, key='%s|strip|%s' % (rule, fq))
    pfd = ix.func('parser.parse_field')
    ok = any(isinstance(n, ast.If) and norm(n.test) == "name in ('MSH_1', 'MSH_2')" and
             any('SubComponent(datatype=\'ST\', value=text' in norm(b) for b in n.body) for n in own_nodes(pfd.node))
    chk.ob(rule, 'parse_field stores MSH-1/MSH-2 as one unsplit ST value', ok, '', pfd.loc, key='%s|unsplit' % rule)


def verbatim_flow(chk, c, rule):
    ix = c.index
    chk.rule(rule, 'leaf text flows from the message text to SubComponent(value=...) through split / slicing of the segment name / '
                   'strip of a whole segment line only: no piece is stripped, case-folded or rewritten on the way down')
    from .c03 import piece_loops
    chain = [('parser.parse_segments', 'parse_segment', ('{p}.strip()', '{p}')),
             ('parser.parse_fields', 'parse_field', ('{p}',)),
             ('parser.parse_components', 'parse_component', ('{p}',)),
             ('parser.parse_subcomponents', 'parse_subcomponent', ('{p}',))]
    nedges = 0
    for fq, callee, forms in chain:
        fi = ix.func(fq)
        loops = piece_loops(fi)
        pieces = {p for _, p in loops}
        calls = [n for n in own_nodes(fi.node) if isinstance(n, ast.Call) and norm(n.func) == callee]
        if not calls:
            raise AnalysisError('%s no longer calls %s' % (fq, callee))
        for cl in calls:
            a0 = norm(cl.args[0]) if cl.args else None
            okforms = {f.format(p=p) for p in pieces for f in forms} | ({'field_sep'} if callee == 'parse_field' else set())
            nedges += 1
            chk.ob(rule, '%s hands `%s` to %s' % (fq, a0, callee), a0 in okforms,
                   'the piece is transformed (`%s`) before it is parsed: the encoded text can differ from the input' % a0,
                   '%s:%d' % (fi.module.relpath, cl.lineno), key='%s|%s|%s' % (rule, fq, a0))
    # the text parameter is not rewritten inside the single-element parsers
    allowed = {'parser.parse_segment': {"text[4:] if segment_name != 'MSH' else text[3:]"},
               'parser.parse_fields': {"text.strip('\\r')"},
               'parser.parse_field': set(), 'parser.parse_component': set(), 'parser.parse_subcomponent': set(),
               'parser.parse_components': set(), 'parser.parse_subcomponents': set()}
    for fq, ok_forms in sorted(allowed.items()):
        fi = ix.func(fq)
        rew = [norm(n.value) for n in own_nodes(fi.node) if isinstance(n, ast.Assign) and norm(n.targets[0]) == 'text']
        bad = [r for r in rew if r not in ok_forms]
        nedges += 1
        chk.ob(rule, '%s does not rewrite its text' % fq, not bad, 'text is reassigned: %s' % bad, fi.loc, key='%s|%s|text' % (rule, fq))
    for fq, arg in (('parser.parse_field', 'parse_components'), ('parser.parse_component', 'parse_subcomponents'),
                    ('parser.parse_segment', 'parse_fields')):
        fi = ix.func(fq)
        calls = [n for n in own_nodes(fi.node) if isinstance(n, ast.Call) and norm(n.func) == arg]
        ok = bool(calls) and all(cl.args and norm(cl.args[0]) == 'text' for cl in calls)
        nedges += 1
        chk.ob(rule, '%s passes its text unchanged to %s' % (fq, arg), ok, '', fi.loc, key='%s|%s|down' % (rule, fq))
    psc = ix.func('parser.parse_subcomponent')
    ok = any(isinstance(n, ast.Call) and norm(n.func) == 'SubComponent' and any(k.arg == 'value' and norm(k.value) == 'text'
                                                                                 for k in n.keywords) for n in own_nodes(psc.node))
    nedges += 1
    chk.ob(rule, 'parse_subcomponent stores the text as the leaf value', ok, '', psc.loc, key='%s|leaf' % rule)
    chk.floor('flow edges checked', nedges, 12)


def _string_ordered_names(fnode):
    """calls that order / take the extremum of child names as *strings* (lexicographic: 'X_10' < 'X_9')"""
    out = []
    for n in ast.walk(fnode):
        if isinstance(n, ast.Call) and ((isinstance(n.func, ast.Name) and n.func.id in ('max', 'min', 'sorted')) or
                                        (isinstance(n.func, ast.Attribute) and n.func.attr == 'sort')):
            args = list(n.args) + [k.value for k in n.keywords if k.arg != 'key']
            key = [k.value for k in n.keywords if k.arg == 'key']
            # a local variable stands for what it was built from
            expanded = []
            for a in args:
                expanded.append(a)
                if isinstance(a, ast.Name):
                    for d in ast.walk(fnode):
                        if isinstance(d, ast.Assign) and any(isinstance(t, ast.Name) and t.id == a.id for t in d.targets):
                            expanded.append(d.value)
            text = ' '.join(norm(a) for a in expanded)
            ktext = ' '.join(norm(k) for k in key)
            names = ('.name' in text or 'indexes' in text or '.keys()' in text or 'ordered_children' in text)
            numeric = 'int(' in text or 'int(' in ktext
            if names and not numeric:
                out.append(n)
    return out


def no_string_ordering(chk, c, rule):
    ix = c.index
    chk.rule(rule, 'positional child names (<X>_<n>) are never ordered or maximised as strings (lexicographic order puts X_10 before X_9)')
    # positive control: the matcher must recognise the pattern on a synthetic snippet
    probe = ast.parse("def f(self):\n    last = max(c.name for c in self.children)\n    return sorted(self.children.indexes)")
    for x in ast.walk(probe):
        for ch in ast.iter_child_nodes(x):
            ch._parent = x
    if len(_string_ordered_names(probe)) != 2:
        raise AnalysisError('positive control of the string-ordering matcher failed')
    n = 0
    for fq in sorted(ix.functions):
        fi = ix.functions[fq]
        if fi.module.name not in ('core', 'parser', 'validation'):
            continue
        n += 1
        for call in _string_ordered_names(fi.node):
            chk.fail(rule, '%s: `%s`' % (fq, norm(call)[:60]),
                     'child names are compared as strings: positions >= 10 sort before 2..9, so children beyond the ninth are lost '
                     'or misplaced', '%s:%d' % (fi.module.relpath, call.lineno), key='%s|%s|%s' % (rule, fq, norm(call)[:50]))
    chk.ok(rule, 'functions of core/parser/validation scanned: %d' % n, '', key='%s|scan' % rule)


def ancestor_lookup(chk, c, rule):
    """An element that is being created by attribute traversal has no parent yet; the element it is created under is
    its traversal_parent.  A context getter that walks up through `parent` and falls back to the process-wide defaults
    must walk up through `traversal_parent` as well, otherwise text assigned below a lazily created element is parsed
    with the default delimiters instead of the message's.  Decided on the CFG of every encoding_chars getter that calls
    get_default_encoding_chars: the call is unreachable unless an edge establishing `traversal_parent is None` was taken."""
    import ast
    from ..cfg import cfg_of, ENTRY, edge_implies
    from ..src import own_nodes, norm
    ix = c.index
    T_POS = ('self.traversal_parent is None', 'not self.traversal_parent', 'self._traversal_parent is None')
    T_NEG = ('self.traversal_parent is not None', 'self.traversal_parent', 'self._traversal_parent is not None',
             'self._traversal_parent')
    P_POS = ('self.parent is None', 'not self.parent', 'self._parent is None')
    P_NEG = ('self.parent is not None', 'self.parent', 'self._parent is not None', 'self._parent')
    n = 0
    elem = ix.cls('core.Element')
    seen = set()
    for ci in ix.subclasses(elem):
        p = ci.find_property('encoding_chars')
        if p is None or p[0] is None or p[0].qualname in seen:
            continue
        fi = p[0]
        seen.add(fi.qualname)
        defaults = [x for x in own_nodes(fi.node) if isinstance(x, ast.Call) and norm(x.func).endswith('get_default_encoding_chars')]
        # local variables that stand for one of the two links (flow-insensitive: `up = self.parent` ... `up = self.traversal_parent`)
        alias = {'parent': set(), 'traversal_parent': set()}
        for x in own_nodes(fi.node):
            if isinstance(x, ast.Assign) and len(x.targets) == 1 and isinstance(x.targets[0], ast.Name):
                v = norm(x.value)
                if v in ('self.parent', 'self._parent'):
                    alias['parent'].add(x.targets[0].id)
                if v in ('self.traversal_parent', 'self._traversal_parent'):
                    alias['traversal_parent'].add(x.targets[0].id)
        links = ('self.parent', 'self._parent') + tuple(alias['parent'])
        walks_parent = any(isinstance(x, ast.Attribute) and x.attr == 'encoding_chars' and norm(x.value) in links
                           for x in own_nodes(fi.node))
        if not defaults or not walks_parent:
            continue          # getters with their own storage (Message) are not ancestor look-ups
        n += 1
        g = cfg_of(fi)
        for which, pos, neg in (('parent', P_POS, P_NEG), ('traversal_parent', T_POS, T_NEG)):
            pos = tuple(pos) + tuple(t % v for v in alias[which] for t in ('%s is None', 'not %s'))
            neg = tuple(neg) + tuple(t % v for v in alias[which] for t in ('%s is not None', '%s'))
            def labels_ok(src, dst, lab, g=g, pos=pos, neg=neg):
                nd = g.nodes[src]
                return not (nd.kind == 'test' and edge_implies(nd.ast, lab, pos, neg))
            reach = g.reach(ENTRY, labels_ok=labels_ok)
            bad = [d for d in defaults if g.node_for(d) in reach]
            chk.ob(rule, '%s falls back to the defaults only when the element has no %s' % (fi.qualname, which), not bad,
                   'get_default_encoding_chars() is reachable without `self.%s is None` having been established: an element '
                   'created lazily under a message with its own delimiters parses assigned text with the process-wide '
                   'defaults' % which, fi.loc, key='%s|%s|%s' % (rule, fi.qualname, which))
    chk.floor('ancestor look-ups of the encoding characters', n, 1)
