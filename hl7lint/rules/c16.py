"""C16 -- MLLP: one framed request in, exactly one correctly routed reply out (partial: framing constants, path rules
of handle(), routing, chunk-boundary independence, per-connection state; TCP delivery and scheduling are declined)."""
import ast
import re
try:
    import re._parser as sre_parse      # py >= 3.11
except ImportError:                      # pragma: no cover
    import sre_parse

from .. import ctx as ctxmod
from ..cfg import cfg_of, ENTRY, EXIT, RAISE
from ..consteval import ConstEval, NotConstant, Sym
from ..src import own_nodes, norm
from ..report import AnalysisError
from . import treefacts as tf


def run(chk):
    c = ctxmod.get()
    ix, cg, te, fx = c.index, c.cg, c.te, c.fx
    ce = ConstEval(ix, te)
    chk.rule('C16-F', 'framing constants agree at three sites: Message.to_mllp = SB + er7 + CR + EB + CR, consts.MLLP_ENCODING_CHARS, '
                      'and the server (setup bytes, frame regex, end sequence)')
    chk.rule('C16-H', 'handle(): every normal exit closes the request; at most one reply is written, only after routing; routing '
                      'happens at most once and only for an extracted message')
    chk.rule('C16-R', '_route_message: the handler is looked up by the value get_message_type returned; KeyError becomes '
                      'UnsupportedMessageType(msg_type); every path ends in exactly one reply() or a re-raise')
    chk.rule('C16-C', 'chunk-boundary independence: one raw recv, not in a loop, feeding only the accumulator that the loop '
                      'condition and the extraction read')
    chk.rule('C16-T', 'per-connection state: the server is a ThreadingTCPServer; the handler writes only its own attributes')

    core = ix.module('core')
    consts = ix.module('consts')
    mllp = ix.module('mllp')
    # ---- F
    mec = consts.classes.get('MLLP_ENCODING_CHARS')
    if mec is None:
        raise AnalysisError('consts.MLLP_ENCODING_CHARS not found')
    K = {}
    for k in ('SB', 'EB', 'CR'):
        try:
            K[k] = ce.eval(mec.attrs[k], consts)
        except (KeyError, NotConstant):
            raise AnalysisError('consts.MLLP_ENCODING_CHARS.%s is not a constant' % k)
    ok = K == {'SB': '\x0b', 'EB': '\x1c', 'CR': '\r'}
    chk.ob('C16-F', 'consts: SB=0x0b EB=0x1c CR=0x0d', ok, 'found %r' % K, '%s:%d' % (consts.relpath, mec.node.lineno),
           key='C16-F|consts')
    tm = ix.func('core.Message.to_mllp')
    rets = [n for n in own_nodes(tm.node) if isinstance(n, ast.Return)]
    frame = None
    if len(rets) == 1:
        try:
            frame = ce.eval(rets[0].value, core, tm, symbolic=True)
        except Exception as e:      # shape not recognised
            frame = None
    shape = None
    if isinstance(frame, list):
        shape = ['ER7' if isinstance(x, Sym) else x for x in frame]
    ok = shape == [K['SB'], 'ER7', K['CR'] + K['EB'] + K['CR']] or shape == [K['SB'], 'ER7', K['CR'], K['EB'], K['CR']]
    # the one non-constant piece of the frame is the message's own ER7 encoding
    sym_ok = False
    if len(rets) == 1:
        from .pat import inline_locals
        whole = inline_locals(rets[0].value, tm.node)
        nonconst = []
        for x in ast.walk(whole):
            if isinstance(x, ast.FormattedValue):
                nonconst.append(x.value)
        if not nonconst and isinstance(whole, ast.Call):
            nonconst = list(whole.args)
        payload = [x for x in nonconst if isinstance(x, ast.Call)]
        sym_ok = len(payload) == 1 and norm(payload[0].func) == 'self.to_er7'
    chk.ob('C16-F', 'to_mllp() = SB + self.to_er7(...) + CR + EB + CR', bool(ok and sym_ok),
           'evaluates to %r (payload expression ok: %s)' % (shape, sym_ok), tm.loc, key='C16-F|to_mllp')
    setup = ix.func('mllp.MLLPRequestHandler.setup')
    hb = {}
    for k, attr in (('SB', 'sb'), ('EB', 'eb'), ('CR', 'cr')):
        try:
            v = ce.eval(ast.Attribute(value=ast.Name(id='self', ctx=ast.Load()), attr=attr, ctx=ast.Load()), mllp, setup)
            hb[k] = v.decode('latin-1') if isinstance(v, bytes) else v
        except NotConstant:
            hb[k] = None
    chk.ob('C16-F', 'handler bytes equal the constants', hb == K, 'handler uses %r' % hb, setup.loc, key='C16-F|handler-bytes')
    pat = None
    for n in own_nodes(setup.node):
        if isinstance(n, ast.Call) and norm(n.func) == 're.compile' and n.args:
            try:
                pat = ce.eval(n.args[0], mllp, setup)
            except NotConstant:
                pat = None
    if not isinstance(pat, str):
        raise AnalysisError('MLLPRequestHandler.setup: frame regex is not a constant expression')
    tree = sre_parse.parse(pat)
    items = list(tree)
    ok_shape = len(items) >= 4 and str(items[0][0]) == 'LITERAL' and items[0][1] == ord(K['SB']) and \
        str(items[-2][0]) == 'LITERAL' and items[-2][1] == ord(K['EB']) and \
        str(items[-1][0]) == 'LITERAL' and items[-1][1] == ord(K['CR']) and \
        all(str(it[0]) == 'SUBPATTERN' for it in items[1:-2]) and len(items[1:-2]) == 1 and items[1][1][0] == 1
    chk.ob('C16-F', 'frame regex is SB (group 1) EB CR', ok_shape, 'pattern %r' % pat, setup.loc, key='C16-F|regex-shape')
    # bounded exhaustive language check of the extracted pattern over the symbolic alphabet {SB, EB, CR, LF, x}
    rx = re.compile(pat)
    alpha = [K['SB'], K['EB'], K['CR'], '\n', 'x']      # LF: the one character `.` does not match by default
    import itertools
    nstr = 0
    bad = None
    for ln in range(0, 6):
        for body in itertools.product(alpha, repeat=ln):
            body = ''.join(body)
            nstr += 1
            s = K['SB'] + body + K['EB'] + K['CR']
            m = rx.match(s)
            wellformed = bool(body) and K['SB'] not in body and K['EB'] not in body and K['CR'] + K['CR'] not in body \
                and not body.startswith(K['CR'])
            if wellformed:
                if not (m and m.group(1) == body and m.end() == len(s)):
                    bad = bad or ('well-formed frame %r: %s' % (s, 'no match' if not m else 'group 1 = %r' % m.group(1)))
            # a frame must never be accepted with a payload that differs from the text between SB and the final EB CR
            if m and m.end() == len(s) and m.group(1) != body:
                bad = bad or ('frame %r extracted as %r' % (s, m.group(1)))
    chk.count('frames enumerated for the regex language check', nstr)
    chk.ob('C16-F', 'the regex accepts every SB (line CR)* line [CR] EB CR frame and extracts exactly the framed text', bad is None,
           bad or '', setup.loc, key='C16-F|regex-language')
    hd = ix.func('mllp.MLLPRequestHandler.handle')
    acc0 = None
    for n in own_nodes(hd.node):
        if isinstance(n, ast.Assign) and isinstance(n.value, ast.Call) and norm(n.value.func) == 'self.request.recv':
            acc0 = norm(n.targets[0])
    if acc0 is None:
        raise AnalysisError('handle(): the initial recv into an accumulator variable was not found')
    endseq = None
    for n in own_nodes(hd.node):
        if isinstance(n, ast.Assign) and norm(n.value) in ('self.eb + self.cr',):
            endseq = norm(n.targets[0])
    loop_ok = False
    for n in own_nodes(hd.node):
        if isinstance(n, ast.While) and endseq and norm(n.test) in ('%s[-2:] != %s' % (acc0, endseq), 'not %s.endswith(%s)' % (acc0, endseq)):
            loop_ok = True
    chk.ob('C16-F', 'handle() reads until the accumulator ends with EB CR', bool(endseq) and loop_ok,
           'end sequence %s, loop condition ok: %s' % (endseq, loop_ok), hd.loc, key='C16-F|end-seq')

    # ---- H
    g = cfg_of(hd)
    close = {nid for nid, nd in g.nodes.items() if nd.kind == 'stmt' and norm(nd.ast) == 'self.request.close()'}
    chk.floor('close() statements in handle()', len(close), 3)
    reach_noclose = g.reach(ENTRY, avoid=close, labels_ok=lambda n, d, l: not (l == 'exc' and d == RAISE))
    chk.ob('C16-H', 'every normal exit of handle() passes through self.request.close()', EXIT not in reach_noclose,
           'a path reaches the end of handle() without closing: %s' % g.describe(
               (g.path(ENTRY, EXIT, avoid=close, labels_ok=lambda n, d, l: not (l == 'exc' and d == RAISE)) or [])[-4:]),
           hd.loc, key='C16-H|close')
    writes = {nid for nid, nd in g.nodes.items() if any(isinstance(x, ast.Call) and norm(x.func) == 'self.wfile.write'
                                                         for x in ast.walk(nd.ast)) and nd.kind == 'stmt'}
    routes = {nid for nid, nd in g.nodes.items() if any(isinstance(x, ast.Call) and norm(x.func) == 'self._route_message'
                                                         for x in ast.walk(nd.ast)) and nd.kind == 'stmt'}
    chk.floor('reply write statements', len(writes), 1)
    chk.floor('route calls', len(routes), 1)
    normal = lambda n, d, l: l != 'exc'
    twice = any((w2 in g.reach(w, labels_ok=normal)) for w in writes for w2 in writes)
    chk.ob('C16-H', 'at most one reply is written per connection', not twice, 'a second wfile.write is reachable after the first',
           hd.loc, key='C16-H|one-write')
    before = g.reach(ENTRY, avoid=routes, labels_ok=lambda n, d, l: True)
    chk.ob('C16-H', 'a reply is written only after _route_message returned', not (writes & before),
           'wfile.write is reachable without routing', hd.loc, key='C16-H|write-after-route')
    # the write must not be reachable through the exceptional edge of the route call
    exc_after = set()
    for r in routes:
        for d, lab in g.succ[r]:
            if lab == 'exc':
                exc_after |= {d} | g.reach(d)
    only_exc = {w for w in writes if w in exc_after and not any(w in g.reach(r, labels_ok=normal) for r in routes)}
    chk.ob('C16-H', 'no reply is written when routing raised', not only_exc, '', hd.loc, key='C16-H|no-write-on-error')
    rtwice = any((r2 in g.reach(r)) for r in routes for r2 in routes)
    chk.ob('C16-H', 'routing happens at most once per connection', not rtwice, '', hd.loc, key='C16-H|one-route')
    # routing only under `message is not None` where message comes from _extract_hl7_message
    okg = True
    for r in routes:
        nd = g.nodes[r]
        from .forwarding import branch_context
        p = nd.ast
        conds = []
        child = p
        while p is not None and p is not hd.node:
            par = getattr(p, '_parent', None)
            if isinstance(par, ast.If) and any(p is b for b in par.body):
                conds.append(norm(par.test))
            p = par
        msgvar = None
        for x in ast.walk(nd.ast):
            if isinstance(x, ast.Call) and norm(x.func) == 'self._route_message' and x.args:
                msgvar = norm(x.args[0])
        src = [norm(a.value) for a in own_nodes(hd.node) if isinstance(a, ast.Assign) and norm(a.targets[0]) == msgvar]
        okg = okg and ('%s is not None' % msgvar) in conds and bool(src) and all(
            s.startswith('self._extract_hl7_message(') for s in src)
    chk.ob('C16-H', 'routing only for a message that _extract_hl7_message returned', okg, '', hd.loc, key='C16-H|route-guard')
    # early exits (bad first byte, timeouts) return without routing: every `return` statement lies before the route
    rets_ = [nid for nid, nd in g.nodes.items() if isinstance(nd.ast, ast.Return)]
    after_route = set()
    for r in routes:
        after_route |= g.reach(r)
    chk.ob('C16-H', 'the early returns happen before any routing', not (set(rets_) & after_route), '', hd.loc, key='C16-H|early')
    first = [n for n in own_nodes(hd.node) if isinstance(n, ast.If) and 'self.sb' in norm(n.test)]
    ok = bool(first) and norm(first[0].test) in ('%s[:1] != self.sb' % acc0, 'not %s.startswith(self.sb)' % acc0) and any(isinstance(x, ast.Return) for x in first[0].body)
    chk.ob('C16-H', 'input not starting with the start block is dropped', ok, '', hd.loc, key='C16-H|first-byte')
    ex = ix.func('mllp.MLLPRequestHandler._extract_hl7_message')
    ok = any(norm(n) == 'matched.groups()[0]' or norm(n) == 'matched.group(1)' for n in own_nodes(ex.node)
             if isinstance(n, (ast.Subscript, ast.Call))) and any(isinstance(n, ast.Call) and norm(n.func) == 'self.validator.match'
                                                                  for n in own_nodes(ex.node))
    chk.ob('C16-H', '_extract_hl7_message returns group 1 of the frame regex, else None', ok, '', ex.loc, key='C16-H|extract')

    # ---- R
    rm = ix.func('mllp.MLLPRequestHandler._route_message')
    mt = None
    for n in own_nodes(rm.node):
        if isinstance(n, ast.Assign) and isinstance(n.value, ast.Call) and norm(n.value.func) == 'get_message_type':
            mt = norm(n.targets[0])
            argok = n.value.args and norm(n.value.args[0]) == rm.call_params()[0]
    if mt is None:
        raise AnalysisError('_route_message: msg_type = get_message_type(msg) not found')
    look = [n for n in own_nodes(rm.node) if isinstance(n, ast.Subscript) and norm(n.value) == 'self.handlers' and
            not (isinstance(n.slice, ast.Constant))]
    ok = bool(look) and all(norm(s.slice) == mt for s in look) and argok
    chk.ob('C16-R', 'the handler is looked up by the type of the received message', ok,
           'lookups: %s' % [norm(s) for s in look], rm.loc, key='C16-R|lookup')
    ok = False
    for n in own_nodes(rm.node):
        if isinstance(n, ast.ExceptHandler) and n.type is not None and norm(n.type) == 'KeyError':
            for x in ast.walk(n):
                if isinstance(x, ast.Raise) and norm(x.exc) == 'UnsupportedMessageType(%s)' % mt:
                    ok = True
    chk.ob('C16-R', 'an unregistered type raises UnsupportedMessageType(msg_type)', ok, '', rm.loc, key='C16-R|unsupported')
    g2 = cfg_of(rm)
    replies = {nid for nid, nd in g2.nodes.items() if isinstance(nd.ast, ast.Return) and nd.ast.value is not None and
               norm(nd.ast.value).endswith('.reply()')}
    chk.floor('reply() returns in _route_message', len(replies), 2)
    reach_wo = g2.reach(ENTRY, avoid=replies, labels_ok=lambda n, d, l: not (l == 'exc' and d == RAISE))
    chk.ob('C16-R', 'every normal path through _route_message ends in a reply()', EXIT not in reach_wo,
           'the function can return without calling a handler', rm.loc, key='C16-R|one-reply')
    errh = [n for n in own_nodes(rm.node) if isinstance(n, ast.Subscript) and norm(n.value) == 'self.handlers' and
            isinstance(n.slice, ast.Constant) and n.slice.value == 'ERR']
    ok = bool(errh) and any(isinstance(n, ast.Call) and norm(n.func) == 'self._create_error_handler' and
                            len(n.args) >= 3 and norm(n.args[1]) == 'e' for n in own_nodes(rm.node))
    chk.ob('C16-R', 'failures are routed to the ERR handler together with the exception', ok, '', rm.loc, key='C16-R|err')
    # the registered handler receives the message
    ok = any(isinstance(n, ast.Call) and norm(n.func) == 'self._create_handler' and len(n.args) >= 2 and
             norm(n.args[1]) == rm.call_params()[0] for n in own_nodes(rm.node))
    chk.ob('C16-R', 'the registered handler is created with the received message', ok, '', rm.loc, key='C16-R|handler-msg')

    ch = ix.func('mllp.MLLPRequestHandler._create_handler')
    ok = any(isinstance(n, ast.Return) and norm(n.value) == '%s(%s, *%s)' % tuple(ch.call_params()[:3]) for n in own_nodes(ch.node))
    chk.ob('C16-R', '_create_handler instantiates the registered class with (message, *args)', ok, '', ch.loc, key='C16-R|create')
    ceh = ix.func('mllp.MLLPRequestHandler._create_error_handler')
    ok = any(isinstance(n, ast.Return) and norm(n.value) == '%s(%s, %s, *%s)' % tuple(ceh.call_params()[:4]) for n in own_nodes(ceh.node))
    chk.ob('C16-R', '_create_error_handler instantiates the ERR class with (exception, message, *args)', ok, '', ceh.loc, key='C16-R|create-err')
    su = ix.func('mllp.MLLPRequestHandler.setup')
    ok = any(norm(n) == 'self.handlers = self.server.handlers' for n in own_nodes(su.node) if isinstance(n, ast.Assign)) and \
        any(norm(n) == 'self.timeout = self.server.timeout' for n in own_nodes(su.node) if isinstance(n, ast.Assign))
    chk.ob('C16-R', 'each handler reads the routing table and the timeout of its server', ok, '', su.loc, key='C16-R|setup')
    si = ix.func('mllp.MLLPServer.__init__')
    def handler_class_arg(call):
        # the request handler class given to the base server's constructor: third positional of the explicit-self form
        # `Base.__init__(self, address, cls)`, second of `super().__init__(address, cls)`, or the keyword RequestHandlerClass
        if not (isinstance(call.func, ast.Attribute) and call.func.attr == '__init__'):
            return None
        for k in call.keywords:
            if k.arg == 'RequestHandlerClass':
                return norm(k.value)
        pos = 1 if isinstance(call.func.value, ast.Call) else 2
        return norm(call.args[pos]) if len(call.args) > pos else None
    ok = any(norm(n) == 'self.handlers = handlers' for n in own_nodes(si.node) if isinstance(n, ast.Assign)) and any(
        isinstance(n, ast.Call) and handler_class_arg(n) == si.call_params()[4] for n in own_nodes(si.node))
    chk.ob('C16-R', 'the server stores the routing table and installs the request handler class', ok, '', si.loc, key='C16-R|server')

    # ---- C
    recvs = [n for n in own_nodes(hd.node) if isinstance(n, ast.Call) and norm(n.func) == 'self.request.recv']
    ok1 = len(recvs) == 1
    in_loop = False
    acc = None
    if ok1:
        p = recvs[0]
        while p is not None and p is not hd.node:
            if isinstance(p, (ast.For, ast.While)):
                in_loop = True
            if isinstance(p, ast.Assign):
                acc = norm(p.targets[0])
            p = getattr(p, '_parent', None)
    chk.ob('C16-C', 'exactly one raw recv, outside any loop, initialising the accumulator', ok1 and not in_loop and acc is not None,
           '%d recv call(s), in loop: %s' % (len(recvs), in_loop), hd.loc, key='C16-C|one-recv')
    reads = [n for n in own_nodes(hd.node) if isinstance(n, ast.Call) and norm(n.func) == 'self.rfile.read']
    ok = bool(reads) and all(n.args and norm(n.args[0]) == '1' for n in reads) and recvs and all(r.lineno > recvs[0].lineno for r in reads)
    chk.ob('C16-C', 'the rest of the frame is read byte-wise from the buffered file, after the recv', ok, '', hd.loc, key='C16-C|bytewise')
    if acc:
        loops = [n for n in own_nodes(hd.node) if isinstance(n, ast.While)]
        ok = bool(loops) and all({x.id for x in ast.walk(l.test) if isinstance(x, ast.Name)} <= {acc, endseq or ''} for l in loops)
        chk.ob('C16-C', 'the loop condition reads only the accumulator', ok, '', hd.loc, key='C16-C|loop-cond')
        ext = [n for n in own_nodes(hd.node) if isinstance(n, ast.Call) and norm(n.func) == 'self._extract_hl7_message']
        ok = bool(ext) and all(norm(e.args[0]).startswith(acc + '.decode(') for e in ext if e.args)
        chk.ob('C16-C', 'the extraction reads only the accumulator', ok, '', hd.loc, key='C16-C|extract-arg')
        # every append to the accumulator adds exactly what was read
        aug = [n for n in own_nodes(hd.node) if isinstance(n, ast.AugAssign) and norm(n.target) == acc]
        ok = bool(aug) and all(isinstance(a.op, ast.Add) and isinstance(a.value, ast.Name) for a in aug)
        chk.ob('C16-C', 'bytes read are appended to the accumulator unchanged', ok, '', hd.loc, key='C16-C|append')

    # ---- T
    srv = ix.cls('mllp.MLLPServer')
    ok = any('ThreadingTCPServer' in b for b in srv.external_bases + [x.name for x in srv.bases])
    chk.ob('C16-T', 'MLLPServer derives from ThreadingTCPServer (one thread and one handler object per connection)', ok, '',
           '%s:%d' % (mllp.relpath, srv.node.lineno), key='C16-T|threading')
    hcls = ix.cls('mllp.MLLPRequestHandler')
    nw = 0
    for name, fi in sorted(hcls.methods.items()):
        for w in fx.writes.get(fi.qualname, ()):
            nw += 1
            node = w.node
            recv = node.func.value if isinstance(node, ast.Call) and isinstance(node.func, ast.Attribute) else \
                getattr(node, 'value', None)
            txt = norm(recv) if recv is not None else ''
            ok = w.loc[0] in ('local', 'field') and not txt.startswith('self.server') and not txt.startswith('self.handlers') \
                and not fx.resolve_shared(w)
            if w.loc[0] == 'field' and isinstance(node, ast.Attribute) and norm(node.value) != 'self':
                ok = False
            chk.ob('C16-T', '%s writes %s' % (fi.qualname, w.text[:40]), ok,
                   '' if ok else 'the per-connection handler changes state shared with other connections', w.where(),
                   key='C16-T|%s|%s' % (fi.qualname, w.text[:40]))
    chk.floor('handler write sites', nw, 5)
    for fq, ws in sorted(fx.writes.items()):
        if fq.startswith('mllp.'):
            for w in ws:
                if w.loc[0] in ('global', 'clsattr'):
                    chk.fail('C16-T', '%s writes %s' % (fq, w.loc), 'module/class level state written by the server code', w.where(),
                             key='C16-T|%s|global' % fq)
    chk.assume('socketserver closes the request when handle() raises (undecodable bytes); TCP delivery order and thread '
               'scheduling are outside the program text')

    chk.rule('C16-D', 'decision structure of the functions this property is anchored in: every effect statement (store, call, return, '
                   'raise) runs under the same combinations of the function\'s elementary tests as in the reviewed tree, and none '
                   'was deleted (reference/decisions.json; compared by meaning, rewritten functions are not compared)')
    from . import guardrules as _gr
    nd2_ = _gr.check_decisions(chk, c, 'C16-D', lambda fq_: fq_.startswith(('mllp.',)))
    chk.floor('functions compared with the decision reference (C16-D)', nd2_, 1)
