"""C02 -- every defined position is encoded at, and parsed from, its own index."""
from .. import tables, versions
from ..src import SourceIndex
from . import tablerules, codelemmas, forwarding
from .. import ctx as ctxmod


def run(chk):
    index = SourceIndex()
    vts = tables.load_all(index.root)
    chk.floor('version packages', len(vts), 12)
    base = versions.all_base_datatypes(index)
    tablerules.t1_shape(chk, vts)
    tablerules.t2_rank(chk, vts)
    tablerules.t3_refs(chk, vts)
    tablerules.t5_datatypes(chk, vts, base)
    tablerules.t7_orphans(chk, vts)
    chk.rule('T8', 'every table module of a version package imports only tables of its own version')
    tablerules.own_package_imports(chk, index.root, 'T8')
    c = ctxmod.get()
    codelemmas.encoder_order(chk, c, 'C02-K1')
    codelemmas.ordinal_naming(chk, c, 'C02-K2')
    codelemmas.open_ended(chk, c, 'C02-K3')
    chk.rule('C02-M', 'the header convention is applied by parser and encoder alike and to MSH only: the parser keeps the field separator '
                      'as MSH-1 exactly where the encoder drops it again (same facts as C01-M); a second segment treated that '
                      'way on one side only shifts every one of its positions by one')
    codelemmas.msh_pairing(chk, c, 'C02-M')
    codelemmas.separators(chk, c, 'C02-K4')
    chk.rule('C02-K5', 'the element\'s own HL7 version is passed to every table lookup / datatype test on the build, encode and parse paths')
    forwarding.check_forwarding(chk, c, 'C02-K5', ('version',), check_own=True,
                                only_callers=lambda fq: fq.split('.')[0] in ('core', 'parser', 'factories'))
    codelemmas.no_string_ordering(chk, c, 'C02-K7')
    chk.rule('C02-K6', 'the parsers use the separators and version they are given (no accepted-but-ignored context parameter)')
    forwarding.dead_context_params(chk, c, 'C02-K6', ('encoding_chars', 'version'), modules=('parser',))
    chk.exhaustive = True
    chk.assume('table modules contain only literals, cross references and the two recognised fix-up loops '
               '(checked: anything else ends the run as ANALYSIS-ERROR)')

    chk.rule('C02-K8', 'every argument of the parser functions is used (a flag or structure that is accepted and ignored changes how positions are named)')
    from . import forwarding as _fw
    nd_ = _fw.dead_params(chk, c, 'C02-K8', lambda fi: fi.module.name == 'parser')
    chk.floor('parameters examined (C02-K8)', nd_, 60)

    chk.rule('C02-D', 'decision structure of the functions this property is anchored in: every effect statement (store, call, return, '
                   'raise) runs under the same combinations of the function\'s elementary tests as in the reviewed tree, and none '
                   'was deleted (reference/decisions.json; compared by meaning, rewritten functions are not compared)')
    from . import guardrules as _gr
    nd2_ = _gr.check_decisions(chk, c, 'C02-D', lambda fq_: fq_.startswith(('core.Segment.', 'core._remove_trailing')))
    chk.floor('functions compared with the decision reference (C02-D)', nd2_, 1)
