"""C14 -- name, long name, position and letter case all address the same child (partial)."""
import ast

from .. import ctx as ctxmod
from .. import tables
from ..cfg import cfg_of, ENTRY, EXIT
from ..src import own_nodes, norm
from ..report import AnalysisError
from . import tablerules

FCR = ['core.Element.find_child_reference', 'core.SupportComplexDataType.find_child_reference',
       'core.Field.find_child_reference', 'core.Segment.find_child_reference', 'core.Group.find_child_reference',
       'core.Message.find_child_reference']


def nonnone_expr(e, ix, fi):
    """expression that cannot evaluate to None: dict literal, or a call to a lookup whose every exit is return-value/raise"""
    if isinstance(e, ast.Dict):
        return True
    if isinstance(e, ast.Call):
        name = norm(e.func)
        if name in ('find_reference', 'load_reference'):
            target = ix.func('__init__.' + name)
            # ... which returns what lib.find / lib.get return: their last statement is a raise, every return has a value
            lib = ix.module(ix.versions[0])
            f2 = lib.functions.get('find' if name == 'find_reference' else 'get')
            if f2 is None:
                return False
            rets = [n for n in own_nodes(f2.node) if isinstance(n, ast.Return)]
            last = f2.node.body[-1]
            ends_ok = isinstance(last, ast.Raise) or (isinstance(last, ast.Try) and all(
                isinstance(h.body[-1], ast.Raise) for h in last.handlers) and isinstance(last.body[-1], ast.Return))
            return all(r.value is not None and not (isinstance(r.value, ast.Constant) and r.value.value is None)
                       for r in rets) and ends_ok
        if name.startswith('super(') and name.endswith('.find_child_reference'):
            return True     # the parent implementation is checked on its own
    return False


def run(chk):
    c = ctxmod.get()
    ix, te, cg = c.index, c.te, c.cg
    vts = tables.load_all(ix.root)
    tablerules.c14_names(chk, vts)
    chk.rule('C14-P', 'positional paths <field>_<j>_<k> are translated to <datatype>_<j> and <component datatype>_<k>, i.e. to the '
                      'names the tables give those positions (rank = suffix: C02-T2)')
    chk.rule('C14-F', 'every lookup in structure_by_name / structure_by_longname uses a key that was upper-cased first')
    chk.rule('C14-N', 'find_child_reference never returns None: every path returns a reference or raises')

    # ---- P  (stated on values with their temporaries inlined, so that local names do not matter)
    from . import pat
    dt = ix.func('core.Field._do_traversal')
    cvar = svar = None
    for n in own_nodes(dt.node):
        if isinstance(n, ast.Assign) and isinstance(n.targets[0], ast.Tuple) and len(n.targets[0].elts) == 2 and \
                isinstance(n.value, ast.Call) and norm(n.value.func) == 'self._get_traversal_children':
            cvar, svar = norm(n.targets[0].elts[0]), norm(n.targets[0].elts[1])
    if cvar is None:
        raise AnalysisError('_do_traversal: the call of _get_traversal_children was not recognised')
    cname = None
    sname_ok = False
    for n in own_nodes(dt.node):
        if isinstance(n, ast.Assign) and len(n.targets) == 1 and isinstance(n.targets[0], ast.Name):
            v = pat.inline_locals(n.value, dt.node)
            if pat.fshape(v) == '{}_{}' and [norm(a_) for a_ in pat.fargs(v)] == ['self.datatype', cvar]:
                cname = n.targets[0].id
    for n in own_nodes(dt.node):
        for x in ast.walk(n) if isinstance(n, (ast.Assign, ast.Expr, ast.Return)) else ():
            if isinstance(x, ast.JoinedStr):
                v = pat.inline_locals(x, dt.node)
                if pat.fshape(v) == '{}_{}' and cname is not None and \
                        [norm(a_) for a_ in pat.fargs(v)] == ["self.structure_by_name[%s]['ref'][2]" % cname, svar]:
                    sname_ok = True
    chk.ob('C14-P', 'position j addresses <datatype>_j', cname is not None,
           'no name of the form <self.datatype>_<j> is built from the component position', dt.loc, key='C14-P|component')
    chk.ob('C14-P', 'position k addresses <component datatype>_k', sname_ok,
           'no name of the form <datatype of component j>_<k> is built from the subcomponent position', dt.loc,
           key='C14-P|subcomponent')
    gtc = ix.func('core.Field._get_traversal_children')
    namep = gtc.call_params()[0]
    SPL = "%s.split('_')" % namep
    rets = [pat.inline_locals(r.value, gtc.node) for r in own_nodes(gtc.node) if isinstance(r, ast.Return) and r.value is not None]
    # a variable chosen by `if c: v = A else: v = B` stands for `A if c else B`
    choices = {tgt: '%s if %s else %s' % (norm(pat.inline_locals(a_, gtc.node)), norm(pat.inline_locals(t_, gtc.node)),
                                          norm(pat.inline_locals(b_, gtc.node)))
               for t_, tgt, a_, b_ in pat.choice_assignments(gtc.node)}
    texts = set()
    for r in rets:
        if isinstance(r, ast.Tuple):
            texts.add('(%s)' % ', '.join(choices.get(norm(e), norm(e)) for e in r.elts))
        else:
            texts.add(norm(r))
    want = {"(int(%s[2]), int(%s[3]) if len(%s) == 4 else None)" % (SPL, SPL, SPL),
            "(int(%s[2]), None if len(%s) != 4 else int(%s[3]))" % (SPL, SPL, SPL)}
    ok = bool(want & texts) and texts <= want | {'(None, None)'}
    chk.ob('C14-P', 'the path is split into <seg>_<i>, j and k', ok, 'returns %s' % sorted(texts)[:3], gtc.loc, key='C14-P|split')
    folded = any(isinstance(n, ast.Assign) and norm(n) == '%s = %s.upper()' % (namep, namep) for n in own_nodes(gtc.node))
    pref = "f'{%s[0]}_{%s[1]}'" % (SPL, SPL)
    cmp_ok = False
    for n in own_nodes(gtc.node):
        if isinstance(n, ast.Compare) and len(n.ops) == 1 and isinstance(n.ops[0], (ast.Eq, ast.NotEq)):
            sides = {norm(pat.inline_locals(n.left, gtc.node)), norm(pat.inline_locals(n.comparators[0], gtc.node))}
            if sides == {pref, 'self.name'}:
                cmp_ok = True
    chk.ob('C14-P', 'the path prefix must be the field\'s own name (case-folded)', folded and cmp_ok,
           'case fold %s, comparison of <seg>_<i> with self.name %s' % (folded, cmp_ok), gtc.loc, key='C14-P|prefix')
    # tables: rank = suffix for datatypes (all versions)
    npos = bad = 0
    for vt in vts:
        for key, row in vt.tables.get('DATATYPES_STRUCTS', {}).items():
            for r, ch in enumerate(row, 1):
                npos += 1
                if not (isinstance(ch, (tuple, list)) and ch and ch[0] == '%s_%d' % (key, r)):
                    bad += 1
                    chk.fail('C14-P', '%s.DATATYPES_STRUCTS[%s] position %d' % (vt.version, key, r),
                             'component at position %d is named %s: the positional path and the name address different children' % (
                                 r, ch[0] if ch else None), vt.loc('DATATYPES_STRUCTS', key),
                             key='C14-P|%s|%s|%d' % (vt.version, key, r))
    if not bad:
        chk.ok('C14-P', 'all %d component positions of all versions are named <datatype>_<position>' % npos, '', key='C14-P|tables')
    chk.count('component positions', npos)

    # ---- F
    nlook = 0
    for fq in FCR + ['core.ElementList._find_name', 'core.ElementList.set', 'core.Element.is_named']:
        fi = ix.func(fq)
        p = fi.call_params()[0]
        g = cfg_of(fi)
        folds = [nid for nid, nd in g.nodes.items() if nd.kind == 'stmt' and norm(nd.ast) == '%s = %s.upper()' % (p, p)]
        uses = []
        for n in own_nodes(fi.node):
            if isinstance(n, ast.Call) and isinstance(n.func, ast.Attribute) and n.func.attr == 'get' and \
                    norm(n.func.value) in ('self.structure_by_name', 'self.structure_by_longname') and n.args and \
                    p in {x.id for x in ast.walk(n.args[0]) if isinstance(x, ast.Name)}:
                uses.append(n)
            if isinstance(n, ast.Compare) and norm(n.left) == p and fq.endswith('is_named'):
                uses.append(n)
            if isinstance(n, ast.Call) and norm(n.func).endswith('find_child_reference') and n.args and norm(n.args[0]) == p \
                    and fq.startswith('core.ElementList'):
                uses.append(n)
        for u in uses:
            nlook += 1
            nid = g.node_for(u)
            reach = g.reach(ENTRY, avoid=folds)
            ok = nid not in reach
            chk.ob('C14-F', '%s: `%s` uses the upper-cased name' % (fq, norm(u)[:50]), ok,
                   'the lookup can be reached without `%s = %s.upper()`: lower- or mixed-case names miss their child' % (p, p),
                   '%s:%d' % (fi.module.relpath, u.lineno), key='C14-F|%s|%s' % (fq, norm(u)[:50]))
    chk.floor('case-sensitive lookups guarded by a case fold', nlook, 12)
    pi = ix.func('core.ElementProxy.__init__')
    ok = any(norm(n) == 'self.element_name = element_name.upper()' for n in own_nodes(pi.node) if isinstance(n, ast.Assign))
    chk.ob('C14-F', 'ElementProxy upper-cases the element name it indexes with', ok, '', pi.loc, key='C14-F|proxy')
    ei = ix.func('core.Element.__init__')
    namep = ei.call_params()[0]
    vals = [n.value for n in own_nodes(ei.node) if isinstance(n, ast.Assign) and any(norm(t) == 'self.name' for t in n.targets)]

    def folded_or_none(v):
        # name.upper(), or None (the branch of `if name is None` of the canonical conditional assignment)
        return norm(v) in ('%s.upper()' % namep, 'None')
    ok = bool(vals) and all(folded_or_none(v) for v in vals) and any(norm(v) != 'None' for v in vals)
    chk.ob('C14-F', 'elements store their name upper-cased', ok, '', ei.loc, key='C14-F|element-name')

    # ---- K: writer and readers of the by-name / by-long-name maps transform their keys identically
    chk.rule('C14-K', 'the keys under which _parse_structure files a child (by name, by long name) are transformed exactly like the '
                      'keys every find_child_reference looks up (sibling agreement of one writer and its readers)')

    def wrappers(expr):
        return tuple(sorted(norm(x.func) for x in ast.walk(expr) if isinstance(x, ast.Call) and
                            not (isinstance(x.func, ast.Attribute) and x.func.attr in ('upper', 'get'))))
    ps_ = ix.func('core.ElementFinder._parse_structure')
    wkeys = {}
    for n in own_nodes(ps_.node):
        if isinstance(n, ast.Assign) and isinstance(n.targets[0], ast.Subscript):
            tname = norm(n.targets[0].value)
            if tname in ('structure', 'structure_by_longname'):
                wkeys['self.structure_by_name' if tname == 'structure' else 'self.structure_by_longname'] = wrappers(n.targets[0].slice)
    if len(wkeys) < 2:
        raise AnalysisError('_parse_structure: the stores into the by-name / by-long-name maps were not recognised')
    nk = 0
    for fn in te.funcs:
        for n in own_nodes(fn.node):
            if isinstance(n, ast.Call) and isinstance(n.func, ast.Attribute) and n.func.attr == 'get' and \
                    norm(n.func.value) in wkeys and n.args:
                nk += 1
                rw = wrappers(n.args[0])
                ok = rw == wkeys[norm(n.func.value)]
                chk.ob('C14-K', '%s looks up %s with the writer\'s key transformation' % (fn.qualname, norm(n.func.value)[5:]), ok,
                       'the map is filled with keys transformed by %s but this lookup uses %s: some names can no longer be found here' % (
                           list(wkeys[norm(n.func.value)]) or 'nothing', list(rw) or 'nothing'),
                       '%s:%d' % (fn.module.relpath, n.lineno), key='C14-K|%s|%s' % (fn.qualname, norm(n.func.value)[5:]))
    chk.floor('lookups in the structure maps', nk, 8)

    # ---- N
    for fq in FCR:
        fi = ix.func(fq)
        g = cfg_of(fi)
        rets = [(nid, nd) for nid, nd in g.nodes.items() if isinstance(nd.ast, ast.Return)]
        if not rets:
            chk.fail('C14-N', '%s returns a reference' % fq, 'the function has no return statement (falls off its end: None)',
                     fi.loc, key='C14-N|%s' % fq)
            continue
        # falling off the end
        fall = any(d == EXIT and not isinstance(g.nodes[s].ast, ast.Return) for s in g.nodes for d, lab in g.succ[s] if lab != 'exc')
        problems = []
        if fall:
            problems.append('a path reaches the end of the function without return (None)')
        for nid, nd in rets:
            v = nd.ast.value
            if v is None or (isinstance(v, ast.Constant) and v.value is None):
                problems.append('`%s`' % norm(nd.ast))
                continue
            if isinstance(v, ast.Name):
                var = v.id
                good = [a for a, an in g.nodes.items() if an.kind == 'stmt' and isinstance(an.ast, ast.Assign) and
                        norm(an.ast.targets[0]) == var and nonnone_expr(an.ast.value, ix, fi)]
                tests = [t for t, tn in g.nodes.items() if tn.kind == 'test' and norm(tn.ast) == '%s is None' % var]
                # paths ENTRY -> return that avoid every non-None assignment must leave an `is None` test by its false edge
                def ok_edge(n, d, lab, tests=tests):
                    return not (lab == 'exc' and d == 'RAISE') and not (n in tests and lab == 'false')
                reach = g.reach_incomplete(ENTRY, good, labels_ok=ok_edge)
                if nid in reach:
                    problems.append('`return %s` can be reached with %s possibly None (no `%s is None` test / non-None assignment on the way)' % (var, var, var))
            elif not (nonnone_expr(v, ix, fi) or isinstance(v, ast.Call)):
                problems.append('`%s` may be None' % norm(nd.ast))
        chk.ob('C14-N', '%s returns a reference or raises' % fq, not problems, '; '.join(problems[:2]), fi.loc, key='C14-N|%s' % fq)
    # find() in every version package ends in raise ChildNotFound
    for v in ix.versions:
        f2 = ix.module(v).functions.get('find')
        if f2 is None:
            raise AnalysisError('%s.find not found' % v)
        ok = isinstance(f2.node.body[-1], ast.Raise) and 'ChildNotFound' in norm(f2.node.body[-1])
        chk.ob('C14-N', '%s.find raises ChildNotFound when nothing matches' % v, ok, '', f2.loc, key='C14-N|%s.find' % v)
    chk.assume('that reads, writes and deletes through the three spellings reach the same object is object identity at run time: declined')

    # ---- X: the proxy cache is keyed by canonical child names only
    chk.rule('C14-X', 'ElementList files an ElementProxy in self.proxies only under a canonical child name (a key of indexes / '
                      'traversal_indexes, or the result of _find_name): an entry under the caller\'s spelling (long name, positional '
                      'path) would survive a change of the structure and keep addressing the old child')
    import ast as _ast
    from ..src import own_nodes as _own, norm as _norm
    CANON_MAPS = ('self.indexes', 'self.traversal_indexes')

    def _member_of_maps(test, k):
        """truth of test implies k is a key of one of the by-name maps"""
        if isinstance(test, _ast.BoolOp) and isinstance(test.op, _ast.Or):
            return all(_member_of_maps(v, k) for v in test.values)
        if isinstance(test, _ast.BoolOp) and isinstance(test.op, _ast.And):
            return any(_member_of_maps(v, k) for v in test.values)
        return isinstance(test, _ast.Compare) and len(test.ops) == 1 and isinstance(test.ops[0], _ast.In) and \
            _norm(test.left) == k and _norm(test.comparators[0]) in CANON_MAPS

    def _nonmember(test, k):
        """falsity of test implies k is a key of one of the maps"""
        if isinstance(test, _ast.UnaryOp) and isinstance(test.op, _ast.Not):
            return _member_of_maps(test.operand, k)
        if isinstance(test, _ast.BoolOp) and isinstance(test.op, _ast.And):
            return all(_nonmember(v, k) for v in test.values)
        return isinstance(test, _ast.Compare) and len(test.ops) == 1 and isinstance(test.ops[0], _ast.NotIn) and \
            _norm(test.left) == k and _norm(test.comparators[0]) in CANON_MAPS

    def _guarded(node, k):
        child, par = node, getattr(node, '_parent', None)
        while par is not None and not isinstance(par, (_ast.FunctionDef, _ast.AsyncFunctionDef)):
            if isinstance(par, _ast.If):
                if any(child is b for b in par.body) and _member_of_maps(par.test, k):
                    return True
                if any(child is b for b in par.orelse) and _nonmember(par.test, k):
                    return True
            child, par = par, getattr(par, '_parent', None)
        return False

    def _canon_source(fi, a, v, depth):
        if isinstance(v, _ast.Call) and _norm(v.func) == 'self._find_name':
            return True
        if isinstance(v, _ast.Name):
            return _canonical(fi, a, v.id, depth + 1)
        if isinstance(v, _ast.Attribute) and v.attr == 'name':     # the name of an element is canonical by construction
            return True
        if isinstance(v, _ast.Constant) and v.value is None:      # no child: the store is not reached with it (tested)
            return True
        if isinstance(v, _ast.Subscript) and isinstance(v.slice, _ast.Constant) and v.slice.value == 'name' and \
                isinstance(v.value, _ast.Name):
            # _find_name inlined: the 'name' entry of the reference find_child_reference returns
            refs = [a2.value for a2 in _own(fi.node) if isinstance(a2, _ast.Assign) and
                    any(isinstance(t, _ast.Name) and t.id == v.value.id for t in a2.targets)]
            return bool(refs) and all((isinstance(r_, _ast.Call) and isinstance(r_.func, _ast.Attribute) and
                                       r_.func.attr == 'find_child_reference') or
                                      (isinstance(r_, _ast.Constant) and r_.value is None) for r_ in refs)
        return False

    def _canonical(fi, node, k, depth=0):
        """on every path to `node` the variable k was last bound to a canonical name or found to be a key of the by-name
        maps (flow-sensitive: a parameter may be re-bound from _find_name on the branch where it is not a key)"""
        if _guarded(node, k):
            return True
        if depth > 3:
            return False
        g = cfg_of(fi)
        target = g.node_for(node)
        starts = [ENTRY] if k in fi.params else []
        canon_nodes = set()
        defs = [n for n in _own(fi.node) if isinstance(n, _ast.Assign) and
                any(isinstance(t, _ast.Name) and t.id == k for t in n.targets)]
        if not defs and k not in fi.params:
            return False
        for a in defs:
            nid = g.node_for(a)
            if _canon_source(fi, a, a.value, depth):
                canon_nodes.add(nid)
            else:
                starts.append(nid)
        if not starts:
            return True

        def ok_edge(src, dst, lab):
            nd = g.nodes[src]
            if nd.kind != 'test':
                return True
            return not ((lab == 'true' and _member_of_maps(nd.ast, k)) or (lab == 'false' and _nonmember(nd.ast, k)))
        if target in starts:
            return False
        r = g.reach(starts, avoid=canon_nodes, labels_ok=ok_edge)
        return target not in r

    nx_ = 0
    el_cls = ix.cls('core.ElementList')
    if el_cls is None:
        raise AnalysisError('ElementList not found')
    for mname, fi in sorted(el_cls.methods.items()):
        for n in _own(fi.node):
            if isinstance(n, _ast.Subscript) and isinstance(n.ctx, _ast.Store) and _norm(n.value) == 'self.proxies':
                nx_ += 1
                k = n.slice
                ok = isinstance(k, _ast.Name) and _canonical(fi, n, k.id)
                chk.ob('C14-X', '%s files a proxy under `%s`' % (fi.qualname, _norm(k)), ok,
                       '' if ok else '`%s` is not known to be a canonical child name here (not tested against indexes / '
                       'traversal_indexes, not a result of _find_name): the spelling keeps resolving to this proxy whatever the '
                       'structure becomes' % _norm(k), '%s:%d' % (fi.module.relpath, n.lineno),
                       key='C14-X|%s|%s' % (fi.qualname, _norm(k)))
    chk.floor('proxy cache stores examined (C14-X)', nx_, 1)

    chk.rule('C14-G', 'names that address no child are refused (ChildNotFound / ChildNotValid) under the same conditions as in the reviewed tree')
    from . import guardrules
    chk.rule('C14-S', 'the maps that address the children of an element (by name, by long name, order, cardinalities) are replaced '
                      'together whenever a parsed structure is copied onto it')
    from . import codelemmas as _cl2
    _cl2.structure_maps_together(chk, c, 'C14-S')
    chk.rule('C14-I', 'a text is accepted as a positional index only in its canonical spelling: the predicate that tries int() on it also '
                      'pins the spelling down (children are looked up by the canonical <prefix>_<i>)')
    from . import codelemmas as _cl
    _cl.conversion_as_validator(chk, c, 'C14-I')
    ng_ = guardrules.check(chk, c, 'C14-G', ['core.Element.find_child_reference', 'core.SupportComplexDataType.find_child_reference', 'core.Field.find_child_reference', 'core.Segment.find_child_reference', 'core.Group.find_child_reference', 'core.Message.find_child_reference', 'core.Field._do_traversal', 'core._valid_child_name', 'core.ElementList.create_element'])
    chk.floor('refusal predicates compared (C14-G)', ng_, 1)

    chk.rule('C14-D', 'decision structure of the functions this property is anchored in: every effect statement (store, call, return, '
                   'raise) runs under the same combinations of the function\'s elementary tests as in the reviewed tree, and none '
                   'was deleted (reference/decisions.json; compared by meaning, rewritten functions are not compared)')
    from . import guardrules as _gr
    nd2_ = _gr.check_decisions(chk, c, 'C14-D', lambda fq_: fq_.startswith(('core.Field.', 'core._valid_')))
    chk.floor('functions compared with the decision reference (C14-D)', nd2_, 1)
