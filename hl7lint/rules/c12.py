"""C12 -- a rejected operation leaves its target unchanged.

Rule C12-O (check-before-write): in every mutator of the element tree, no
statement that changes persistent state may be followed, on a normal CFG path,
by a statement that can raise an admission exception which leaves the function.
Every (function, write, later raiser) triple is either a confirmed finding
(known_findings.json), listed below as benign with its reason, or a violation."""
import ast

from .. import ctx as ctxmod
from ..cfg import cfg_of
from ..escapes import Escapes
from ..src import own_nodes, norm
from ..report import AnalysisError
from . import treefacts as tf

ADMISSION = {'ChildNotValid', 'ChildNotFound', 'MaxChildLimitReached', 'OperationNotAllowed', 'InvalidName',
             'MaxLengthReached', 'ValueError'}
DYNAMIC_VIAS = ('getattr', 'property?', 'delattr', 'fallback', 'format', 'repr', 'str')
SHADOW = ('the write concerns objects that are still on the shadow (traversal) channel: when promotion to the real '
          'tree is refused nothing that encodes, iterates or validates can see them')

# (function, write statement, raising statement) -> why the triple cannot change what the target encodes / lists
BENIGN = {
    ('core.Element.set_parent_to_traversal', 'self.parent = self.traversal_parent',
     'self.parent.set_parent_to_traversal()'): SHADOW,
    ('core.ElementList.set', 'self.append(child)', 'self.element.set_parent_to_traversal()'): SHADOW,
    ('core.ElementList.set', 'self.replace_child(child_to_remove, child)', 'self.element.set_parent_to_traversal()'): SHADOW,
    ('core.ElementList.set', 'child.value = value', 'self.element.set_parent_to_traversal()'): SHADOW,
    ('core.SubComponent._set_value',
     'self._value = datatype_factory(self.datatype, value, self.version, self.validation_level)',
     'self.set_parent_to_traversal()'): SHADOW,
    ('core.SubComponent._set_value', 'self._value = value', 'self.set_parent_to_traversal()'): SHADOW,
    ('core.ElementProxy.__setattr__', 'setattr(element, name, value)', 'element.set_parent_to_traversal()'):
        'promotion can only be refused for an element that is still on the shadow channel (for a real child '
        'set_parent_to_traversal() just clears the link): the value then sits on an element nothing can see',
    ('core.Message._set_encoding_chars', 'self.msh.msh_1 = msh_1', 'self.msh.msh_2 = msh_2'):
        'MSH_1 and MSH_2 are built by the same statements (same version and level, ST, one component) after '
        'check_encoding_chars accepted the set: the segment cannot accept the first and refuse the second',
    ('core.Message.parse_children', 'self.name = message_structure',
     "raise OperationNotAllowed('Cannot assign a message with a different version')"):
        'only an unnamed message gets here; its name is not part of its encoding and it has no children yet',
    ('core.Message.parse_children', 'self.name = message_structure',
     "raise OperationNotAllowed('Cannot assign a message with different encoding chars')"):
        'only an unnamed message gets here; its name is not part of its encoding and it has no children yet',
    ('core.Message.parse_children', 'self.name = message_structure', 'self._find_structure()'):
        'only an unnamed message gets here; its name is not part of its encoding and it has no children yet',
    ('core.Message.parse_children', 'self.name = message_structure',
     'super(Message, self).parse_children(text, find_groups, **kwargs)'):
        'the rejection happens inside Group.parse_children / the children setter (reported there)',
    ('core.Message.parse_children', 'self._find_structure()',
     "raise OperationNotAllowed('Cannot assign a message with a different version')"):
        'structure of a previously unnamed message: not part of its encoding',
    ('core.Message.parse_children', 'self._find_structure()',
     "raise OperationNotAllowed('Cannot assign a message with different encoding chars')"):
        'structure of a previously unnamed message: not part of its encoding',
    ('core.Message.parse_children', 'self._find_structure()',
     'super(Message, self).parse_children(text, find_groups, **kwargs)'):
        'the rejection happens inside Group.parse_children / the children setter (reported there)',
    ('core.SupportComplexDataType._set_value', 'self.datatype = None', 'self.children = children'):
        'TOLERANT-only branch: the children were parsed for this very element (unnamed base-datatype components), '
        'which _is_valid_child accepts once the datatype is None; cardinality is not enforced under TOLERANT',
    ('core.SupportComplexDataType._set_datatype', 'self._datatype = datatype', 'self.children[0].datatype = datatype'):
        'confirmed: Component("CX_1") valued, datatype="NM" raises; encoding and children are unchanged (only the '
        'datatype attribute of the parent differs)',
    ('core.ElementList.set', 'child.value = value', 'child_to_remove = self.child_at_index(child_name, index)'):
        'child_at_index raises only through find_child_reference, which already succeeded for this name above',
    ('core.ElementList.set', 'child.value = value', 'raise ChildNotValid(value, child_name)'):
        'the child was created from `reference` for `name`: its name equals child_name',
    ('core.ElementList.set', 'child.value = value', 'self.append(child)'):
        'the child is already attached by create_element: child_at_index finds it, so the append branch is not taken',
    ('core.ElementList.set', 'child.value = value', 'self.replace_child(child_to_remove, child)'):
        'replaces the freshly attached child by itself: the admission check accepted it a moment ago',
    ('core.Element._set_parent', 'self._parent = parent', 'self.traversal_parent = None'):
        'storing None as traversal parent attaches nothing',
}


BENIGN.update({
    ('core.ElementList.set', 'child = self.create_element(name, False, reference)', 'raise ChildNotValid(value, child_name)'):
        'the child was created from `reference` for `name`: its name equals child_name',
    ('core.ElementList.set', 'child = self.create_element(name, False, reference)',
     'child_to_remove = self.child_at_index(child_name, index)'):
        'child_at_index raises only through find_child_reference, which already succeeded for this name above',
    ('core.ElementList.set', 'child = self.create_element(name, False, reference)', 'self.append(child)'):
        'the child is already attached by create_element: child_at_index finds it, so the append branch is not taken',
    ('core.ElementList.set', 'child = self.create_element(name, False, reference)',
     'self.replace_child(child_to_remove, child)'):
        'replaces the freshly attached child by itself: after the removal the admission check sees the state in which '
        'it accepted this child a moment ago',
    ('core.ElementList.set', 'child = self.create_element(name, False, reference)',
     'self.element.set_parent_to_traversal()'): SHADOW,
    ('core.SupportComplexDataType._set_datatype', 'setattr(self, k, v)', 'self.children[0].datatype = datatype'):
        'the structure is replaced only for a complex new datatype, the child datatype is set only for a base one',
    ('core.Element._set_traversal_parent', 'self._traversal_parent = parent', 'parent.add(self)'):
        'confirmed: the refused object keeps a shadow-parent pointer but is referenced by nothing (it is created by the '
        'failing call itself); the would-be parent is unchanged',
    ('core.ElementList.replace_child', 'self.remove(old_child)', 'self.append(new_child)'):
        'this branch replaces a shadow (traversal) child: ' + SHADOW,
    ('core.Element._set_parent', 'self.traversal_parent = None', 'self.parent.add(self)'):
        'same defect as `self._parent = parent` then add (listed): clearing the shadow parent is part of re-parenting',
})

# constructors: attaching the new object to its parent before the subclass constructor has finished its own checks
BENIGN_CTOR = {
    'core.Component.__init__': 'its own raise (unknown component under STRICT) is reached only for a child that the parent\'s '
                               '_is_valid_child already refused during the attach (unknown child under STRICT): confirmed '
                               'with Component(datatype="CX", parent=<strict field>) -> ChildNotValid, parent unchanged',
    'core.Element.__init__': 'after `self.parent = parent` only the traversal parent is stored, and only when parent is None: '
                             'nothing is attached twice and a None traversal parent attaches nothing',
    'core.Group.__init__': 'an unnamed group under STRICT is already refused by the parent\'s _is_valid_child during the '
                           'attach itself, so the later raise is never reached with a parent attached',
}


def base_name(e):
    while True:
        if isinstance(e, (ast.Attribute, ast.Subscript, ast.Starred)):
            e = e.value
        elif isinstance(e, ast.Call):
            if isinstance(e.func, ast.Name) and e.func.id == 'super':
                return 'self'
            e = e.func
        else:
            break
    return e.id if isinstance(e, ast.Name) else None


class Mutators(object):
    def __init__(self, c):
        self.c = c
        te, ix = c.te, c.index
        self.elem = ix.cls(tf.ELEM)
        self.el = ix.cls(tf.EL)
        self.fam = [f for f in te.funcs if f.cls is not None and
                    (self.elem in f.cls.mro or f.cls is self.el or f.cls.name == 'ElementProxy')]
        self.esc = Escapes(c, pred=lambda s, t: t.via not in DYNAMIC_VIAS)
        self.S = {}
        for f in self.fam:
            self.S[f.qualname] = bool(self.own_persistent(f))
        changed = True
        while changed:
            changed = False
            for f in self.fam:
                if self.S[f.qualname]:
                    continue
                for s in c.cg.sites[f.qualname]:
                    if self.persistent_call(f, s):
                        self.S[f.qualname] = True
                        changed = True
                        break

    def fresh_local(self, fn, name):
        """the local variable only ever names objects built during this call and not yet attached"""
        te = self.c.te
        if name == 'self' or name in fn.params:
            return False
        vals = [n.value for n in own_nodes(fn.node) if isinstance(n, ast.Assign) and
                any(isinstance(t, ast.Name) and t.id == name for t in n.targets)]
        if not vals:
            return False
        for v in vals:
            if isinstance(v, (ast.List, ast.Dict, ast.Tuple, ast.ListComp)):
                continue
            if isinstance(v, ast.Call):
                ts = te.resolve_call(v, fn)
                ok = True
                for t in ts:
                    if t.ctor is not None:
                        # a constructor given a parent attaches
                        if any(k.arg == 'parent' for k in v.keywords):
                            ok = False
                        continue
                    if t.kind == 'func' and t.func.module.name == 'parser':
                        continue
                    if t.kind == 'func' and t.func.name in ('parse_child', 'parse_children'):
                        continue
                    ok = False
                if ok:
                    continue
            return False
        return True

    def own_persistent(self, fn):
        out = []
        fx = self.c.fx
        for w in fx.writes.get(fn.qualname, ()):
            f = tf.field_of(w.loc)
            if not f or f[0] not in (tf.ELEM, tf.EL) or f[1] == 'proxies':
                continue
            if isinstance(w.node, ast.Name):
                continue
            if isinstance(w.node, ast.Call):
                recv = w.node.func.value if isinstance(w.node.func, ast.Attribute) else \
                    (w.node.args[0] if w.node.args else None)
            else:
                recv = w.node.value
            b = base_name(recv) if recv is not None else None
            if b is None or self.fresh_local(fn, b):
                continue
            out.append(w)
        return out

    def persistent_call(self, fn, s):
        """the call site changes persistent state of an object that existed before the call"""
        n = s.node
        if s.kind == 'call':
            if not isinstance(n.func, ast.Attribute):
                return False
            b = base_name(n.func.value)
            if n.func.attr == '__setattr__' and b == 'self' and fn.name == '__setattr__':
                return True       # super().__setattr__(name, value): the raw store
            if n.func.attr == 'create_element':
                tp = [k.value for k in n.keywords if k.arg == 'traversal_parent']
                if len(n.args) >= 2:
                    tp = [n.args[1]]
                if not tp or not (isinstance(tp[0], ast.Constant) and tp[0].value is True):
                    return b is not None and not self.fresh_local(fn, b)
                return False
        elif s.kind in ('setprop', 'delattr', 'setitem', 'delitem'):
            tgt = n.args[0] if isinstance(n, ast.Call) else n.value
            b = base_name(tgt)
        else:
            return False
        if b is None or self.fresh_local(fn, b):
            return False
        return any(t.kind == 'func' and self.S.get(t.func.qualname) for t in s.targets)

    def events(self, fn):
        """-> (cfg, {node: [write descriptions]}, {node: set(admission classes)})"""
        c = self.c
        g = cfg_of(fn)
        W, R = {}, {}
        ctor = fn.name == '__init__'
        if not ctor:
            for w in self.own_persistent(fn):
                nid = g.node_for(w.node)
                if nid:
                    W.setdefault(nid, []).append(w.text)
        for s in c.cg.sites[fn.qualname]:
            if ctor:
                # in a constructor only attaching the new object to a parent is a persistent effect
                attach = False
                if s.kind == 'setprop' and s.args.get('name') == 'parent' and base_name(s.node.value) == 'self':
                    attach = True
                if s.kind == 'call' and any(t.kind == 'func' and t.func.name == '__init__' and t.func.cls is not None
                                            and self.elem in t.func.cls.mro and 'parent' in t.func.params
                                            for t in s.targets) and not any(t.ctor for t in s.targets):
                    attach = 'parent' in fn.params
                if not attach:
                    continue
            elif not self.persistent_call(fn, s):
                continue
            nid = g.node_for(s.node)
            if nid:
                W.setdefault(nid, []).append(s.label)
        for node, cl in self.esc.node_raises(fn):
            a = cl & ADMISSION
            if a:
                nid = g.node_for(node)
                if nid:
                    R.setdefault(nid, set()).update(a)
        return g, W, R


def stmt_text(g, nid):
    nd = g.nodes[nid]
    return ' '.join(norm(nd.ast).split())[:160] if nd.kind in ('stmt',) else nd.label


def _chain(e):
    """dotted access path with local names abstracted: self.element.add -> 'self.element.add', child.value -> '_.value',
    super(X, self).add -> 'super().add'"""
    if isinstance(e, ast.Attribute):
        return _chain(e.value) + '.' + e.attr
    if isinstance(e, ast.Name):
        return e.id if e.id in ('self', 'cls') or e.id[:1].isupper() else '_'
    if isinstance(e, ast.Call):
        if isinstance(e.func, ast.Name) and e.func.id == 'super':
            return 'super()'
        return _chain(e.func) + '()'
    if isinstance(e, ast.Subscript):
        return _chain(e.value) + '[]'
    return '_'


def sig_of(node):
    """signature of a statement that survives re-spelling of arguments, keyword/positional changes and renamed locals:
    what is called / stored / raised, not how"""
    if isinstance(node, ast.Raise):
        exc = node.exc
        msg = ''
        if isinstance(exc, ast.Call):
            for a in exc.args:
                if isinstance(a, ast.Constant) and isinstance(a.value, str):
                    msg = ':' + ' '.join(a.value.split()[:4])       # which refusal of that class (two refusals of one class differ)
                    break
            exc = exc.func
        return 'raise ' + (norm(exc) if exc is not None else '') + msg
    if isinstance(node, (ast.Assign, ast.AugAssign, ast.AnnAssign)):
        tgts = node.targets if isinstance(node, ast.Assign) else [node.target]
        t = ','.join(sorted(_chain(x) for x in tgts))
        v = node.value
        rhs = _call_name(v) if isinstance(v, ast.Call) else ''
        stores = any(isinstance(x, (ast.Attribute, ast.Subscript)) for x in tgts)
        if stores and rhs:
            return 'set %s = %s' % (t, rhs)
        if stores:
            return 'set %s' % t
        return 'call %s' % rhs if rhs else 'assign'
    if isinstance(node, ast.Expr) and isinstance(node.value, ast.Call):
        return 'call ' + _call_name(node.value)
    if isinstance(node, ast.Delete):
        return 'del ' + ','.join(sorted(_chain(x) for x in node.targets))
    if isinstance(node, ast.Return) and isinstance(node.value, ast.Call):
        return 'return ' + _call_name(node.value)
    if isinstance(node, ast.expr):
        return 'test ' + ','.join(sorted({_call_name(x) for x in ast.walk(node) if isinstance(x, ast.Call)})) \
            if any(isinstance(x, ast.Call) for x in ast.walk(node)) else 'test'
    return type(node).__name__


def _call_name(call):
    if isinstance(call.func, ast.Name):
        if call.func.id == 'setattr' and len(call.args) == 3:
            return 'setattr()'
        return call.func.id + '()'
    return _chain(call.func) + '()'


def stmt_sig(g, nid):
    nd = g.nodes[nid]
    return sig_of(nd.ast) if nd.ast is not None else nd.label


def sig_of_text(text):
    """signature of a statement given as source text (the BENIGN table and old known-finding keys are written as text)"""
    try:
        tree = ast.parse(text)
    except SyntaxError:
        return text
    if not tree.body:
        return text
    st = tree.body[0]
    if isinstance(st, ast.Expr) and not isinstance(st.value, ast.Call):
        return sig_of(st.value)
    return sig_of(st)


def run(chk):
    c = ctxmod.get()
    chk.rule('C12-O', 'check-before-write: in a mutator no persistent write is followed on a normal path by a statement '
                      'that can raise an admission exception out of the function')
    m = Mutators(c)
    muts = [f for f in m.fam if m.S[f.qualname]]
    chk.count('methods of the element classes', len(m.fam))
    chk.count('mutators (persistent write summary non-empty)', len(muts))
    chk.floor('mutators', len(muts), 30)
    ntri = 0
    used = set()
    seen3 = set()
    BENIGN_SIG = {}
    for (fq_, wt_, rt_), why_ in BENIGN.items():
        k_ = (fq_, sig_of_text(wt_), sig_of_text(rt_))
        BENIGN_SIG[k_] = why_ if k_ not in BENIGN_SIG or BENIGN_SIG[k_] == why_ else BENIGN_SIG[k_] + ' / ' + why_
    for f in sorted(muts, key=lambda x: x.qualname):
        g, W, R = m.events(f)
        if not W:
            continue
        if not R:
            chk.ok('C12-O', '%s: no admission raise after a write' % f.qualname, '', f.loc, key='C12-O|%s|-' % f.qualname)
            continue
        if f.name == '__init__':
            raisers = []
            for w in sorted(W):
                after = g.reach(w, labels_ok=lambda n, d, l: l != 'exc')
                raisers += [(w, r) for r in sorted(R) if r != w and r in after]
            if not raisers:
                chk.ok('C12-O', '%s: nothing can refuse after the attach' % f.qualname, '', f.loc,
                       key='C12-O|%s|attach-before-validate' % f.qualname)
                continue
            ntri += len(raisers)
            construct = '%s attaches to the parent before it has finished validating' % f.qualname
            w0, r0 = raisers[0]
            if f.qualname in BENIGN_CTOR:
                chk.ok('C12-O', construct, 'benign: ' + BENIGN_CTOR[f.qualname], f.loc,
                       key='C12-O|%s|attach-before-validate' % f.qualname)
            else:
                chk.fail('C12-O', construct,
                         '`%s` (line %d) puts the new element into the parent given to the constructor; afterwards %d statement(s) '
                         'can still refuse the construction, e.g. `%s` (line %d): the parent keeps a child whose constructor '
                         'raised' % (stmt_text(g, w0)[:60], g.nodes[w0].lineno, len({r for _, r in raisers}),
                                     stmt_text(g, r0)[:60], g.nodes[r0].lineno),
                         '%s:%d' % (f.module.relpath, g.nodes[w0].lineno),
                         key='C12-O|%s|attach-before-validate' % f.qualname)
            continue
        for w in sorted(W):
            after = g.reach(w, labels_ok=lambda n, d, l: l != 'exc')
            wt = stmt_text(g, w)
            for r in sorted(R):
                if r == w or r not in after:
                    continue
                rt = stmt_text(g, r)
                key3 = (f.qualname, stmt_sig(g, w), stmt_sig(g, r))
                if key3 in seen3:
                    continue          # the same kind of write / refusal pair was already judged in this function
                seen3.add(key3)
                ntri += 1
                construct = '%s: `%s` then `%s`' % (f.qualname, wt[:60], rt[:60])
                where = '%s:%d' % (f.module.relpath, g.nodes[w].lineno)
                if key3 in BENIGN_SIG:
                    used.add(key3)
                    chk.ok('C12-O', construct, 'benign: ' + BENIGN_SIG[key3], where, key='C12-O|%s|%s|%s' % key3)
                else:
                    chk.fail('C12-O', construct,
                             'persistent state is changed at line %d before `%s` (line %d) can refuse the operation with %s: '
                             'a rejected call leaves the element modified' % (g.nodes[w].lineno, rt[:70], g.nodes[r].lineno,
                                                                              '/'.join(sorted(R[r])[:3])),
                             where, key='C12-O|%s|%s|%s' % key3)
    chk.count('write-then-raise triples examined', ntri)
    if chk.tier == 'thorough':
        for k in BENIGN_SIG:
            if k not in used:
                chk.info('C12-O: benign entry %s / %s matched no triple on this tree' % (k[0], k[1][:40]))
    chk.assume('exception escape sets contain explicit raises only (E6), propagated along statically resolved calls; '
               'edges through dynamic attribute names (__getattr__/__setattr__ with non-constant names) are not followed')
