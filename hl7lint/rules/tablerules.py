"""Exhaustive rules over the evaluated structure tables of all versions
(E2).  Shared by C02 (positions), C01 (same facts), C04 (cardinalities),
C14 (names)."""
import re

from ..tables import Ref

SEG_KEY = re.compile(r'^[A-Z][A-Z0-9]{2}$')
IDENT = re.compile(r'^[A-Z_][A-Z0-9_]*$')

TAGS = {'SEGMENTS': ('FIE',), 'DATATYPES_STRUCTS': ('CMP',), 'GROUPS': ('SEG', 'GRP'), 'MESSAGES': ('SEG', 'GRP')}


def _children(table, row):
    """children sequence of a structure row, or None when the row has no such slot"""
    if table == 'DATATYPES_STRUCTS':
        return row if isinstance(row, (tuple, list)) else None
    if isinstance(row, (tuple, list)) and len(row) >= 2 and isinstance(row[1], (tuple, list)):
        return row[1]
    return None


def _child_ok(c):
    return isinstance(c, (tuple, list)) and len(c) == 4 and isinstance(c[0], str) and \
        isinstance(c[2], (tuple, list)) and len(c[2]) == 2 and isinstance(c[3], str)


def is_placeholder_segment(key, row):
    # ANYHL7SEGMENT: 'choice' pseudo entry used only inside group definitions
    return isinstance(row, (tuple, list)) and len(row) == 2 and row[0] == 'choice'


def t1_shape(chk, vts, need_nonempty=True):
    """T1: every SEGMENTS/GROUPS/MESSAGES row is (tag, (child, ...)) with well-formed children;
    segments (non placeholder) need >= 1 child because Segment.__init__ reads ordered_children[-1]."""
    chk.rule('T1', "structure rows are ('sequence'|'choice', (>=1 4-tuple child, ...)): what "
                   "ElementFinder._parse_structure and Segment.__init__ subscript unconditionally")
    for vt in vts:
        for table in ('SEGMENTS', 'GROUPS', 'MESSAGES'):
            for key, row in vt.tables.get(table, {}).items():
                construct = '%s.%s[%s]' % (vt.version, table, key)
                problem = None
                if not (isinstance(row, (tuple, list)) and len(row) >= 1 and row[0] in ('sequence', 'choice')):
                    problem = "row does not start with 'sequence'/'choice' (reference[0] is %r)" % (
                        row[0] if isinstance(row, (tuple, list)) and row else row,)
                elif len(row) < 2 or not isinstance(row[1], (tuple, list)):
                    problem = 'row has no children slot (reference[1])'
                elif not all(_child_ok(c) for c in row[1]):
                    problem = 'a child entry is not (name, ref, (min, max), tag)'
                elif table == 'SEGMENTS' and need_nonempty and len(row[1]) == 0:
                    problem = 'segment declares no field: Segment.__init__ subscripts ordered_children[-1]'
                elif len(row) != 2:
                    problem = 'structure row has %d elements, 2 expected' % len(row)
                chk.ob('T1', construct, problem is None, problem or '', vt.loc(table, key),
                       key='T1|%s' % construct)
                chk.count('structure rows')


def t2_rank(chk, vts):
    """T2: r-th child of SEGMENTS[S] / DATATYPES_STRUCTS[D] is named <parent>_<r>."""
    chk.rule('T2', 'rank = suffix: the r-th child of every segment / complex datatype row is <parent>_<r> '
                   '(encoder emits slot r for ordered_children[r-1]; parser names piece i <parent>_<i>)')
    positions = bad_positions = 0
    for vt in vts:
        for table in ('SEGMENTS', 'DATATYPES_STRUCTS'):
            for key, row in vt.tables.get(table, {}).items():
                if table == 'SEGMENTS' and is_placeholder_segment(key, row):
                    continue
                ch = _children(table, row)
                if ch is None:
                    continue  # reported by T1
                construct = '%s.%s[%s]' % (vt.version, table, key)
                first = None
                nbad = 0
                for r, c in enumerate(ch, 1):
                    positions += 1
                    name = c[0] if isinstance(c, (tuple, list)) and c else None
                    if name != '%s_%d' % (key, r):
                        nbad += 1
                        if first is None:
                            first = (r, name)
                bad_positions += nbad
                if first is None:
                    chk.ok('T2', construct, '', vt.loc(table, key), key='T2|%s' % construct)
                else:
                    chk.fail('T2', construct,
                             'child at rank %d is %s (expected %s_%d); %d of %d positions out of rank'
                             % (first[0], first[1], key, first[0], nbad, len(ch)),
                             vt.loc(table, key), key='T2|%s|first=%s@%d' % (construct, first[1], first[0]))
                if table == 'SEGMENTS':
                    ok = bool(SEG_KEY.match(key))
                    chk.ob('T4', construct, ok, '' if ok else 'segment name is not 3 upper-case characters '
                           '(int(name[4:]) in Segment.__init__/add assumes it)', vt.loc(table, key),
                           key='T4|%s' % construct)
    chk.rule('T4', 'segment names are 3 characters (Segment.__init__/add parse the index with name[4:])')
    chk.count('positions', positions)
    chk.count('positions out of rank', bad_positions)


def t3_refs(chk, vts):
    """T3: every cross reference resolves, class tags are legal, child name = referenced key."""
    chk.rule('T3', "every TABLE['key'] cross reference names an existing key; child class tag is a key of the "
                   "parent class's child_classes; child name equals the referenced key")
    aliases = 0
    for vt in vts:
        for table in ('SEGMENTS', 'DATATYPES_STRUCTS', 'GROUPS', 'MESSAGES'):
            for key, row in vt.tables.get(table, {}).items():
                if table == 'SEGMENTS' and is_placeholder_segment(key, row):
                    continue
                ch = _children(table, row)
                if ch is None:
                    continue
                construct = '%s.%s[%s]' % (vt.version, table, key)
                problems = []
                for c in ch:
                    if not _child_ok(c):
                        continue
                    name, ref, card, tag = c
                    if tag not in TAGS[table]:
                        problems.append('child %s has class tag %r (allowed: %s)' % (name, tag, '/'.join(TAGS[table])))
                        continue
                    if tag == 'GRP' and table == 'GROUPS':
                        if ref is not None or 'GROUPS' not in vt.fixups:
                            if not (isinstance(ref, Ref) and ref.table == 'GROUPS'):
                                problems.append('group child %s: unexpected reference %r' % (name, ref))
                        if name not in vt.tables.get('GROUPS', {}):
                            problems.append('group child %s is not a key of GROUPS (fix-up loop raises KeyError)' % name)
                        continue
                    want = {'FIE': 'FIELDS', 'CMP': 'DATATYPES', 'SEG': 'SEGMENTS', 'GRP': 'GROUPS'}[tag]
                    if ref is None:
                        # resolved by name at construction (ElementFinder.get_structure -> load_reference)
                        if name not in vt.tables.get(want, {}):
                            problems.append('child %s has no reference and is not a key of %s' % (name, want))
                        continue
                    if not isinstance(ref, Ref):
                        problems.append('child %s carries an unsupported reference (%r)' % (name, ref))
                        continue
                    if ref.table != want:
                        problems.append('child %s references %s, expected %s' % (name, ref.table, want))
                    if vt.deref(ref) is None:
                        problems.append('child %s references missing key %s[%r]' % (name, ref.table, ref.key))
                    elif ref.key != name:
                        if table == 'SEGMENTS' and ref.key.split('_')[0] == name.split('_')[0]:
                            aliases += 1     # withdrawn field aliased to a sibling definition; position unaffected
                        else:
                            problems.append('child %s references %s[%r] (different name)' % (name, ref.table, ref.key))
                chk.ob('T3', construct, not problems, '; '.join(problems[:3]), vt.loc(table, key),
                       key='T3|%s|%s' % (construct, problems[0] if problems else ''))
    chk.count('alias field references (informational)', aliases)


def t5_datatypes(chk, vts, base_dts):
    """T5/T6: FIELDS / DATATYPES rows are 6-element leaf/sequence rows with consistent datatype."""
    chk.rule('T5', "leaf rows name a base datatype of the version (or 'varies'); sequence rows name the "
                   "DATATYPES_STRUCTS key they embed")
    chk.rule('T6', '_parse_structure unpacks reference[2:] into exactly 4 names: rows have exactly 6 elements')
    for vt in vts:
        base = set(base_dts.get(vt.version, {}))
        structs = vt.tables.get('DATATYPES_STRUCTS', {})
        for table in ('FIELDS', 'DATATYPES'):
            for key, row in vt.tables.get(table, {}).items():
                construct = '%s.%s[%s]' % (vt.version, table, key)
                chk.count('leaf/sequence rows')
                ok6 = isinstance(row, (tuple, list)) and len(row) == 6
                chk.ob('T6', construct, ok6, '' if ok6 else 'row has %s elements: %r' % (
                    len(row) if isinstance(row, (tuple, list)) else '?', row), vt.loc(table, key),
                    key='T6|%s' % construct)
                if not (isinstance(row, (tuple, list)) and len(row) >= 3):
                    continue
                kind, sub, dt = row[0], row[1], row[2]
                problem = None
                if kind == 'leaf':
                    # slot [1] of a leaf row is never read (_parse_structure reads it for sequence/choice only)
                    # datatype None = untyped (withdrawn) leaf: handled as plain text by Field/SubComponent
                    if dt is not None and dt != 'varies' and dt not in base:
                        problem = 'leaf datatype %r is not a base datatype of %s' % (dt, vt.label)
                elif kind == 'sequence':
                    if table == 'FIELDS':
                        if not (isinstance(sub, Ref) and sub.table == 'DATATYPES_STRUCTS'):
                            problem = 'sequence row without DATATYPES_STRUCTS reference'
                        elif sub.key != dt:
                            problem = 'embeds DATATYPES_STRUCTS[%r] but declares datatype %r' % (sub.key, dt)
                        elif sub.key not in structs:
                            problem = 'references missing DATATYPES_STRUCTS[%r]' % sub.key
                    else:
                        if sub is not None:
                            problem = 'DATATYPES sequence row expected to hold None before the fix-up loop'
                        elif 'DATATYPES' not in vt.fixups:
                            problem = 'sequence row but the module has no fix-up loop'
                        elif dt not in structs:
                            problem = 'fix-up loop would raise KeyError: DATATYPES_STRUCTS[%r]' % dt
                    if problem is None and dt in base:
                        problem = 'sequence row typed with base datatype %r' % dt
                else:
                    problem = 'row kind %r is neither leaf nor sequence' % (kind,)
                chk.ob('T5', construct, problem is None, problem or '', vt.loc(table, key),
                       key='T5|%s' % construct)


def t7_orphans(chk, vts):
    """T7: the defining table and the listing table agree on the set of positions."""
    chk.rule('T7', 'every FIELDS key <SEG>_<n> of a declared segment is listed by SEGMENTS[<SEG>] and every '
                   'DATATYPES key <DT>_<n> of a declared complex datatype by DATATYPES_STRUCTS[<DT>] '
                   '(a position that is defined but not listed cannot be encoded at its index)')
    for vt in vts:
        for deftab, lsttab in (('FIELDS', 'SEGMENTS'), ('DATATYPES', 'DATATYPES_STRUCTS')):
            listed = {}
            for key, row in vt.tables.get(lsttab, {}).items():
                if lsttab == 'SEGMENTS' and is_placeholder_segment(key, row):
                    continue
                ch = _children(lsttab, row) or ()
                listed[key] = {c[0] for c in ch if isinstance(c, (tuple, list)) and c}
            per_parent = {}
            for k in vt.tables.get(deftab, {}):
                parent, _, idx = k.rpartition('_')
                if parent in listed and idx.isdigit():
                    per_parent.setdefault(parent, []).append(k)
            for parent, keys in per_parent.items():
                missing = sorted((k for k in keys if k not in listed[parent]), key=lambda s: int(s.rpartition('_')[2]))
                construct = '%s.%s[%s]' % (vt.version, lsttab, parent)
                chk.ob('T7', construct, not missing,
                       'defined in %s but not listed: %s' % (deftab, ', '.join(missing[:6])),
                       vt.loc(lsttab, parent), key='T7|%s|%s' % (construct, ','.join(missing)))


def c04_cardinalities(chk, vts):
    chk.rule('C04-C', 'every (min, max) has integer 0 <= min and (max == -1 or min <= max): '
                      'otherwise no conforming instance of the structure exists')
    n = 0
    for vt in vts:
        for table in ('SEGMENTS', 'DATATYPES_STRUCTS', 'GROUPS', 'MESSAGES'):
            for key, row in vt.tables.get(table, {}).items():
                ch = _children(table, row)
                if ch is None:
                    continue
                bad = []
                for c in ch:
                    if not _child_ok(c):
                        continue
                    n += 1
                    lo, hi = c[2]
                    if not (isinstance(lo, int) and isinstance(hi, int) and not isinstance(lo, bool)
                            and lo >= 0 and (hi == -1 or lo <= hi)):
                        bad.append('%s %r' % (c[0], tuple(c[2])))
                construct = '%s.%s[%s]' % (vt.version, table, key)
                chk.ob('C04-C', construct, not bad, 'unsatisfiable cardinality: ' + ', '.join(bad[:4]),
                       vt.loc(table, key), key='C04-C|%s|%s' % (construct, ','.join(bad)))
    chk.count('cardinalities', n)


def c14_names(chk, vts):
    chk.rule('C14-U', 'child names and long names in FIELDS/DATATYPES are upper-case identifiers '
                      '(lookups fold the request with .upper() and use exact dict keys; attribute access '
                      'needs an identifier)')
    n = 0
    for vt in vts:
        for table in ('FIELDS', 'DATATYPES'):
            for key, row in vt.tables.get(table, {}).items():
                n += 1
                construct = '%s.%s[%s]' % (vt.version, table, key)
                problems = []
                if not IDENT.match(key):
                    problems.append('name %r is not an upper-case identifier' % key)
                ln = row[3] if isinstance(row, (tuple, list)) and len(row) > 3 else None
                if ln is not None and not (isinstance(ln, str) and IDENT.match(ln)):
                    problems.append('long name %r cannot be reached as an attribute in any letter case' % (ln,))
                chk.ob('C14-U', construct, not problems, '; '.join(problems), vt.loc(table, key),
                       key='C14-U|%s' % construct)
        for table in ('SEGMENTS', 'GROUPS'):   # children of messages/groups (MESSAGES keys are not children)
            for key in vt.tables.get(table, {}):
                n += 1
                if not IDENT.match(key):
                    construct = '%s.%s[%s]' % (vt.version, table, key)
                    chk.fail('C14-U', construct, 'name %r is not an upper-case identifier' % key,
                             vt.loc(table, key), key='C14-U|%s' % construct)
    chk.count('names checked', n)


def own_package_imports(chk, root, rule):
    """Every module of a version package hl7apy/v2_X takes its tables from its own package: an import of another version's
    SEGMENTS / FIELDS / DATATYPES / GROUPS makes two look-up paths of the same version disagree (by-name look-up uses the
    package's own table, the structures embedded in GROUPS / MESSAGES the foreign one)."""
    import ast
    import glob
    import os
    import re
    n = 0
    for d in sorted(glob.glob(os.path.join(root, 'hl7apy', 'v2_*'))):
        own = os.path.basename(d)
        for f in sorted(glob.glob(os.path.join(d, '*.py'))):
            try:
                tree = ast.parse(open(f).read())
            except SyntaxError as e:
                raise AnalysisError('cannot parse %s: %s' % (f, e))
            rel = os.path.relpath(f, root)
            for st in ast.walk(tree):
                mods = []
                if isinstance(st, ast.ImportFrom):
                    mods = [(st.module or '', st.level)]
                elif isinstance(st, ast.Import):
                    mods = [(a.name, 0) for a in st.names]
                for m, lvl in mods:
                    n += 1
                    other = re.findall(r'v2_\d+(?:_\d+)?', m)
                    foreign = [o for o in other if o != own] or ([m] if lvl >= 2 and m.startswith('v2_') and m.split('.')[0] != own else [])
                    TABLE_MODS = ('segments', 'fields', 'datatypes', 'groups', 'messages', 'tables')
                    TABLE_NAMES = ('SEGMENTS', 'FIELDS', 'DATATYPES', 'DATATYPES_STRUCTS', 'GROUPS', 'MESSAGES', 'TABLES', 'ELEMENTS')
                    names = [a.name for a in st.names] if isinstance(st, ast.ImportFrom) else []
                    is_table = m.split('.')[-1] in TABLE_MODS or any(x in TABLE_NAMES for x in names)
                    if foreign and is_table:      # (datatype *classes* are legitimately shared between 2.7 and 2.8.x)
                        chk.fail(rule, '%s imports from its own version package' % rel,
                                 'imports `%s`: tables of %s are used inside %s' % (m, foreign[0], own), '%s:%d' % (rel, st.lineno),
                                 key='%s|%s|%s' % (rule, rel, foreign[0]))
    chk.ok(rule, 'imports of the version packages examined: %d' % n, '', key='%s|scan' % rule)
    chk.floor('import statements in the version packages', n, 60)
