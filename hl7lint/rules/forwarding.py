"""Context-argument forwarding rule (C17-F, C18-F, C05-M, C13-T).

Template: for every resolved call site whose callee takes a context parameter
P and whose caller has a value for P in scope, the call binds P (positionally,
by keyword, through **kwargs carrying that key, or through *args).

Automatic exemptions (decided from the callee's code, not frozen):
  unused    the callee never reads P
  resolves  the callee resolves P itself when it is None from the *receiver's own
            state* (e.g. `if encoding_chars is None: encoding_chars = self.encoding_chars`),
            not from a process-wide default getter
"""
import ast

from ..src import own_nodes

DEFAULT_GETTERS = ('get_default_version', 'get_default_validation_level', 'get_default_encoding_chars')


def reads_param(fi, p):
    for n in own_nodes(fi.node):
        if isinstance(n, ast.Name) and n.id == p and isinstance(n.ctx, ast.Load):
            return True
    return False


def resolves_from_receiver(fi, p):
    """callee contains `if p is None: p = <expr not calling a default getter>`"""
    for n in own_nodes(fi.node):
        if isinstance(n, ast.If) and isinstance(n.test, ast.Compare) and len(n.test.ops) == 1 and \
                isinstance(n.test.ops[0], ast.Is) and isinstance(n.test.left, ast.Name) and n.test.left.id == p and \
                isinstance(n.test.comparators[0], ast.Constant) and n.test.comparators[0].value is None and \
                getattr(n, '_parent', None) is fi.node:        # unconditional: a statement of the function body itself
            for st in n.body:
                if isinstance(st, ast.Assign) and any(isinstance(t, ast.Name) and t.id == p for t in st.targets):
                    txt = ast.unparse(st.value)
                    if not any(g in txt for g in DEFAULT_GETTERS):
                        return True
    return False


def branch_context(node):
    """'<test> [true|false]' of the innermost if-statement branch that contains node ('' at function level)"""
    child = node
    p = getattr(node, '_parent', None)
    while p is not None and not isinstance(p, (ast.FunctionDef, ast.AsyncFunctionDef)):
        if isinstance(p, ast.If):
            # orientation-independent: the test is shown in its positive form, the outcome says which side
            from ..canon import _positive
            t, flipped = _positive(p.test)
            if any(child is b for b in p.body):
                return '%s [%s]' % (ast.unparse(t)[:80], 'false' if flipped else 'true')
            if any(child is b for b in p.orelse):
                return '%s [%s]' % (ast.unparse(t)[:80], 'true' if flipped else 'false')
        if isinstance(p, ast.ExceptHandler):
            return 'except %s' % (ast.unparse(p.type) if p.type is not None else '')
        if isinstance(p, (ast.For, ast.While)) and any(child is b for b in p.orelse):
            return 'loop-else of `%s`' % (ast.unparse(p.iter)[:50] if isinstance(p, ast.For) else ast.unparse(p.test)[:50])
        child = p
        p = getattr(p, '_parent', None)
    return ''


def arg_owner_with(te, index, fn, call, P):
    """name X such that the call passes `X.<attr>` and X is (typed as) an element that carries its own P (X.P exists)"""
    for a in list(call.args) + [k.value for k in call.keywords]:
        if isinstance(a, ast.Attribute) and isinstance(a.value, ast.Name) and a.value.id not in ('self', 'cls'):
            for t in te.type_of(a.value, fn):
                if t.startswith('C:') and t[2:] in index.classes:
                    k = index.classes[t[2:]]
                    if k.find_property(P) is not None or (te.root_of(k), P) in te.iattr:
                        return a.value.id
    return None


def value_in_scope(te, fn, names, self_attrs=True):
    """how the caller can name a value for the context parameter: 'name' | 'self' | None"""
    f = fn
    while f is not None:
        for q in names:
            if q in f.params or q in f.kwonly or (f.qualname, q) in te.var:
                return 'name'
        f = f.outer
    if self_attrs:
        k = te.self_class(fn)
        if k is not None:
            for q in names:
                if k.find_property(q) is not None or (te.root_of(k), q) in te.iattr:
                    return 'self'
            if k.qualname == 'core.ElementList':
                return 'self.element'
    return None


def own_value(te, fn, P, expr, depth=0):
    """the expression denotes the caller's own context value for P: the name P itself, self.P, a resolver call on P,
    or X.P for a local X that was constructed with P=<own value>"""
    if depth > 3:
        return False
    t = ast.unparse(expr)
    if t == P or t in ('self.' + P, 'self.element.' + P):
        return True
    if isinstance(expr, ast.Call) and expr.args and own_value(te, fn, P, expr.args[0], depth + 1) and \
            ast.unparse(expr.func).startswith('_get_'):
        return True
    if isinstance(expr, ast.Attribute) and expr.attr == P and isinstance(expr.value, ast.Name):
        x = expr.value.id
        if x in fn.params:
            return True       # context carried by an object handed to the caller
        for n in own_nodes(fn.node):
            if isinstance(n, ast.Assign) and any(isinstance(tg, ast.Name) and tg.id == x for tg in n.targets) and \
                    isinstance(n.value, ast.Call):
                for tgt in te.resolve_call(n.value, fn):
                    if tgt.kind == 'func':
                        b, _, _, kws = te.bind(n.value, tgt)
                        if P in b and own_value(te, fn, P, b[P], depth + 1):
                            return True
        return False
    if isinstance(expr, ast.Name):
        # a local resolved from the own value
        for n in own_nodes(fn.node):
            if isinstance(n, ast.Assign) and any(isinstance(tg, ast.Name) and tg.id == expr.id for tg in n.targets):
                if own_value(te, fn, P, n.value, depth + 1):
                    return True
        return False
    if isinstance(expr, ast.IfExp):
        return own_value(te, fn, P, expr.body, depth + 1) or own_value(te, fn, P, expr.orelse, depth + 1)
    return False


def check_forwarding(chk, c, rule, params, scope_names=None, exempt=None, only_callers=None, only_callees=None,
                     self_attrs=True, check_own=False):
    """emit one obligation per (call site, callee, P).  exempt: {(caller fq, callee name, P): reason}"""
    te, cg = c.te, c.cg
    exempt = exempt or {}
    used_exempt = set()
    n = 0
    seen = set()
    for fq in sorted(cg.sites):
        if only_callers is not None and not only_callers(fq):
            continue
        for s in cg.sites[fq]:
            if s.kind != 'call':
                continue
            for t in s.targets:
                if t.kind != 'func':
                    continue
                if only_callees is not None and not only_callees(t.func):
                    continue
                cp = t.func.call_params() if t.bound else t.func.params
                for P in params:
                    if P not in cp and P not in t.func.kwonly:
                        continue
                    names = (scope_names or {}).get(P, (P,))
                    sc = value_in_scope(te, s.fn, names, self_attrs)
                    if sc is None:
                        # the call describes an element through one of its attributes (f(el.datatype)): that element's own P
                        # is the context the callee needs
                        owner = arg_owner_with(te, c.index, s.fn, s.node, P) if P in ('version', 'validation_level') else None
                        if owner is None:
                            continue
                        sc = 'attribute of `%s`' % owner
                    key = (fq, s.lineno, s.label, t.func.qualname, P)
                    if key in seen:
                        continue
                    seen.add(key)
                    b, extra, stars, kwstars = te.bind(s.node, t)
                    kk = set()
                    for kx in kwstars:
                        kk |= set(te.kwargs_keys(kx, s.fn))
                    n += 1
                    construct = '%s -> %s(%s=)' % (fq, t.func.qualname, P)
                    where = '%s:%d' % (s.fn.module.relpath, s.lineno)
                    bctx = branch_context(s.node)
                    fkey = '%s|%s|%s|%s' % (rule, fq, t.func.qualname, P)
                    if bctx:
                        fkey += '|under ' + bctx
                    if P in b and sc == 'name' and check_own and P in (s.fn.params + s.fn.kwonly) and \
                            not own_value(te, s.fn, P, b[P]):
                        ek2 = (fq, t.func.name if t.func.name != '__init__' else t.func.cls.name, P)
                        if ek2 in exempt or (ek2[0], '*', ek2[2]) in exempt:
                            chk.ok(rule, construct, 'exempt (imprecise candidate)', where, key=fkey + '|' + s.label)
                            continue
                        chk.fail(rule, construct,
                                 'the call passes `%s` for %s, which is not the %s the caller was given: the callee works with a '
                                 'different context than the rest of the operation' % (ast.unparse(b[P])[:50], P, P), where,
                                 key=fkey + '|foreign ' + ast.unparse(b[P])[:40])
                        continue
                    if P in b or P in kk or stars:
                        chk.ok(rule, construct, '', where, key=fkey + '|' + s.label)
                        continue
                    ek = (fq, t.func.name if t.func.name != '__init__' else t.func.cls.name, P)
                    if not reads_param(t.func, P):
                        chk.ok(rule, construct, 'exempt: callee never reads %s' % P, where, key=fkey + '|' + s.label)
                        continue
                    if resolves_from_receiver(t.func, P):
                        chk.ok(rule, construct, 'exempt: callee resolves %s from its own state when None' % P, where,
                               key=fkey + '|' + s.label)
                        continue
                    if ek not in exempt and (ek[0], '*', ek[2]) in exempt:
                        ek = (ek[0], '*', ek[2])
                    if ek in exempt:
                        ex = exempt[ek]
                        reason, pred = ex if isinstance(ex, tuple) else (ex, None)
                        if pred is None or pred(s.node, bctx):
                            used_exempt.add(ek)
                            chk.ok(rule, construct, 'exempt: ' + reason, where, key=fkey + '|' + s.label)
                            continue
                    chk.fail(rule, construct,
                             'call `%s(...)` does not pass %s although the caller has it in scope (%s); the callee '
                             'falls back to a process-wide default / the standard structure' % (s.label, P, sc),
                             where, key=fkey)
    for ek in exempt:
        if ek not in used_exempt and chk.tier == 'thorough':
            chk.info('%s: exemption %s matched no call site on this tree' % (rule, ek,))
    return n


# context parameters that exist only to satisfy a common interface (the implementation has nothing to configure with them)
INTERFACE_ONLY = {
    ('base_datatypes.BaseDataType.to_er7', 'encoding_chars'): 'non-textual values contain no delimiter to escape',
    ('base_datatypes.DateTimeDataType.to_er7', 'encoding_chars'): 'strftime output contains no delimiter',
    ('base_datatypes.TM.to_er7', 'encoding_chars'): 'strftime output contains no delimiter',
    ('core.Element._handle_empty_children', 'encoding_chars'): 'template method, returns a constant',
    ('core.Segment._handle_empty_children', 'encoding_chars'): 'template method, returns a constant',
    ('core.SupportComplexDataType._handle_empty_children', 'encoding_chars'): 'template method, returns a constant',
    ('factories.date_factory', 'validation_level'): 'DT takes no validation level (uniform factory signature)',
    ('factories.datetime_factory', 'validation_level'): 'DTM takes no validation level (uniform factory signature)',
    ('factories.timestamp_factory', 'validation_level'): 'TM takes no validation level (uniform factory signature)',
}


def dead_context_params(chk, c, rule, params, modules=('core', 'parser', 'factories', 'base_datatypes', 'validation')):
    """a context parameter that a function accepts (and perhaps resolves) but never uses afterwards is a dropped context"""
    te = c.te
    n = 0
    for fn in te.funcs:
        mod = fn.module.name
        if mod not in modules and not mod.endswith('base_datatypes'):
            continue
        for P in params:
            if P not in fn.params + fn.kwonly:
                continue
            uses = 0
            for nd in own_nodes(fn.node):
                if isinstance(nd, ast.Name) and nd.id == P and isinstance(nd.ctx, ast.Load):
                    stmt = nd
                    while stmt is not None and not isinstance(stmt, ast.stmt):
                        stmt = getattr(stmt, '_parent', None)
                    if isinstance(stmt, ast.Assign) and any(isinstance(t, ast.Name) and t.id == P for t in stmt.targets):
                        continue      # P = _get_P(P): resolution, not use
                    if isinstance(stmt, ast.If) and any(x is nd for x in ast.walk(stmt.test)) and \
                            ast.unparse(stmt.test) in ('%s is None' % P, 'not %s' % P):
                        continue
                    uses += 1
            n += 1
            if uses:
                chk.ok(rule, '%s uses its %s' % (fn.qualname, P), '', fn.loc, key='%s|%s|%s' % (rule, fn.qualname, P))
            elif (fn.qualname, P) in INTERFACE_ONLY:
                chk.ok(rule, '%s(%s)' % (fn.qualname, P), 'interface-only: ' + INTERFACE_ONLY[(fn.qualname, P)], fn.loc,
                       key='%s|%s|%s' % (rule, fn.qualname, P))
            else:
                chk.fail(rule, '%s never uses its %s' % (fn.qualname, P),
                         'the function accepts (and resolves) %s but nothing it does depends on it any more: whatever it computes uses '
                         'some other %s (a default, or that of another object)' % (P, P), fn.loc, key='%s|%s|%s' % (rule, fn.qualname, P))
    return n


UNUSED_OK = {
    ('core.Field._get_children', 'trailing'): 'uniform _get_children signature; a field always trims (the encoder passes it on)',
    ('core.SupportComplexDataType._get_children', 'trailing'): 'uniform _get_children signature',
    ('core.SubComponent.add', 'obj'): 'always refuses: a subcomponent has no children',
    ('core.SubComponent.to_er7', 'trailing_children'): 'uniform to_er7 signature; a leaf has no children to trim',
}


def dead_params(chk, c, rule, select):
    """every parameter of the selected functions is read somewhere in the function: a parameter that is accepted and never
    looked at means the caller's argument (an index, a flag, a report file) silently has no effect"""
    n = 0
    for fq, fi in sorted(c.index.functions.items()):
        if not select(fi):
            continue
        if fi.outer is not None and any(isinstance(x, ast.Name) and x.id == fi.name and isinstance(x.ctx, ast.Load) and
                                        not (isinstance(getattr(x, '_parent', None), ast.Call) and x._parent.func is x)
                                        for x in ast.walk(fi.outer.node)):
            continue        # a local function handed over as a callback: its signature is dictated by the caller
        loads = {x.id for x in ast.walk(fi.node) if isinstance(x, ast.Name) and isinstance(x.ctx, (ast.Load, ast.Del))}
        for p in fi.params + fi.kwonly:          # *args / **kwargs exist to swallow what an interface may pass
            if not p or p in ('self', 'cls'):
                continue
            n += 1
            if p in loads:
                continue
            why = UNUSED_OK.get((fq, p)) or INTERFACE_ONLY.get((fq, p))
            if why:
                chk.ok(rule, '%s uses its %s' % (fq, p), 'exempt: ' + why, fi.loc, key='%s|%s|%s' % (rule, fq, p))
            else:
                chk.fail(rule, '%s uses its %s' % (fq, p),
                         'the parameter `%s` is never read: whatever the caller passes for it has no effect' % p, fi.loc,
                         key='%s|%s|%s' % (rule, fq, p))
    return n
