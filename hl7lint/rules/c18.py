"""C18 -- a message profile replaces the standard structure wherever it speaks."""
import ast

from .. import ctx as ctxmod
from ..src import own_nodes, norm
from . import forwarding

REF = ('reference', 'references')
SCOPE = {'reference': ('reference', 'references', 'ref', 'structure_by_name'),
         'references': ('reference', 'references', 'ref', 'structure_by_name')}

MSH12 = 'literal ST component of MSH-1/MSH-2: fixed by the standard, its value is the delimiters themselves'
EXEMPT = {
    ('core.Field._set_value', 'Component', 'reference'): MSH12,
    ('core.Message._set_encoding_chars', '*', 'reference'): MSH12,
    ('parser.parse_field', 'SubComponent', 'reference'): MSH12,
    ('parser.parse_field', 'Component', 'reference'): MSH12,
    ('core.SupportComplexDataType._set_value', '*', 'reference'):
        'child built for a BaseDataType value: typed by the value object (datatype=value.classname), not by a structure',
    ('core.Message.parse_children', '_find_structure', 'reference'):
        'an unknown message becomes known from its text: no profile can have been attached to an unnamed message',
    ('parser.parse_segments', 'parse_segment', 'reference'):
        ('the group search found no place for this segment at any level of the structure: there is no reference to pass',
         lambda node, bctx: bctx.startswith('loop-else of')),
    ('parser.parse_message', 'Message', 'reference'):
        ('unknown-structure fall-back after InvalidName: no structure exists to take a reference from',
         lambda node, bctx: bctx.startswith('except InvalidName')),
    ('parser.parse_message', 'parse_segments', 'references'):
        ('fall-back for a message without structure (m.reference raised AttributeError)',
         lambda node, bctx: bctx.startswith('except AttributeError')),
    ('parser.parse_message', 'validate', 'reference'):
        ('no profile was given: the validator loads the standard structure itself',
         lambda node, bctx: bctx.startswith('message_profile is None [true]')),
}


def run(chk):
    c = ctxmod.get()
    te, cg, ix = c.te, c.cg, c.index
    chk.rule('C18-F', 'every element construction / parse_* call made where a parent structure is in scope passes a '
                      'reference derived from it')
    chk.rule('C18-V', 'validation judges an element against its own reference; recursive checks take the child '
                      'reference from the parent reference')
    chk.rule('C18-S', 'both profile entry points map KeyError -> MessageProfileNotFound and test the legacy tag')

    def callee_ok(fi):
        return fi.module.name in ('core', 'parser', 'validation')

    n = forwarding.check_forwarding(chk, c, 'C18-F', REF, scope_names=SCOPE, exempt=EXEMPT, only_callees=callee_ok)
    chk.count('construction / parse call sites with a structure in scope', n)
    chk.floor('C18-F call sites', n, 50)

    chk.rule('C18-U', 'no function accepts a context parameter and then ignores it')
    forwarding.dead_context_params(chk, c, 'C18-U', REF)

    # ---- C18-R: the structure an element was given is not replaced by the standard one
    chk.rule('C18-R', 'outside constructors, _find_structure() without a reference (= reload from the standard tables) is '
                      'called only where the element has no structure yet (the is_unknown() branch)')
    from ..cfg import cfg_of, ENTRY, edge_implies
    UNKNOWN_POS = ('self.is_unknown()', 'self.name is None', 'not self.name')
    UNKNOWN_NEG = ('self.name is not None', 'self.name')
    nr = 0
    for fq, fi in sorted(ix.functions.items()):
        if fi.module.name not in ('core', 'parser') or fi.name in ('__init__', '_find_structure'):
            continue
        calls = [x for x in own_nodes(fi.node) if isinstance(x, ast.Call) and isinstance(x.func, ast.Attribute) and
                 x.func.attr == '_find_structure' and norm(x.func.value) == 'self']
        for x in calls:
            nr += 1
            given = list(x.args) + [k.value for k in x.keywords if k.arg in (None, 'reference')]
            if given and not all(isinstance(a, ast.Constant) and a.value is None for a in given):
                chk.ok('C18-R', '%s: %s passes a reference' % (fq, norm(x)[:50]), '', '%s:%d' % (fi.module.relpath, x.lineno),
                       key='C18-R|%s|arg' % fq)
                continue
            g = cfg_of(fi)

            def labels_ok(src, dst, lab, g=g):
                nd = g.nodes[src]
                if nd.kind == 'test' and edge_implies(nd.ast, lab, UNKNOWN_POS, UNKNOWN_NEG):
                    return False
                return True
            reach = g.reach(ENTRY, labels_ok=labels_ok)
            bad = g.node_for(x) in reach
            chk.ob('C18-R', '%s reloads the standard structure only for an element without one' % fq, not bad,
                   '`self._find_structure()` is reachable for an element that already has a structure: a message created '
                   'with reference=<profile> silently falls back to the standard tables', '%s:%d' % (fi.module.relpath, x.lineno),
                   key='C18-R|%s|reload' % fq)
    chk.floor('_find_structure() calls outside constructors', nr, 1)

    # ---- C18-V
    ev = ix.func('core.Element.validate')
    ok = False
    for s in cg.sites[ev.qualname]:
        if s.kind == 'call' and any(t.kind == 'func' and t.func.qualname == 'validation.Validator.validate' for t in s.targets):
            b, _, _, _ = te.bind(s.node, [t for t in s.targets if t.kind == 'func'][0])
            r = b.get('reference')
            ok = r is not None and norm(r) in ('self.reference', "getattr(self, 'reference', None)")
            if not ok and r is not None:
                # a local resolved from self.reference
                ok = isinstance(r, ast.Name) and any(
                    isinstance(n, ast.Assign) and any(isinstance(t, ast.Name) and t.id == r.id for t in n.targets) and
                    'reference' in norm(n.value) for n in own_nodes(ev.node))
    chk.ob('C18-V', 'core.Element.validate passes its own reference', ok,
           'Element.validate no longer hands the element\'s reference (profile or standard) to the validator',
           ev.loc, key='C18-V|Element.validate')
    pm = ix.func('parser.parse_message')
    found = False
    for s in cg.sites[pm.qualname]:
        if s.kind == 'call' and any(t.kind == 'func' and t.func.qualname == 'validation.Validator.validate' for t in s.targets):
            bctx = forwarding.branch_context(s.node)
            t = [t for t in s.targets if t.kind == 'func'][0]
            b, extra, _, _ = te.bind(s.node, t)
            r = b.get('reference')
            # the reference handed over is message_profile[...] -- directly on the profile branch, or through a local that
            # holds it when a profile was given (and None otherwise)
            from .pat import choice_assignments
            via_local = False
            if isinstance(r, ast.Name):
                for tst, tgt, a_, b_ in choice_assignments(pm.node):
                    if tgt == r.id and 'message_profile' in norm(tst) and any('message_profile[' in norm(v_) for v_ in (a_, b_)):
                        via_local = True
            if 'message_profile is None [false]' in bctx or via_local:
                found = True
                good = r is not None and ('message_profile' in norm(r) or via_local)
                chk.ob('C18-V', 'parse_message(force_validation) validates against the profile', good,
                       'the profile branch of force_validation does not pass message_profile[...] to the validator',
                       '%s:%d' % (pm.module.relpath, s.lineno), key='C18-V|parse_message.force_validation')
    if not found:
        chk.fail('C18-V', 'parse_message(force_validation) validates against the profile',
                 'no Validator.validate call under `message_profile is None` [false] any more', pm.loc,
                 key='C18-V|parse_message.force_validation')
    # recursive sites inside the validator take the child reference from the parent's
    vv = ix.func('validation.Validator.validate')
    ck = vv.nested.get('_check_known_element')
    if ck is None:
        from ..report import AnalysisError
        raise AnalysisError('validator closure _check_known_element not found')
    rec = 0
    for s in cg.sites[ck.qualname]:
        if s.kind == 'call' and any(t.kind == 'func' and t.func.name == '_is_valid' for t in s.targets) and \
                len(s.node.args) >= 2:
            arg = s.node.args[1]
            txt = norm(arg)
            # inside the loop over the parent's children references the argument must derive from the loop variable
            loop = None
            p = getattr(s.node, '_parent', None)
            while p is not None and p is not ck.node:
                if isinstance(p, ast.For) and isinstance(p.target, ast.Name) and 'ref' in p.target.id:
                    loop = p
                p = getattr(p, '_parent', None)
            if loop is not None:
                rec += 1
                good = loop.target.id in txt
                chk.ob('C18-V', '_check_known_element recursion uses the child reference', good,
                       'recursive validation of a child passes `%s`, not a reference derived from the parent\'s '
                       '`%s`' % (txt, loop.target.id), '%s:%d' % (ck.module.relpath, s.lineno),
                       key='C18-V|recursion|%s' % loop.target.id)
    chk.floor('recursive validator sites under the children-reference loop', rec, 1)

    # ---- C18-S sibling agreement of the two functions that subscript a profile by structure name
    sib = []
    for fq in ('core.Message.__init__', 'parser.parse_message'):
        fi = ix.func(fq)
        facts = {'subscript': None, 'keyerror': False, 'legacy': False}
        for n in own_nodes(fi.node):
            if isinstance(n, ast.Subscript) and isinstance(n.ctx, ast.Load) and isinstance(n.value, ast.Name) and \
                    n.value.id in ('reference', 'message_profile') and isinstance(n.slice, ast.Name):
                facts['subscript'] = n
            if isinstance(n, ast.ExceptHandler) and n.type is not None and 'KeyError' in norm(n.type):
                if any(isinstance(x, ast.Raise) and 'MessageProfileNotFound' in norm(x) for x in ast.walk(n)):
                    facts['keyerror'] = True
            if isinstance(n, ast.Compare) and any(isinstance(x, ast.Constant) and x.value == 'mp' for x in ast.walk(n)):
                facts['legacy'] = True
            if isinstance(n, ast.Raise) and 'LegacyMessageProfile' in norm(n):
                facts['legacy_raise'] = True
        sib.append((fq, fi, facts))
    for fq, fi, facts in sib:
        if facts['subscript'] is None:
            chk.info('C18-S: %s no longer subscripts a profile by structure name' % fq)
            continue
        chk.ob('C18-S', '%s maps a missing structure to MessageProfileNotFound' % fq, facts['keyerror'],
               'profile[structure] is subscripted without `except KeyError: raise MessageProfileNotFound`', fi.loc,
               key='C18-S|%s|KeyError' % fq)
        chk.ob('C18-S', '%s detects a legacy profile' % fq, facts['legacy'] and facts.get('legacy_raise', False),
               'this entry point subscripts the profile but never tests the legacy tag \'mp\' (its sibling does): '
               'a legacy profile is used as if it were a structure', fi.loc, key='C18-S|%s|legacy' % fq)

    # ---- N: the way a handed-down reference travels is decided by the element and the text, not by process defaults
    chk.rule('C18-N', 'the methods through which a profile reference is handed down (parse_child / parse_children of the element classes, '
                      'ElementList.set / create_element) and the core functions they call directly consult no process-wide default '
                      'unconditionally: whether the profile applies must not depend on set_default_*')
    from .c17 import none_guard as _ng, GETTERS as _GETTERS
    path_ = {fq_ for fq_ in cg.sites if fq_.startswith('core.') and fq_.rsplit('.', 1)[-1] in ('parse_child', 'parse_children')}
    path_ |= {'core.ElementList.set', 'core.ElementList.create_element'}
    for fq_ in sorted(path_):
        for s_ in cg.sites.get(fq_, ()):
            if s_.kind == 'call':
                for t_ in s_.targets:
                    if t_.kind == 'func' and t_.func.module.name == 'core' and t_.func.cls is None:
                        path_ = path_ | {t_.func.qualname}
    nn_ = 0
    for fq_ in sorted(path_):
        nn_ += 1
        bad_ = []
        for s_ in cg.sites.get(fq_, ()):
            if s_.kind != 'call':
                continue
            for t_ in s_.targets:
                if t_.kind == 'func' and t_.func.qualname.startswith('__init__.get_default_') and t_.func.name in _GETTERS and \
                        _ng(s_.node) is None:
                    bad_.append((t_.func.name, s_.lineno))
        fi_ = ix.functions.get(fq_)
        chk.ob('C18-N', '%s decides without process defaults' % fq_, not bad_,
               '%s() is consulted unconditionally at line %s: whether the reference of the profile is kept for a child then depends on '
               'the process-wide defaults, not on the message' % (bad_[0] if bad_ else ('', '')),
               fi_.loc if fi_ is not None else fq_, key='C18-N|%s' % fq_)
    chk.floor('functions on the reference hand-down path', nn_, 8)

    chk.rule('C18-G', 'profile errors (MessageProfileNotFound, LegacyMessageProfile) are raised under the same conditions as in the reviewed tree')
    from . import guardrules
    ng_ = guardrules.check(chk, c, 'C18-G', ['core.Message.__init__', 'parser.parse_message', 'core.Message.parse_children'])
    chk.floor('refusal predicates compared (C18-G)', ng_, 1)

    chk.rule('C18-D', 'decision structure of the functions this property is anchored in: every effect statement (store, call, return, '
                   'raise) runs under the same combinations of the function\'s elementary tests as in the reviewed tree, and none '
                   'was deleted (reference/decisions.json; compared by meaning, rewritten functions are not compared)')
    from . import guardrules as _gr
    nd2_ = _gr.check_decisions(chk, c, 'C18-D', lambda fq_: fq_.startswith(('core.Message.', 'core.ElementFinder.', 'parser.parse_message')))
    chk.floor('functions compared with the decision reference (C18-D)', nd2_, 1)
