"""C03 -- parsing never silently drops or reorders content."""
import ast

from .. import ctx as ctxmod
from ..cfg import cfg_of, ENTRY, EXIT, RAISE
from ..src import own_nodes, norm
from ..report import AnalysisError

PARSE_LOOPS = ('parser.parse_segments', 'parser.parse_fields', 'parser.parse_components', 'parser.parse_subcomponents')
REORDER = ('sorted', 'reversed', 'set', 'frozenset', 'shuffle')
REORDER_METHODS = ('sort', 'reverse')


def names_in(node):
    return {n.id for n in ast.walk(node) if isinstance(n, ast.Name)}


def split_derived_vars(fi):
    """variables assigned from a <str>.split(...) call"""
    out = set()
    for n in own_nodes(fi.node):
        if isinstance(n, ast.Assign) and isinstance(n.value, ast.Call) and isinstance(n.value.func, ast.Attribute) \
                and n.value.func.attr in ('split', 'splitlines', 'rsplit'):
            for t in n.targets:
                if isinstance(t, ast.Name):
                    out.add(t.id)
    return out


def _is_split_source(it, sv):
    return (isinstance(it, ast.Call) and isinstance(it.func, ast.Attribute) and
            it.func.attr in ('split', 'splitlines', 'rsplit')) or (isinstance(it, ast.Name) and it.id in sv)


def piece_loops(fi):
    """[(For node, piece variable name)] for loops over the pieces of a split"""
    sv = split_derived_vars(fi)
    out = []
    for n in own_nodes(fi.node):
        if not isinstance(n, ast.For):
            continue
        it = n.iter
        tgt = n.target
        if isinstance(it, ast.Call) and isinstance(it.func, ast.Name) and it.func.id == 'enumerate' and it.args:
            it = it.args[0]
            if isinstance(tgt, ast.Tuple) and len(tgt.elts) == 2:
                tgt = tgt.elts[1]
        if _is_split_source(it, sv) and isinstance(tgt, ast.Name):
            out.append((n, tgt.id))
    return out


def piece_comprehensions(fi):
    """[(ListComp/GeneratorExp node, piece variable name)]: comprehensions over the pieces of a split (the canonical form of
    `for p in x.split(sep): out.append(f(p))`)"""
    sv = split_derived_vars(fi)
    out = []
    for n in own_nodes(fi.node):
        if isinstance(n, (ast.ListComp, ast.GeneratorExp)) and len(n.generators) == 1:
            g = n.generators[0]
            it, tgt = g.iter, g.target
            if isinstance(it, ast.Call) and isinstance(it.func, ast.Name) and it.func.id == 'enumerate' and it.args:
                it = it.args[0]
                if isinstance(tgt, ast.Tuple) and len(tgt.elts) == 2:
                    tgt = tgt.elts[1]
            if _is_split_source(it, sv) and isinstance(tgt, ast.Name):
                out.append((n, tgt.id))
    return out


def piece_vars(fi):
    return {p for _, p in piece_loops(fi)} | {p for _, p in piece_comprehensions(fi)}


def derived(loop, piece):
    """variables inside the loop body whose value is computed from the piece (fixpoint over assignments)"""
    d = {piece}
    changed = True
    while changed:
        changed = False
        for n in ast.walk(loop):
            if isinstance(n, ast.Assign) and names_in(n.value) & d:
                for t in n.targets:
                    for x in ast.walk(t):
                        if isinstance(x, ast.Name) and x.id not in d:
                            d.add(x.id)
                            changed = True
            if isinstance(n, ast.For) and n is not loop and names_in(n.iter) & d:
                for x in ast.walk(n.target):
                    if isinstance(x, ast.Name) and x.id not in d:
                        d.add(x.id)
                        changed = True
    return d


def is_emptiness_test(test, piece):
    """the expression is false only when the piece has no content: len(p) > 0, p.strip(), p, ... or x"""
    t = norm(test)
    alts = test.values if isinstance(test, ast.BoolOp) and isinstance(test.op, ast.Or) else [test]
    for a in alts:
        ta = norm(a)
        if ta in ('len(%s) > 0' % piece, '%s.strip()' % piece, piece, 'len(%s)' % piece, 'len(%s.strip()) > 0' % piece,
                  '%s != \'\'' % piece, 'len(%s) != 0' % piece):
            return True
    return False


def run(chk):
    c = ctxmod.get()
    ix, cg, te = c.index, c.cg, c.te
    chk.rule('C03-P', 'no silent drop: on every normal path through the body of a loop over split pieces, the piece '
                      '(or the element built from it) reaches an append/add sink, or the path took the false branch of '
                      'an emptiness test on that piece; exceptional exits surface as exceptions')
    chk.rule('C03-O', 'no reordering: the insertion-ordered child views and the parse result lists are never sorted, '
                      'reversed or turned into sets')
    chk.rule('C03-U', 'unknown children are kept: parse_field falls back to an unnamed Field on InvalidName, and the '
                      'encoders append children without a structure name (name None / "ST")')
    chk.assume('library axiom: str.split(sep) returns at least one piece, so a loop over a split result runs at least once')

    nloops = 0
    for fq in PARSE_LOOPS:
        fi = ix.func(fq)
        g = cfg_of(fi)
        for loop, piece in piece_loops(fi):
            nloops += 1
            h = g.node_of_ast.get(id(loop))
            if h is None:
                raise AnalysisError('no CFG node for the loop in %s' % fq)
            d = derived(loop, piece)
            body_nodes = {g.node_for(n) for n in ast.walk(loop) if n is not loop and g.node_for(n)}
            body_nodes.discard(h)
            sinks = set()
            from . import treefacts
            wrappers = treefacts.attach_wrappers(ix, 'parser')
            for n in ast.walk(loop):
                if isinstance(n, ast.Call) and isinstance(n.func, ast.Attribute) and n.func.attr in ('append', 'add', 'extend'):
                    recv_names = names_in(n.func.value)
                    if any(names_in(a) & d for a in n.args) and not (recv_names & {piece}):
                        nid = g.node_for(n)
                        if nid:
                            sinks.add(nid)
                elif isinstance(n, ast.Call) and isinstance(n.func, ast.Name) and n.func.id in wrappers:
                    # a helper that attaches its argument on all its paths (wrapper summary)
                    if any(k < len(n.args) and names_in(n.args[k]) & d for k in wrappers[n.func.id]):
                        nid = g.node_for(n)
                        if nid:
                            sinks.add(nid)
            split_heads = set()
            for l2, p2 in piece_loops(fi):
                hh = g.node_of_ast.get(id(l2))
                if hh:
                    split_heads.add(hh)
            inner_bodies = {}
            for l2, p2 in piece_loops(fi):
                hh = g.node_of_ast.get(id(l2))
                inner_bodies[hh] = {g.node_for(n) for n in ast.walk(l2) if n is not l2 and g.node_for(n)} - {hh}

            # search: from h via 'iter', normal edges only, never through a sink, never along an emptiness-false edge;
            # state = (node, previous node) so that the zero-trip exit of an inner split loop can be excluded
            start = [(d2, h) for d2, lab in g.succ[h] if lab == 'iter']
            seen = set()
            work = list(start)
            prev = {}
            bad = None
            while work and bad is None:
                node, pr = work.pop()
                if (node, pr) in seen:
                    continue
                seen.add((node, pr))
                if node in sinks:
                    continue
                if node == h or node not in body_nodes:
                    bad = (node, pr)      # next iteration / loop exit / function exit reached without a sink
                    break
                nd = g.nodes[node]
                for d2, lab in g.succ[node]:
                    if lab == 'exc' and d2 == RAISE:
                        continue      # the exception leaves the function: content surfaces as an exception
                    if nd.kind == 'test' and lab == 'false' and is_emptiness_test(nd.ast, piece):
                        continue
                    if node in split_heads and node != h and lab == 'done' and pr not in inner_bodies.get(node, ()):
                        continue      # zero-trip exit of a loop over a split result (axiom)
                    if (d2, node) not in seen:
                        prev[(d2, node)] = (node, pr)
                        work.append((d2, node))
            construct = '%s: loop over pieces `%s`' % (fq, piece)
            where = '%s:%d' % (fi.module.relpath, loop.lineno)
            if bad is None:
                chk.ok('C03-P', construct, '%d sink(s)' % len(sinks), where, key='C03-P|%s|%s' % (fq, piece))
            else:
                # reconstruct the path
                path = [bad]
                while path[-1] in prev:
                    path.append(prev[path[-1]])
                steps = [g.nodes[n].label[:50] + ':%d' % g.nodes[n].lineno for n, _ in reversed(path)]
                how = 'finishes the iteration' if bad[0] == h else 'leaves the loop'
                last = g.nodes[bad[1]]
                chk.fail('C03-P', construct,
                         'a non-empty piece can pass through the loop body and %s without being attached or reported: '
                         '... %s' % (how, ' -> '.join(steps[-5:])), where,
                         key='C03-P|%s|%s|exit-without-sink after `%s`' % (fq, piece, last.label[:50]))
            if not sinks:
                raise AnalysisError('%s: no attach sink recognised in the loop over `%s`' % (fq, piece))
    # comprehensions over split pieces: a total map (one element per piece) whose result is kept
    for fq in PARSE_LOOPS:
        fi = ix.func(fq)
        for comp, piece in piece_comprehensions(fi):
            nloops += 1
            gen = comp.generators[0]
            filt = [t for t in gen.ifs if not is_emptiness_test(t, piece)]
            uses = piece in names_in(comp.elt)
            par = getattr(comp, '_parent', None)
            kept = (isinstance(par, ast.Call) and isinstance(par.func, ast.Attribute) and par.func.attr in ('extend', 'append')) or \
                isinstance(par, (ast.Assign, ast.Return)) or \
                (isinstance(par, ast.Call) and isinstance(par.func, ast.Name) and par.func.id in ('list', 'tuple'))
            construct = '%s: comprehension over pieces `%s`' % (fq, piece)
            where = '%s:%d' % (fi.module.relpath, comp.lineno)
            if filt:
                chk.fail('C03-P', construct, 'pieces are filtered by `%s`, which is not an emptiness test: a non-empty piece can be '
                                             'dropped silently' % norm(filt[0])[:60], where,
                         key='C03-P|%s|%s|filter' % (fq, piece))
            elif not uses or not kept:
                chk.fail('C03-P', construct, 'the element built from the piece is not kept (%s)' % (
                    'the piece is not used' if not uses else 'the list is discarded'), where,
                    key='C03-P|%s|%s|discarded' % (fq, piece))
            else:
                chk.ok('C03-P', construct, 'total map, result kept', where, key='C03-P|%s|%s' % (fq, piece))
    chk.floor('loops over split pieces in the parser', nloops, 5)

    chk.rule('C03-Z', 'fields beyond the defined count are not dropped by the encoder: the high-water mark of an open-ended segment is '
                      'the trailing number of the field name (same facts as C02-K3 / C09-Z)')
    from . import codelemmas as _clz
    _clz.open_ended(chk, c, 'C03-Z')
    chk.rule('C03-F', 'the encoders and parsers decide what is a leaf with the element\'s own HL7 version: a leaf that is taken for a '
                      'structure (or the reverse) because the default version\'s tables were asked is encoded as nothing -- content '
                      'silently lost for every other version')
    from . import forwarding as _fw
    nfw_ = _fw.check_forwarding(chk, c, 'C03-F', ('version',), check_own=True,
                                only_callers=lambda fq_: fq_.split('.')[0] in ('core', 'parser'),
                                only_callees=lambda f_: f_.name in ('is_base_datatype', 'load_reference', 'find_reference',
                                                                     'get_default_encoding_chars', 'datatype_factory'))
    chk.floor('datatype / structure look-ups on the parse and encode paths', nfw_, 20)
    chk.rule('C03-R', 'field repetitions are positional: every piece of a split on the repetition separator is parsed and attached, '
                      'also an empty one')
    repetition_pieces(chk, c, 'C03-R')

    # ---- O
    order_sites = ['core.ElementList.get_children', 'core.Group._get_children', 'parser.parse_message'] + list(PARSE_LOOPS)
    for fq in order_sites:
        fi = ix.func(fq)
        bad = []
        for n in own_nodes(fi.node):
            if isinstance(n, ast.Call):
                if isinstance(n.func, ast.Name) and n.func.id in REORDER:
                    bad.append(norm(n)[:50])
                if isinstance(n.func, ast.Attribute) and n.func.attr in REORDER_METHODS:
                    bad.append(norm(n)[:50])
                if isinstance(n.func, ast.Attribute) and n.func.attr == 'insert' and fq.startswith('parser.'):
                    bad.append(norm(n)[:50])
        chk.ob('C03-O', '%s keeps insertion order' % fq, not bad, 'reordering operation: %s' % bad[:2], fi.loc,
               key='C03-O|%s' % fq)
    gc = ix.func('core.ElementList.get_children')
    rets = [n for n in own_nodes(gc.node) if isinstance(n, ast.Return)]
    ok = len(rets) == 1 and isinstance(rets[0].value, ast.ListComp) and norm(rets[0].value.generators[0].iter) == 'self.list' \
        and not rets[0].value.generators[0].ifs
    chk.ob('C03-O', 'get_children returns every element of self.list in order', ok, norm(rets[0].value)[:80] if rets else '',
           gc.loc, key='C03-O|get_children|shape')
    pm = ix.func('parser.parse_message')
    ok = False
    for n in own_nodes(pm.node):
        if isinstance(n, ast.Assign) and any(norm(t).endswith('.children') for t in n.targets) and isinstance(n.value, ast.Name):
            src = [a.value for a in own_nodes(pm.node) if isinstance(a, ast.Assign) and
                   any(isinstance(t, ast.Name) and t.id == n.value.id for t in a.targets)]
            ok = bool(src) and all(isinstance(v, ast.Call) and norm(v.func) == 'parse_segments' for v in src)
    chk.ob('C03-O', 'parse_message installs the list returned by parse_segments', ok, '', pm.loc,
           key='C03-O|parse_message|children')

    from . import c08
    ps_ = ix.func('parser.parse_segments')
    cur_, stk_ = c08.find_cursor_and_stack(ps_)
    if cur_ is None or stk_ is None:
        raise AnalysisError('parse_segments: group cursor / reference stack not recognised')
    c08.cursor_sources(chk, ps_, cur_, stk_, 'C03-O')

    from . import codelemmas
    codelemmas.no_string_ordering(chk, c, 'C03-L')

    # ---- U
    pf = ix.func('parser.parse_field')
    ok = False
    for n in own_nodes(pf.node):
        if isinstance(n, ast.ExceptHandler) and n.type is not None and 'InvalidName' in norm(n.type):
            calls = [x for x in ast.walk(n) if isinstance(x, ast.Call) and norm(x.func) == 'Field']
            raises = [x for x in ast.walk(n) if isinstance(x, ast.Raise)]
            ok = bool(calls) and not raises
    chk.ob('C03-U', 'parse_field keeps a field whose name is not defined', ok,
           'the InvalidName handler no longer builds a fallback Field (content beyond the defined fields is lost or raises)',
           pf.loc, key='C03-U|parse_field')
    for fq in ('core.Element._get_children', 'core.Segment._get_children'):
        fi = ix.func(fq)
        ok = any(isinstance(n, ast.Compare) and isinstance(n.ops[0], ast.In) and norm(n.left).endswith('.name') and
                 isinstance(n.comparators[0], ast.Tuple) and
                 {getattr(e, 'value', '?') for e in n.comparators[0].elts} >= {None, 'ST'}
                 for n in own_nodes(fi.node))
        ok2 = any(isinstance(n, ast.Call) and norm(n.func).endswith('children.extend') for n in own_nodes(fi.node))
        chk.ob('C03-U', '%s appends children without a structure name' % fq, ok and ok2,
               'the catch-all clause `name in (None, "ST")` over get_children() is gone: unknown children are not encoded',
               fi.loc, key='C03-U|%s' % fq)


def repetition_pieces(chk, c, rule):
    """Repetitions of a field carry their position only in their order (all of them are attached under the same name), so
    -- unlike fields and components, whose names keep their slot -- not even an empty repetition may be skipped: every piece
    of a split on the repetition separator is parsed and attached."""
    ix = c.index
    from . import pat
    n = 0
    for fq in PARSE_LOOPS + ('parser.parse_field',):
        fi = ix.func(fq)
        rsep = pat.vars_assigned_from(fi.node, ("encoding_chars['REPETITION']", "encoding_chars.get('REPETITION')")) | \
            {"encoding_chars['REPETITION']"}

        def over_repetitions(it):
            if isinstance(it, ast.Call) and isinstance(it.func, ast.Name) and it.func.id == 'enumerate' and it.args:
                it = it.args[0]
            it = pat.inline_locals(it, fi.node)
            return isinstance(it, ast.Call) and isinstance(it.func, ast.Attribute) and it.func.attr in ('split', 'rsplit') and \
                it.args and norm(it.args[0]) in rsep
        for node in own_nodes(fi.node):
            if isinstance(node, (ast.ListComp, ast.GeneratorExp)) and len(node.generators) == 1 and over_repetitions(node.generators[0].iter):
                n += 1
                ifs = node.generators[0].ifs
                chk.ob(rule, '%s: every repetition is parsed' % fq, not ifs,
                       'repetitions are filtered by `%s`: a skipped (even empty) repetition shifts the position of the following ones' %
                       (norm(ifs[0])[:60] if ifs else ''), '%s:%d' % (fi.module.relpath, node.lineno), key='%s|%s|comprehension' % (rule, fq))
            if isinstance(node, ast.For) and over_repetitions(node.iter):
                n += 1
                g = cfg_of(fi)
                h = g.node_of_ast.get(id(node))
                piece = norm(node.target.elts[-1] if isinstance(node.target, ast.Tuple) else node.target)
                sinks = {g.node_for(x) for x in ast.walk(node) if isinstance(x, ast.Call) and isinstance(x.func, ast.Attribute) and
                         x.func.attr in ('append', 'add', 'extend') and any(piece in names_in(a) or names_in(a) & derived(node, piece) for a in x.args)}
                from .codelemmas import loop_always_hits
                ok = bool(sinks) and loop_always_hits(g, node, sinks)
                chk.ob(rule, '%s: every repetition is parsed' % fq, ok,
                       'an iteration over the repetitions can finish without attaching anything: a skipped (even empty) repetition '
                       'shifts the position of the following ones', '%s:%d' % (fi.module.relpath, node.lineno), key='%s|%s|loop' % (rule, fq))
    chk.floor('iterations over field repetitions', n, 1)
