"""C05 -- STRICT accepts a subset of TOLERANT and enforces what validate() checks."""
import ast

from .. import ctx as ctxmod
from ..src import own_nodes, norm
from ..cfg import cfg_of
from ..report import AnalysisError
from . import levels, forwarding, c10

# tolerant-only adaptations: (function, condition) -> why STRICT refuses the same input elsewhere
TOLERANT_ADAPTATIONS = {
    ('core.SupportComplexDataType._set_value',
     'Validator.is_tolerant(self.validation_level) and is_base_datatype(self.datatype, self.version) and (len(children) > 1)'):
        'base datatype with more than one child: under STRICT the second child hits MaxChildLimitReached in Field.add / Component.add',
    ('parser.parse_field',
     'Validator.is_tolerant(validation_level) and is_base_datatype(field.datatype, version) and (len(children) > 1)'):
        'same adaptation on the parse path; STRICT raises MaxChildLimitReached when the children are attached',
    ('parser.parse_component',
     'Validator.is_tolerant(component.validation_level) and is_base_datatype(component.datatype, version) and (len(children) > 1)'):
        'same adaptation one level down',
    ('core.CanBeVaries.__init__',
     "not Validator.is_strict(validation_level) and datatype not in (None, 'varies') and (not is_base_datatype(datatype, version))"):
        'datatype override builds the overriding reference; under STRICT the override is refused a few lines below '
        '(OperationNotAllowed "Cannot override datatype in strict mode")',
}


def _adapt_key(test):
    """order-insensitive form of a level-dependent condition: the set of its conjuncts, with the argument of the level test
    abstracted (is_tolerant(self.validation_level) and is_tolerant(validation_level) read the same resolved level)"""
    import re as _re
    t = test if not isinstance(test, str) else ast.parse(test, mode='eval').body
    from .pat import conjuncts
    out = set()
    for c_ in conjuncts(t):
        x = norm(c_)
        x = _re.sub(r'(Validator\.)?is_(tolerant|strict)\([^()]*\)', r'is_\2(*)', x)
        if x.startswith('(') and x.endswith(')'):
            x = x[1:-1]
        out.add(x)
    return frozenset(out)


def listed_adaptation(fq, test):
    k = _adapt_key(test)
    for (f_, txt), why in TOLERANT_ADAPTATIONS.items():
        if f_ == fq and _adapt_key(txt) == k:
            return why
    return None


# functions that must contain a STRICT-only refusal (what STRICT construction enforces beyond TOLERANT)
REQUIRED_REFUSALS = {
    'base_datatypes.BaseDataType.__init__': 'a value longer than the datatype\'s maximum length',
    'core.ElementList._can_add_child': 'a child beyond its maximum cardinality',
    'core.Element.find_child_reference': 'a child the structure does not define',
    'core.Group.find_child_reference': 'a child the group structure does not define',
    'core.Message.find_child_reference': 'a child the message structure does not define',
    'core.SupportComplexDataType._set_datatype': 'a datatype override',
    'core.SubComponent._set_datatype': 'a datatype override on a subcomponent',
    'core.SupportComplexDataType._is_valid_child': 'an unknown child of a complex element',
    'core.Segment._is_valid_child': 'an unnamed field',
    'core.Group._is_valid_child': 'an unnamed segment or group',
    'core.CanBeVaries.__init__': 'a datatype override at construction',
    'core.Component.__init__': 'an unknown component',
    'core.Field.__init__': 'an unknown field / a datatype override at construction',
    'core.Group.__init__': 'an unnamed group',
    'parser.parse_component': 'a component whose name the datatype does not define',
    'factories.datatype_factory': 'a value invalid for its base datatype',
}


def _pure_stmt(s):
    """statement that can only refuse (raise / return False) or compute locals"""
    if isinstance(s, ast.Raise) or isinstance(s, ast.Pass):
        return True
    if isinstance(s, ast.Return):
        return s.value is None or (isinstance(s.value, ast.Constant) and s.value.value in (False, None))
    if isinstance(s, ast.Expr) and isinstance(s.value, ast.Constant):
        return True
    if isinstance(s, ast.Assign):
        return all(isinstance(t, (ast.Name, ast.Tuple)) and all(isinstance(x, ast.Name) for x in ast.walk(t)
                                                                if isinstance(x, (ast.Name, ast.Attribute, ast.Subscript)))
                   for t in s.targets) and not any(isinstance(x, ast.Call) and isinstance(x.func, ast.Attribute) and
                                                   x.func.attr in ('append', 'add', 'remove', 'insert', 'set', 'pop',
                                                                   'update', 'extend', 'clear') and
                                                   not norm(x.func.value).endswith(('repetitions', 'indexes'))
                                                   for x in ast.walk(s.value))
    if isinstance(s, ast.If):
        return all(_pure_stmt(x) for x in s.body) and all(_pure_stmt(x) for x in s.orelse)
    return False


def refusal_only(stmts, fnode=None):
    if not all(_pure_stmt(s) for s in stmts):
        return False
    if fnode is None or not stmts:
        return True
    # locals computed inside the region must not be read outside it (they would carry the level into common code)
    inside = set()
    for s in stmts:
        for n in ast.walk(s):
            inside.add(id(n))
    assigned = {n.id for s in stmts for n in ast.walk(s) if isinstance(n, ast.Name) and isinstance(n.ctx, ast.Store)}
    for n in ast.walk(fnode):
        if isinstance(n, ast.Name) and isinstance(n.ctx, ast.Load) and n.id in assigned and id(n) not in inside:
            return False
    return True


def polarity(test, call):
    """('strict'|'tolerant', exclusive: bool): under which level the true branch of `test` runs because of `call`"""
    meth = call.func.attr if isinstance(call, ast.Call) else None
    base = 'strict' if meth == 'is_strict' else 'tolerant'
    # walk from call up to test counting negations; only And-conjunctions keep exclusivity
    neg = False
    p = call
    exclusive = True
    while p is not test:
        par = getattr(p, '_parent', None)
        if isinstance(par, ast.UnaryOp) and isinstance(par.op, ast.Not):
            neg = not neg
        elif isinstance(par, ast.BoolOp) and isinstance(par.op, ast.Or):
            exclusive = False
        elif isinstance(par, ast.BoolOp) and isinstance(par.op, ast.And):
            pass
        elif par is test:
            pass
        elif isinstance(par, (ast.Compare, ast.IfExp, ast.Call)):
            exclusive = False
        p = par
        if p is None:
            return base, False
    if neg:
        base = 'tolerant' if base == 'strict' else 'strict'
    return base, exclusive


def run(chk):
    c = ctxmod.get()
    ix, cg, te, fx = c.index, c.cg, c.te, c.fx
    chk.rule('C05-L', 'every validation-level test is refusal-only under STRICT (the strict-only region can only raise / '
                      'return False), or a listed tolerant-only adaptation; anything else makes the two levels behave '
                      'differently on accepted input')
    chk.rule('C05-D', 'every insertion into list/indexes is dominated by the admission check (class, name, cardinality, '
                      'level and version tests)')
    chk.rule('C05-K', 'the attach-time cardinality guard and the validator\'s cardinality check are the same predicate: '
                      'count after attach exceeds max, max bounded')
    chk.rule('C05-V', 'level tests read the resolved level, not a parameter that may still be None (same facts as C17-R)')
    chk.rule('C05-M', 'every base datatype constructor chain forwards validation_level up to BaseDataType.__init__, '
                      'where the STRICT max-length guard lives')

    tests = levels.level_test_calls(c)
    chk.floor('validation-level tests', len(tests), 18)
    refusals = 0
    refusing = set()
    for fn, call, meth, arg in tests:
        where = '%s:%d' % (fn.module.relpath, call.lineno)
        # innermost enclosing if whose test contains the call
        p = call
        iff = None
        while p is not None and not isinstance(p, (ast.FunctionDef, ast.AsyncFunctionDef)):
            par = getattr(p, '_parent', None)
            if isinstance(par, ast.If) and _inside(par.test, call):
                iff = par
                break
            p = par
        if fn.qualname == 'validation.Validator.is_quiet':
            continue
        ctxt = norm(iff.test) if iff is not None else levels.enclosing_condition(call)
        construct = '%s: `%s`' % (fn.qualname, ctxt[:90])
        key = 'C05-L|%s|%s' % (fn.qualname, ctxt)
        if iff is None or meth == 'compare':
            chk.fail('C05-L', construct, 'the validation level is consulted outside an if-condition: its effect cannot be '
                     'classified as refusal-only', where, key=key)
            continue
        pol, excl = polarity(iff.test, call)
        if pol == 'strict':
            ok = refusal_only(iff.body, fn.node)
            only_level = norm(iff.test) == norm(call)
            else_ok = True
            if only_level and iff.orelse:
                # pure if STRICT: A else: B  -> B is tolerant-only
                else_ok = (fn.qualname, 'else of ' + ctxt) in TOLERANT_ADAPTATIONS or refusal_only(iff.orelse, fn.node)
            if ok and else_ok:
                refusals += 1
                if any(isinstance(x, (ast.Raise, ast.Return)) for b in iff.body for x in ast.walk(b)):
                    refusing.add(fn.qualname)
                chk.ok('C05-L', construct, 'refusal-only under STRICT', where, key=key)
            else:
                chk.fail('C05-L', construct,
                         'the branch taken only under STRICT does more than refuse (or its else-branch is taken only under '
                         'TOLERANT): the same accepted call sequence behaves differently under the two levels', where, key=key)
        else:
            why_ = listed_adaptation(fn.qualname, iff.test)
            if why_:
                chk.ok('C05-L', construct, 'listed tolerant-only adaptation: ' + why_, where, key=key)
            else:
                chk.fail('C05-L', construct,
                         'a branch runs only under TOLERANT and is not one of the listed adaptations (for which STRICT is known '
                         'to refuse the same input): STRICT-accepted input may be handled differently', where, key=key)
    chk.floor('refusal-only STRICT sites', refusals, 12)
    # what STRICT enforces today must stay enforced: each of these functions keeps a STRICT refusal
    for fq, what in sorted(REQUIRED_REFUSALS.items()):
        fi = ix.func(fq)
        ok = fq in refusing or fi.qualname in refusing        # (an inherited implementation counts under its own name)
        chk.ob('C05-L', '%s refuses under STRICT: %s' % (fq, what), ok,
               'the STRICT-only refusal in this function is gone: STRICT now lets in %s' % what, fi.loc,
               key='C05-L|required|%s' % fq)

    # ---- F: the guards that STRICT enforces are evaluated for the element's own version and level
    chk.rule('C05-F', 'element methods pass the element\'s own version / validation level to every datatype or structure test they '
                      'make (a guard evaluated for the default version does not enforce anything for other versions)')
    elem = ix.cls('core.Element')

    def in_elem(fq):
        fi = ix.functions[fq]
        k = fi.cls or (fi.outer.cls if fi.outer else None)
        return k is not None and (elem in k.mro or k.qualname == 'core.ElementList')
    nfw = forwarding.check_forwarding(chk, c, 'C05-F', ('version', 'validation_level'), only_callers=in_elem, check_own=True)
    chk.floor('context hand-offs inside element methods', nfw, 60)

    # ---- D
    c10.admission(chk, c, 'C05-D')

    # ---- K  (path conditions of the two refusals, compared on a finite grid of counts and bounds)
    from .. import pathcond
    from . import pat
    import itertools
    can = ix.func('core.ElementList._can_add_child')
    raises = [n for n in own_nodes(can.node) if isinstance(n, ast.Raise) and 'MaxChildLimitReached' in norm(n)]
    if not raises:
        raise AnalysisError('_can_add_child: the MaxChildLimitReached refusal was not found')
    g = cfg_of(can)
    paths = []
    for r in raises:
        paths += pathcond.conditions(g, g.node_for(r))
    # symbols: the current number of same-named children, and the upper bound unpacked from the repetitions table
    counts = sorted({norm(x) for cs in paths for t, _ in cs for x in ast.walk(t)
                     if isinstance(x, ast.Call) and norm(x.func) == 'len'})
    maxes = set()
    for n in own_nodes(can.node):
        if isinstance(n, ast.Assign) and isinstance(n.targets[0], ast.Tuple) and len(n.targets[0].elts) == 2 and \
                'repetitions' in norm(n.value):
            maxes.add(norm(n.targets[0].elts[1]))
    if len(counts) != 1 or len(maxes) != 1:
        raise AnalysisError('_can_add_child: count / bound symbols of the cardinality guard not recognised (%s / %s)' % (
            counts, sorted(maxes)))
    cnt, mx = counts[0], sorted(maxes)[0]
    # the counted collection must be the by-name index entry of the child being attached
    cnode = [x for cs in paths for t, _ in cs for x in ast.walk(t) if isinstance(x, ast.Call) and norm(x) == cnt][0]
    counted = norm(pat.inline_locals(cnode.args[0], can.node)) if cnode.args else ''
    ok_cnt = counted in ('self.indexes.get(child.name, [])', 'self.indexes.get(child.name, ())', 'self.indexes[child.name]',
                         'self.indexes.get(child.name) or []')
    chk.ob('C05-K', 'attach guard counts the children listed under the child\'s name', ok_cnt,
           'the guard counts `%s`, not the by-name index entry: the bound is not enforced for what is actually listed' % counted[:80],
           '%s:%d' % (can.module.relpath, raises[0].lineno), key='C05-K|counted')
    sub = lambda e: pat.inline_locals(e, can.node) if isinstance(e, ast.Name) and norm(e) not in (cnt, mx) else None
    atoms = pathcond.free_atoms(paths, {cnt: 0, mx: 0}, sub)
    grid = [(k, m) for k in range(0, 5) for m in (-1, 0, 1, 2, 3)]
    want = {(k, m): (m > -1 and k + 1 > m) for k, m in grid}
    shapes = {}
    try:
        for vals in itertools.product((False, True), repeat=len(atoms)):
            A = dict(zip(atoms, vals))
            got = tuple(pathcond.holds(paths, {cnt: k, mx: m}, A, sub) for k, m in grid)
            shapes.setdefault(got, []).append(A)
    except pathcond.Unknown as e_:
        raise AnalysisError('_can_add_child: cardinality guard not evaluable (%s)' % e_)
    never = tuple(False for _ in grid)
    expected = tuple(want[p_] for p_ in grid)
    other = [s_ for s_ in shapes if s_ not in (never, expected)]
    ok_attach = expected in shapes and not other
    detail = ''
    if not ok_attach:
        bad = other[0] if other else never
        diff = [grid[i] for i in range(len(grid)) if bad[i] != expected[i]][:4]
        detail = 'the attach guard refuses under a different condition than `count + 1 > max and max > -1`, e.g. for ' \
                 '(count, max) = %s' % diff
    chk.ob('C05-K', 'attach guard: refuses iff count + 1 > max and max > -1', ok_attach, detail,
           '%s:%d' % (can.module.relpath, raises[0].lineno), key='C05-K|attach')
    # the guard is consulted under STRICT only, and always under STRICT
    strict_atoms = [a_ for a_ in atoms if 'is_strict' in a_]
    ok = bool(strict_atoms) and expected in shapes and all(A[strict_atoms[0]] for A in shapes.get(expected, []))
    chk.ob('C05-K', 'the attach guard is enforced under STRICT', ok, 'level atoms on the refusing paths: %s' % strict_atoms,
           '%s:%d' % (can.module.relpath, raises[0].lineno), key='C05-K|strict')

    vv = ix.func('validation.Validator.validate')
    cr = vv.nested.get('_check_repetitions')
    if cr is None:
        raise AnalysisError('validator closure _check_repetitions not found')
    over = [n for n in own_nodes(cr.node) if isinstance(n, ast.Expr) and isinstance(n.value, ast.Call) and
            'limit exceeded' in norm(n).lower()]
    ok_val = False
    detail = 'no "Child limit exceeded" report'
    if over:
        g2 = cfg_of(cr)
        paths2 = []
        for o in over:
            paths2 += pathcond.conditions(g2, g2.node_for(o))
        nsym = msym = xsym = None
        for n in own_nodes(cr.node):
            if isinstance(n, ast.Assign) and isinstance(n.targets[0], ast.Tuple) and len(n.targets[0].elts) == 2 and \
                    norm(n.value) in cr.params:
                msym, xsym = norm(n.targets[0].elts[0]), norm(n.targets[0].elts[1])
            if isinstance(n, ast.Assign) and isinstance(n.value, ast.Call) and norm(n.value.func) == 'len' and \
                    isinstance(n.targets[0], ast.Name):
                nsym = n.targets[0].id
        if None in (nsym, msym, xsym):
            raise AnalysisError('_check_repetitions: count / cardinality symbols not recognised')
        sub2 = lambda e: pat.inline_locals(e, cr.node) if isinstance(e, ast.Name) and norm(e) not in (nsym, msym, xsym) else None
        grid2 = [(k, lo, hi) for k in range(0, 6) for hi in (-1, 0, 1, 2, 3) for lo in range(0, 4) if hi == -1 or lo <= hi]
        try:
            bad = [(k, lo, hi) for k, lo, hi in grid2
                   if pathcond.holds(paths2, {nsym: k, msym: lo, xsym: hi}, None, sub2) != (hi != -1 and k > hi)]
        except pathcond.Unknown as e_:
            raise AnalysisError('_check_repetitions: overflow condition not evaluable (%s)' % e_)
        ok_val = not bad
        detail = '' if ok_val else 'the validator reports an overflow under a different condition than `count > max and max != -1`, ' \
                                   'e.g. for (count, min, max) = %s: attach-time and validation-time cardinality disagree' % bad[:4]
    chk.ob('C05-K', 'validator: overflow reported iff count > max and max != -1', ok_val, detail, cr.loc, key='C05-K|validator')

    # ---- V
    raw = levels.raw_param_level_tests(c)
    rawset = {id(call) for fn, call, p, path in raw}
    for fn, call, meth, arg in tests:
        ctxt = levels.enclosing_condition(call)
        where = '%s:%d' % (fn.module.relpath, call.lineno)
        construct = '%s tests %s(%s) in `%s`' % (fn.qualname, meth, norm(arg)[:30], ctxt[:70])
        if id(call) in rawset and (fn.qualname, ctxt) in levels.BENIGN_RAW:
            chk.ok('C05-V', construct, 'benign: ' + levels.BENIGN_RAW[(fn.qualname, ctxt)], where,
                   key='C05-V|%s|%s' % (fn.qualname, ctxt))
        elif id(call) in rawset:
            chk.fail('C05-V', construct,
                     'the STRICT test reads the raw parameter: with STRICT as process default and no explicit level the refusal '
                     'is skipped, i.e. STRICT lets the element in', where, key='C05-V|%s|%s' % (fn.qualname, ctxt))
        else:
            chk.ok('C05-V', construct, '', where, key='C05-V|%s|%s' % (fn.qualname, ctxt))

    # ---- M
    bdt = ix.cls('base_datatypes.BaseDataType')

    def callee_ok(fi):
        return fi.cls is not None and bdt in fi.cls.mro and fi.name == '__init__'

    def caller_ok(fq):
        fi = ix.functions[fq]
        return fi.cls is not None and bdt in fi.cls.mro and fi.name == '__init__'
    n = forwarding.check_forwarding(chk, c, 'C05-M', ('validation_level',), only_callers=caller_ok, only_callees=callee_ok)
    chk.floor('datatype constructor chains', n, 15)
    # every class bound in some BASE_DATATYPES that has a max_length reaches the guard
    guard_fn = ix.func('base_datatypes.BaseDataType.__init__')
    mlr = [x for x in own_nodes(guard_fn.node) if isinstance(x, ast.Raise) and 'MaxLengthReached' in norm(x)]
    ok = False
    if mlr:
        g3 = cfg_of(guard_fn)
        paths3 = []
        for x in mlr:
            paths3 += pathcond.conditions(g3, g3.node_for(x))
        # every path to the refusal passed `is_strict(...)` with outcome true (what it measures is rule C13-M)
        ok = pathcond.every_path_requires(paths3, lambda t, pol: pol and isinstance(t, ast.Call) and 'is_strict' in norm(t.func))
    chk.ob('C05-M', 'BaseDataType.__init__ raises MaxLengthReached under STRICT', ok, '', guard_fn.loc, key='C05-M|guard')

    chk.rule('C05-G', 'the conditions under which attaching / constructing / re-typing is refused are those of the reviewed tree: no refusal was weakened and none was extended to TOLERANT (what STRICT enforces stays enforced; TOLERANT accepts what it accepted)')
    from . import guardrules
    chk.rule('C05-Z', 'the Z-name predicates agree: every Z segment name that the segment predicate, the parser and STRICT '
                      'construction accept has fields that are Z fields (otherwise validate() reports a STRICT-accepted element)')
    from . import codelemmas as _cl
    _cl.z_name_alphabets(chk, c, 'C05-Z')
    ng_ = guardrules.check(chk, c, 'C05-G', ['core.ElementList._can_add_child', 'core.SupportComplexDataType._is_valid_child', 'core.Segment._is_valid_child', 'core.Group._is_valid_child', 'core.Component.add', 'core.Field.add', 'core.Component.add_subcomponent', 'core.CanBeVaries.__init__', 'core.Field.__init__', 'core.Component.__init__', 'core.SubComponent.__init__', 'core.Group.__init__', 'core.Segment.__init__', 'core.Element.__init__', 'core.SupportComplexDataType.__init__', 'core.SupportComplexDataType._set_datatype', 'core.SubComponent._set_datatype', 'core.SubComponent._set_value', 'core.SubComponent.add', 'core.SupportComplexDataType._set_value', 'core.ElementList.set', 'base_datatypes.BaseDataType.__init__'])
    chk.floor('refusal predicates compared (C05-G)', ng_, 1)

    chk.rule('C05-D2', 'decision structure of the functions this property is anchored in: every effect statement (store, call, return, '
                   'raise) runs under the same combinations of the function\'s elementary tests as in the reviewed tree, and none '
                   'was deleted (reference/decisions.json; compared by meaning, rewritten functions are not compared)')
    from . import guardrules as _gr
    nd2_ = _gr.check_decisions(chk, c, 'C05-D2', lambda fq_: fq_.startswith(('core.SupportComplexDataType.', 'core.CanBeVaries.', 'core.SubComponent.', 'core.Component.')))
    chk.floor('functions compared with the decision reference (C05-D2)', nd2_, 1)
    from . import memo as _memo
    _memo.wire(chk, c, 'C05-M', lambda fi: fi.module.name.split('.')[-1] in ('factories', 'base_datatypes', 'utils', 'validation'), 'the datatype modules (factories, base datatypes) and the validator')



def _inside(root, node):
    for n in ast.walk(root):
        if n is node:
            return True
    return False
