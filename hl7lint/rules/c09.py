"""C09 -- child mutations behave like edits of an ordered list."""
import ast

from .. import ctx as ctxmod
from ..src import own_nodes, norm
from ..report import AnalysisError
from . import treefacts as tf
from . import c10


def _calls(fi, name):
    return [n for n in own_nodes(fi.node) if isinstance(n, ast.Call) and isinstance(n.func, ast.Attribute)
            and n.func.attr == name]


def _assigned(fi, var):
    return [n.value for n in own_nodes(fi.node) if isinstance(n, ast.Assign) and
            any(isinstance(t, ast.Name) and t.id == var for t in n.targets)]


def run(chk):
    c = ctxmod.get()
    fx, cg, ix, te = c.fx, c.cg, c.index, c.te
    el = ix.cls(tf.EL)
    chk.rule('C09-P', 'from the positional write API ElementList.insert(index, child, by_name_index) the only statements '
                      'that can list the child are the positional ones of insert itself')
    chk.rule('C09-C', 'list and by-name index are co-updated on every path (same rule as C10-W2)')
    chk.rule('C09-I', 'replace_child re-inserts the new child at the list position and by-name position of the old one')
    chk.rule('C09-X', 'deletions resolve the addressed child by (name, index) / position and remove that object')
    chk.rule('C09-V', 'assigning an ElementProxy copies its first element by value (to_er7) before anything else')
    chk.rule('C09-S', 'set() replaces the addressed repetition when it exists and appends otherwise')

    # ---- P: reachable non-positional list writes
    ins = el.methods.get('insert')
    if ins is None:
        raise AnalysisError('ElementList.insert not found')
    summary = tf.class_write_summary(c)
    own_add = {fq for fq in summary}
    reach = cg.reachable([ins.qualname])
    adders = []
    for fq in sorted(reach):
        if fq == ins.qualname:
            continue
        for w in fx.writes.get(fq, ()):
            f = tf.field_of(w.loc)
            if f and f[0] == tf.EL and f[1] in ('list', 'indexes') and tf.polarity(w) == 'add' and not tf.is_reset(w):
                adders.append((fq, w))
    chk.count('functions reachable from ElementList.insert', len(reach))
    if not adders:
        chk.ok('C09-P', 'ElementList.insert reaches no other list writer', '', ins.loc, key='C09-P|insert')
    seen = set()
    for fq, w in adders:
        if fq in seen:
            continue
        seen.add(fq)
        path = cg.path_to(fq)
        chk.fail('C09-P', 'ElementList.insert reaches %s' % fq,
                 'a positional insert can list the child through `%s` (%s), which ignores the requested position; '
                 'call chain: %s' % (w.text, w.where(), ' ; '.join(path[-5:])), ins.loc,
                 key='C09-P|insert|reaches %s' % fq)
    # insert's own statements use its position parameters
    params = ins.call_params()
    if len(params) < 3:
        raise AnalysisError('ElementList.insert lost its position parameters')
    idx_p, child_p, byname_p = params[0], params[1], params[2]
    for call in _calls(ins, 'insert'):
        recv = norm(call.func.value)
        want = idx_p if recv == 'self.list' else byname_p
        ok = bool(call.args) and isinstance(call.args[0], ast.Name) and call.args[0].id == want and \
            len(call.args) > 1 and norm(call.args[1]) == child_p
        chk.ob('C09-P', 'insert: `%s.insert(...)` uses %s' % (recv, want), ok,
               '`%s` does not insert `%s` at `%s`' % (norm(call), child_p, want),
               '%s:%d' % (ins.module.relpath, call.lineno), key='C09-P|insert|%s' % recv)
    if not any(norm(x.func.value) == 'self.list' for x in _calls(ins, 'insert')):
        chk.fail('C09-P', 'insert: positional list insertion', 'ElementList.insert no longer calls self.list.insert(index, child)',
                 ins.loc, key='C09-P|insert|self.list')

    # ---- C: co-update (shared implementation)
    sub = type(chk)(chk.pid, chk.tier)
    c10_rules = {}
    # run the C10-W2 part only
    summary = tf.class_write_summary(c)
    for name, fi in sorted(el.methods.items()):
        if name == '__init__' or (name.startswith('_') and not name.startswith('__')):
            continue
        evs = summary[fi.qualname]
        if not any(a in ('list', 'indexes') for a, p in evs):
            continue
        g, ev = tf.node_events(c, fi, summary)
        for pol in ('add', 'remove'):
            la = {n for n, e in ev.items() if ('list', pol) in e}
            ia = {n for n, e in ev.items() if ('indexes', pol) in e}
            for first, second, a_nodes, b_nodes in (('list', 'indexes', la, ia), ('indexes', 'list', ia, la)):
                if not a_nodes:
                    continue
                bad = tf.paired_on_all_paths(g, a_nodes, b_nodes)
                chk.ob('C09-C', '%s: %s-%s paired with %s-%s' % (fi.qualname, first, pol, second, pol), bad is None,
                       '' if bad is None else 'a normal path through `%s` changes %s without changing %s' % (
                           g.nodes[bad].label[:60], first, second),
                       '%s:%d' % (fi.module.relpath, g.nodes[bad].lineno if bad else fi.node.lineno),
                       key='C09-C|%s|%s|%s' % (fi.qualname, first, pol))

    # ---- I: replace_child
    rc = el.methods.get('replace_child')
    if rc is None:
        raise AnalysisError('ElementList.replace_child not found')
    rparams = rc.call_params()
    old_p, new_p = rparams[0], rparams[1]
    ins_calls = _calls(rc, 'insert')
    chk.floor('replace_child -> insert call sites', len(ins_calls), 1)
    from . import pat
    ins_fn = ix.func('core.ElementList.insert')
    ins_params = ins_fn.call_params()
    for call in ins_calls:
        bound = pat.call_args_by_param(call, ins_fn.node)
        ok = all(p_ in bound for p_ in ins_params[:3])
        detail = ''
        if ok:
            a_idx, a_child, a_byname = (bound[p_] for p_ in ins_params[:3])

            def derives(arg, container):
                if not isinstance(arg, ast.Name):
                    return False
                for v in _assigned(rc, arg.id):
                    t = norm(v)
                    if t.startswith(container) and t.endswith('.index(%s)' % old_p):
                        return True
                return False
            ok = derives(a_idx, 'self.list') and derives(a_byname, 'self.indexes[') and norm(a_child) == new_p
            if not ok:
                detail = '`%s`: the positions must come from self.list.index(%s) and self.indexes[...].index(%s)' % (
                    norm(call), old_p, old_p)
        else:
            detail = '`%s` does not pass list position, child and by-name position' % norm(call)
        chk.ob('C09-I', 'replace_child re-inserts at the old positions', ok, detail,
               '%s:%d' % (rc.module.relpath, call.lineno), key='C09-I|replace_child|insert')
    # the old child is removed exactly once on the positional path, before the insert
    for call in _calls(rc, 'remove'):
        ok = len(call.args) == 1 and norm(call.args[0]) == old_p
        chk.ob('C09-I', 'replace_child removes the old child', ok, '`%s`' % norm(call),
               '%s:%d' % (rc.module.relpath, call.lineno), key='C09-I|replace_child|remove|%d' % ok)

    # ---- X: deletions
    rbn = el.methods.get('remove_by_name')
    if rbn is None:
        raise AnalysisError('ElementList.remove_by_name not found')
    p = rbn.call_params()
    ok = False
    for call in _calls(rbn, 'remove'):
        if call.args and isinstance(call.args[0], ast.Name):
            for v in _assigned(rbn, call.args[0].id):
                if norm(v) == 'self.child_at_index(%s, %s)' % (p[0], p[1]):
                    ok = True
    chk.ob('C09-X', 'remove_by_name removes child_at_index(name, index)', ok,
           'the removed object is not the one addressed by (name, index)', rbn.loc, key='C09-X|remove_by_name')
    pd = ix.func('core.ElementProxy.__delitem__')
    ok = any(norm(call) == 'self.element_list.remove(self.list[%s])' % pd.call_params()[0] for call in _calls(pd, 'remove'))
    chk.ob('C09-X', 'ElementProxy.__delitem__ removes self.list[index]', ok,
           'the proxy deletes something other than its index-th element', pd.loc, key='C09-X|ElementProxy.__delitem__')
    cai = el.methods.get('child_at_index')
    fnd = cai.nested.get('_finder') if cai else None
    if fnd is None:
        raise AnalysisError('child_at_index._finder not found')
    subs = [norm(n) for n in own_nodes(fnd.node) if isinstance(n, ast.Subscript) and isinstance(n.value, ast.Subscript)]
    fp = fnd.params
    ok = 'self.indexes[%s][%s]' % (fp[0], fp[1]) in subs
    chk.ob('C09-X', 'child_at_index looks up indexes[name][index]', ok, 'found %s' % subs, fnd.loc,
           key='C09-X|child_at_index')
    rm = el.methods.get('remove')
    lst = [call for call in _calls(rm, 'remove') if norm(call.func.value) == 'self.list']
    ok = bool(lst) and all(norm(call.args[0]) == rm.call_params()[0] for call in lst)
    chk.ob('C09-X', 'remove() removes the given object from the list', ok, '', rm.loc, key='C09-X|remove')

    # ---- V / S: set()
    st = el.methods.get('set')
    if st is None:
        raise AnalysisError('ElementList.set not found')
    sp = st.call_params()
    name_p, value_p, index_p = sp[0], sp[1], sp[2]
    first = None
    for s in st.node.body:
        if isinstance(s, ast.Expr) and isinstance(s.value, ast.Constant):
            continue
        if any(isinstance(n, ast.Name) and n.id == value_p for n in ast.walk(s)):
            first = s
            break
    ok = isinstance(first, ast.If) and 'isinstance(%s, ElementProxy)' % value_p in norm(first.test) and any(
        isinstance(b, ast.Assign) and norm(b.targets[0]) == value_p and norm(b.value).endswith('.to_er7()')
        and norm(b.value).startswith(value_p + '[0]') for b in first.body)
    chk.ob('C09-V', 'set() copies an ElementProxy by value first', ok,
           'the first statement touching `%s` is `%s`' % (value_p, norm(first)[:80] if first else None), st.loc,
           key='C09-V|set')
    # child_to_remove = child_at_index(child_name, index); None -> append else replace_child(child_to_remove, child)
    ok_lookup = False
    var = None
    for n in own_nodes(st.node):
        if isinstance(n, ast.Assign) and isinstance(n.value, ast.Call) and norm(n.value.func) == 'self.child_at_index' \
                and len(n.value.args) == 2 and norm(n.value.args[1]) == index_p:
            ok_lookup = True
            var = norm(n.targets[0])
    chk.ob('C09-S', 'set() looks up the addressed repetition with its index argument', ok_lookup,
           'child_at_index is not called with the index parameter `%s`' % index_p, st.loc, key='C09-S|set|lookup')
    ok_branch = False
    why_branch = 'the append / replace_child calls on the looked-up repetition were not found'
    if var:
        from ..cfg import cfg_of, edge_implies
        g_ = cfg_of(st)
        lookup = [g_.node_for(n) for n in own_nodes(st.node) if isinstance(n, ast.Assign) and norm(n.targets[0]) == var]
        appends = [n for n in own_nodes(st.node) if isinstance(n, ast.Call) and norm(n.func) == 'self.append']
        replaces = [n for n in own_nodes(st.node) if isinstance(n, ast.Call) and norm(n.func) == 'self.replace_child' and
                    n.args and norm(n.args[0]) == var]
        ABSENT = (('%s is None' % var, 'not %s' % var), ('%s is not None' % var, var))
        PRESENT = (ABSENT[1], ABSENT[0])

        def reach_without(fact):
            def ok_edge(src, dst, lab):
                nd = g_.nodes[src]
                return not (nd.kind == 'test' and edge_implies(nd.ast, lab, fact[0], fact[1]))
            return g_.reach(lookup, labels_ok=ok_edge)
        if appends and replaces and lookup:
            r_abs, r_pre = reach_without(ABSENT), reach_without(PRESENT)
            bad_a = [n for n in appends if g_.node_for(n) in r_abs]      # append reachable although the repetition may exist
            bad_r = [n for n in replaces if g_.node_for(n) in r_pre]     # replace reachable although nothing was found
            ok_branch = not bad_a and not bad_r
            why_branch = 'append is reachable when the addressed repetition exists' if bad_a else \
                'replace_child is reachable when no repetition was found' if bad_r else ''
    chk.ob('C09-S', 'set() appends when absent and replaces in place otherwise', ok_branch,
           why_branch, st.loc, key='C09-S|set|branch')
    # ---- K: index kinds
    chk.rule('C09-K', 'a position in the child list is never passed where a position among the same-named repetitions '
                      'is expected (and vice versa)')
    BYNAME = {('core.ElementList.set', 'index'), ('core.ElementList.child_at_index', 'index'),
              ('core.ElementList.remove_by_name', 'index'), ('core.ElementList.insert', 'by_name_index'),
              ('core.ElementProxy.__setitem__', 'index'), ('core.ElementProxy.__getitem__', 'index'),
              ('core.ElementProxy.__delitem__', 'index')}
    LISTPOS = {('core.ElementList.__getitem__', 'index'), ('core.ElementList.__setitem__', 'index'),
               ('core.ElementList.__delitem__', 'index'), ('core.ElementList.insert', 'index'),
               ('core.ElementList.pop', 'index')}
    nk = 0
    for fq in sorted(cg.sites):
        fi = ix.functions[fq]
        for s_ in cg.sites[fq]:
            if s_.kind != 'call':
                continue
            for t in s_.targets:
                if t.kind != 'func':
                    continue
                b, _, _, _ = te.bind(s_.node, t)
                for p_, a in b.items():
                    kind = 'byname' if (t.func.qualname, p_) in BYNAME else ('list' if (t.func.qualname, p_) in LISTPOS else None)
                    if kind is None or not isinstance(a, ast.Name):
                        continue
                    src = 'byname' if (fq, a.id) in BYNAME else ('list' if (fq, a.id) in LISTPOS else None)
                    if src is None:
                        continue
                    nk += 1
                    ok = src == kind
                    chk.ob('C09-K', '%s passes %s to %s(%s=)' % (fq, a.id, t.func.qualname, p_), ok,
                           '' if ok else 'a %s position is used as a %s position: the wrong repetition is addressed (or none, '
                           'and the value is appended)' % ('child-list' if src == 'list' else 'by-name',
                                                          'by-name' if kind == 'byname' else 'child-list'),
                           '%s:%d' % (fi.module.relpath, s_.lineno), key='C09-K|%s|%s|%s' % (fq, t.func.qualname, p_))
    chk.floor('index hand-offs between positional APIs', nk, 3)

    # ---- N: the unindexed forms (e.name = v, del e.name, proxy.attr) address repetition 0
    chk.rule('C09-N', 'the unindexed by-name forms all address the same repetition, the first: Element.__setattr__ hands '
                      'index 0 to ElementList.set, Element.__delattr__ hands index 0 to remove_by_name (explicitly or through '
                      'the default), and ElementProxy delegates attribute access to self.list[0]')
    from .. import consteval as _ce
    nn = 0

    def effective(call, callee, pname):
        b = pat.call_args_by_param(call, callee.node)
        if pname in b:
            return b[pname]
        a = callee.node.args
        pos = [x.arg for x in a.args]
        if pname in pos:
            k = pos.index(pname) - (len(pos) - len(a.defaults))
            if k >= 0:
                return a.defaults[k]
        return None

    for caller_q, attr, callee_q, pname in (('core.Element.__setattr__', 'set', 'core.ElementList.set', 'index'),
                                            ('core.Element.__delattr__', 'remove_by_name',
                                             'core.ElementList.remove_by_name', 'index'),
                                            ('core.ElementList.__delitem__', None, None, None)):
        if attr is None:
            continue
        caller, callee = ix.func(caller_q), ix.func(callee_q)
        if caller is None or callee is None:
            raise AnalysisError('%s / %s not found' % (caller_q, callee_q))
        sites = [n for n in _calls(caller, attr) if 'children' in norm(n.func.value)]
        chk.floor('%s -> %s call sites' % (caller_q, attr), len(sites), 1)
        for call in sites:
            e = effective(call, callee, pname)
            val = pat.const_of(e)[1] if e is not None else None
            nn += 1
            ok = e is not None and val == 0 and type(val) is int
            chk.ob('C09-N', '%s addresses repetition 0 of the name' % caller_q, ok,
                   '' if ok else '`%s` reaches %s with %s = %s: `e.<name> = v` / `del e.<name>` and the reads through the proxy '
                   '(self.list[0]) no longer address the same repetition' % (
                       norm(call), callee_q, pname, norm(e) if e is not None else '<missing>'),
                   '%s:%d' % (caller.module.relpath, call.lineno), key='C09-N|%s' % caller_q)
    # the indexed forms hand their own position on: a defaulted index addresses the last repetition instead
    for caller_q, callee_q, pname in (('core.ElementList.__setitem__', 'core.ElementList.set', 'index'),
                                      ('core.ElementProxy.__setitem__', 'core.ElementList.set', 'index')):
        caller, callee = ix.func(caller_q), ix.func(callee_q)
        if caller is None or callee is None:
            raise AnalysisError('%s / %s not found' % (caller_q, callee_q))
        sites = _calls(caller, 'set')
        chk.floor('%s -> set call sites' % caller_q, len(sites), 1)
        for call in sites:
            nn += 1
            b = pat.call_args_by_param(call, callee.node)
            ok = pname in b and not pat.const_of(b[pname])[0]
            chk.ob('C09-N', '%s hands the addressed position to set()' % caller_q, ok,
                   '' if ok else '`%s` leaves `%s` to its default or a constant: the replacement addresses a fixed repetition, '
                   'not the one indexed' % (norm(call), pname), '%s:%d' % (caller.module.relpath, call.lineno),
                   key='C09-N|%s' % caller_q)
    nd_total = 0
    for m_ in ('__getattr__', '__setattr__', '__delattr__'):
        pf = ix.func('core.ElementProxy.%s' % m_)
        if pf is None:
            raise AnalysisError('ElementProxy.%s not found' % m_)
        # the method itself and the module-level helpers it hands the proxy to (extract-function refactorings)
        scopes = [pf]
        for n in own_nodes(pf.node):
            if isinstance(n, ast.Call) and isinstance(n.func, ast.Name):
                h = ix.functions.get('core.%s' % n.func.id)
                if h is not None and h not in scopes:
                    scopes.append(h)
        for sc in scopes:
            for n in own_nodes(sc.node):
                if not (isinstance(n, ast.Subscript) and isinstance(n.value, ast.Attribute) and
                        n.value.attr in ('list', 'traversal_list') and isinstance(n.ctx, ast.Load) and
                        pat.const_of(n.slice)[0]):
                    continue
                nn += 1
                nd_total += 1
                ok = pat.const_of(n.slice) == (True, 0)
                chk.ob('C09-N', 'ElementProxy.%s delegates to the first repetition' % m_, ok,
                       '' if ok else '`%s` is not the first repetition' % norm(n), '%s:%d' % (sc.module.relpath, n.lineno),
                       key='C09-N|ElementProxy.%s|%s|%s' % (m_, sc.name, norm(n.value)))
    chk.floor('ElementProxy attribute delegations (first repetition)', nd_total, 3)
    chk.floor('by-name forms examined (C09-N)', nn, 7)

    from . import codelemmas
    codelemmas.open_ended(chk, c, 'C09-Z')

    chk.rule('C09-G', 'the `value` getters return the element\'s text on every path (copy by value reads it)')
    codelemmas.producers_return(chk, c, 'C09-G', which='getters')
    chk.rule('C09-E', 'an element is attached really or for traversal, never both: storing a real parent clears '
                      'traversal_parent before the element is handed on (remove / replace_child choose the list to edit by '
                      'testing child.traversal_parent)')
    tf.exclusive_parents(chk, c, 'C09-E')

    chk.assume('collections.abc.MutableSequence mixins (pop, extend, clear, reverse, __iadd__) are written in terms of '
               '__getitem__/__setitem__/__delitem__/insert/__len__ (axiom table in callgraph.py)')

    chk.rule('C09-A', 'every argument of the element-tree API is used (an index, a position or a value that is accepted and ignored addresses the wrong child)')
    from . import forwarding as _fw
    nd_ = _fw.dead_params(chk, c, 'C09-A', lambda fi: fi.module.name == 'core')
    chk.floor('parameters examined (C09-A)', nd_, 150)

    chk.rule('C09-D', 'decision structure of the functions this property is anchored in: every effect statement (store, call, return, '
                   'raise) runs under the same combinations of the function\'s elementary tests as in the reviewed tree, and none '
                   'was deleted (reference/decisions.json; compared by meaning, rewritten functions are not compared)')
    from . import guardrules as _gr
    nd2_ = _gr.check_decisions(chk, c, 'C09-D', lambda fq_: fq_.startswith(('core.ElementList.', 'core.ElementProxy.')))
    chk.floor('functions compared with the decision reference (C09-D)', nd2_, 1)
