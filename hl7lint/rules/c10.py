"""C10 -- the element tree stays internally consistent through any API history."""
import ast

from .. import ctx as ctxmod
from ..cfg import cfg_of, ENTRY, EXIT
from ..src import own_nodes, norm
from ..report import AnalysisError
from . import treefacts as tf

PARENT_WRITERS = {
    'core.Element._set_parent': 'property setter of parent',
    'core.Element._set_traversal_parent': 'property setter of traversal_parent',
    'core.SubComponent.__init__': 'initialiser (sets the raw slots before CanBeVaries.__init__ runs)',
}
SHADOW_READERS = {
    'core.ElementList.__init__': 'creates the shadow index',
    'core.ElementList.append': 'shadow mode of append',
    'core.ElementList._remove_from_traversal_index': 'maintenance of the shadow index',
    'core.ElementList._default_child_lookup': 'returns the proxy for a name present in either index (creates nothing)',
    'core.ElementList.child_at_index._finder': 'lookup used by set/remove_by_name',
    'core.ElementProxy.traversal_list': 'accessor used by the lazy-creation code of the proxy',
}
TRAVERSAL_LIST_USERS = {
    'core.ElementProxy.__getattr__': 'lazy creation on read (shadow channel)',
    'core.ElementProxy.__setattr__': 'lazy creation on write',
}


def run(chk):
    c = ctxmod.get()
    fx, cg, ix, te = c.fx, c.cg, c.index, c.te
    chk.rule('C10-W1', 'list / indexes / traversal_indexes / proxies are written only inside ElementList; '
                       '_parent / _traversal_parent only by their setters (and the SubComponent initialiser)')
    chk.rule('C10-W2', 'every ElementList method that adds to (removes from) the child list also adds to (removes from) '
                       'the by-name index on every normal path, and vice versa')
    chk.rule('C10-R', 'storing a non-None parent releases the element from its previous parent first')
    chk.rule('C10-L', 'the shadow (traversal) index is read only by lookup/creation code, never by len/iter/contains/'
                      'encoders/validator')
    chk.rule('C10-V', 'every insertion into list/indexes is dominated by the admission check, which compares version and '
                      'validation level of parent and child before returning True')

    # ---- W1
    n = 0
    for w in fx.writers_of(lambda l: tf.field_of(l) is not None and tf.field_of(l)[0] == tf.EL and
                           tf.field_of(l)[1] in tf.TREE_FIELDS):
        n += 1
        owner = w.fn.cls or (w.fn.outer.cls if w.fn.outer else None)
        ok = owner is not None and owner.qualname == tf.EL
        f = tf.field_of(w.loc)
        chk.ob('C10-W1', '%s writes ElementList.%s' % (w.fn.qualname, f[1]), ok,
               '' if ok else '`%s` changes the child storage from outside ElementList: list and indexes can no '
               'longer be kept in step' % w.text, w.where(), key='C10-W1|%s|%s' % (w.fn.qualname, f[1]))
    chk.floor('write sites of ElementList storage', n, 15)
    n = 0
    for w in fx.writers_of(lambda l: l[0] == 'field' and l[1] == tf.ELEM and l[2] in ('_parent', '_traversal_parent')):
        n += 1
        ok = w.fn.qualname in PARENT_WRITERS
        chk.ob('C10-W1', '%s writes Element.%s' % (w.fn.qualname, w.loc[2]), ok,
               '' if ok else '`%s` sets the parent pointer without going through the parent setter (which attaches '
               'the element to that parent)' % w.text, w.where(), key='C10-W1|%s|%s' % (w.fn.qualname, w.loc[2]))
    chk.floor('write sites of parent pointers', n, 3)

    # private storage helpers of ElementList are called only from ElementList
    for name, fi in sorted(ix.cls(tf.EL).methods.items()):
        if name.startswith('_') and not name.startswith('__') and any(
                tf.field_of(w.loc) for w in fx.writes.get(fi.qualname, ())):
            for caller in sorted(cg.callers.get(fi.qualname, ())):
                cf = ix.functions[caller]
                owner = cf.cls or (cf.outer.cls if cf.outer else None)
                ok = owner is not None and owner.qualname == tf.EL
                chk.ob('C10-W1', '%s calls ElementList.%s' % (caller, name), ok,
                       '' if ok else 'storage helper of ElementList (touches one of list/indexes only) called from outside',
                       cf.loc, key='C10-W1|%s|calls %s' % (caller, name))

    # ---- W2 co-update
    summary = tf.class_write_summary(c)
    el = ix.cls(tf.EL)
    nmeth = 0
    for name, fi in sorted(el.methods.items()):
        if name == '__init__' or (name.startswith('_') and not name.startswith('__')):
            continue      # private helpers update one structure by design; their callers are checked
        evs = summary[fi.qualname]
        if not any(a in ('list', 'indexes') for a, p in evs):
            continue
        nmeth += 1
        g, ev = tf.node_events(c, fi, summary)
        for pol in ('add', 'remove'):
            la = {n for n, e in ev.items() if ('list', pol) in e}
            ia = {n for n, e in ev.items() if ('indexes', pol) in e}
            for first, second, a_nodes, b_nodes in (('list', 'indexes', la, ia), ('indexes', 'list', ia, la)):
                if not a_nodes:
                    continue
                bad = tf.paired_on_all_paths(g, a_nodes, b_nodes)
                construct = '%s: %s-%s paired with %s-%s' % (fi.qualname, first, pol, second, pol)
                chk.ob('C10-W2', construct, bad is None,
                       '' if bad is None else 'a normal path through `%s` changes %s without changing %s: lookups by '
                       'name and by position disagree afterwards' % (g.nodes[bad].label[:60], first, second),
                       '%s:%d' % (fi.module.relpath, g.nodes[bad].lineno if bad else fi.node.lineno),
                       key='C10-W2|%s|%s|%s' % (fi.qualname, first, pol))
    chk.floor('ElementList methods that change list/indexes', nmeth, 5)

    # ---- R re-parenting
    for w in fx.writers_of(lambda l: l == ('field', tf.ELEM, '_parent')):
        if w.fn.qualname not in ('core.Element._set_parent',):
            continue
        par = getattr(w.node, '_parent', None)
        if isinstance(par, ast.Assign) and isinstance(par.value, ast.Constant) and par.value.value is None:
            continue
        g = cfg_of(w.fn)
        wn = g.node_for(w.node)
        release = []
        for s in cg.sites[w.fn.qualname]:
            if any(t.kind == 'func' and t.func.qualname.startswith(tf.EL + '.') and
                   t.func.name in ('remove', 'remove_by_name', '__delitem__', 'pop') for t in s.targets):
                nid = g.node_for(s.node)
                if nid and (wn in g.reach(nid) or nid == wn):
                    release.append(nid)
        chk.ob('C10-R', '%s releases the previous parent' % w.fn.qualname, bool(release),
               '`%s` overwrites the parent pointer and attaches to the new parent, but the previous parent keeps the '
               'element in its list and indexes (listed by two parents)' % w.text, w.where(), key='C10-R|%s' % w.fn.qualname)

    # ---- L shadow index readers
    nread = 0
    lazy = tf.lazy_creators(c)      # functions whose every creation goes to the shadow channel, wherever they live
    for fn in te.funcs:
        for n in own_nodes(fn.node):
            if isinstance(n, ast.Attribute) and n.attr == 'traversal_indexes':
                nread += 1
                ok = fn.qualname in SHADOW_READERS
                chk.ob('C10-L', '%s reads traversal_indexes' % fn.qualname, ok,
                       '' if ok else 'the shadow index (children that only exist because somebody navigated to them) '
                       'is consulted outside the lookup/creation code', '%s:%d' % (fn.module.relpath, n.lineno),
                       key='C10-L|%s|traversal_indexes' % fn.qualname)
            if isinstance(n, ast.Attribute) and n.attr == 'traversal_list':
                ok = fn.qualname in TRAVERSAL_LIST_USERS or fn.qualname in lazy
                chk.ob('C10-L', '%s reads traversal_list' % fn.qualname, ok,
                       '' if ok else 'ElementProxy.traversal_list used outside the lazy-creation code',
                       '%s:%d' % (fn.module.relpath, n.lineno), key='C10-L|%s|traversal_list' % fn.qualname)
    chk.floor('readers of the shadow index', nread, 6)
    # the lookup views read list/indexes only
    views = ['core.ElementList.__len__', 'core.ElementList.__getitem__', 'core.ElementProxy.list',
             'core.ElementProxy.__len__', 'core.ElementProxy.__getitem__', 'core.ElementProxy.__iter__',
             'core.ElementList.get_children', 'core.ElementList.get_ordered_children']
    for fq in views:
        fi = ix.func(fq)
        reads = {n.attr for n in own_nodes(fi.node) if isinstance(n, ast.Attribute) and isinstance(n.value, ast.Name)
                 and n.value.id == 'self' and isinstance(n.ctx, ast.Load)}
        reads |= {n.attr for n in own_nodes(fi.node) if isinstance(n, ast.Attribute) and
                  norm(n.value) == 'self.element_list'}
        stores = reads & {'list', 'indexes', 'element_list', 'element_name', 'element', 'traversal_indexes',
                          'traversal_list', 'proxies'}
        ok = stores <= {'list', 'indexes', 'element_list', 'element_name', 'element'}
        chk.ob('C10-L', '%s reads only list/indexes' % fq, ok, 'reads %s' % sorted(stores), fi.loc,
               key='C10-L|%s|view' % fq)

    # ---- O order agreement between list and by-name index on positional replacement
    # ---- V: an element found through a proxy of another tree is copied, never attached
    chk.rule('C10-V', 'ElementList.set never attaches the element object it finds in an ElementProxy (the result of a by-name look-up '
                      'in some tree): it copies it by value through its ER7 text, so no element is listed by two parents')
    el_ = ix.cls('core.ElementList')
    st_ = el_.methods.get('set') if el_ is not None else None
    if st_ is None:
        raise AnalysisError('ElementList.set not found')
    vp_ = st_.call_params()[1]
    # every subscript of the proxy value is consumed by `.to_er7()`; the proxy value itself is re-bound to that text
    subs_ = [n for n in own_nodes(st_.node) if isinstance(n, ast.Subscript) and isinstance(n.ctx, ast.Load) and norm(n.value) == vp_]
    proxy_tests_ = [n for n in own_nodes(st_.node) if isinstance(n, ast.Call) and norm(n.func) == 'isinstance' and len(n.args) == 2 and
                    norm(n.args[0]) == vp_ and 'ElementProxy' in norm(n.args[1])]
    if not proxy_tests_:
        raise AnalysisError('ElementList.set no longer tests its value for ElementProxy')
    leaks_ = []
    for n in subs_:
        par_ = getattr(n, '_parent', None)
        ok_ = isinstance(par_, ast.Attribute) and par_.attr == 'to_er7' and isinstance(getattr(par_, '_parent', None), ast.Call)
        # reading an attribute of the found element for a comparison (version, name) does not attach it
        cmp_ = isinstance(par_, ast.Attribute) and isinstance(getattr(par_, '_parent', None), ast.Compare)
        if not (ok_ or cmp_):
            leaks_.append(n)
    chk.ob('C10-V', 'set() uses the element found in a proxy only through .to_er7()', bool(subs_) and not leaks_,
           '`%s` hands the element object itself on: it is then attached to this element while the tree it was found in still lists '
           'it (one object, two parents; its parent pointer names only one of them)' % (norm(getattr(leaks_[0], '_parent', leaks_[0]))[:60] if leaks_ else
                                                                                      'no use of %s[..]' % vp_),
           '%s:%d' % (st_.module.relpath, (leaks_[0] if leaks_ else st_.node).lineno), key='C10-V|set')

    chk.rule('C10-P', 'the parent / traversal_parent of an element are assigned only where it is attached or promoted (constructor, '
                      '_can_add_child, set_parent_to_traversal, the two setters): any other code that re-points or clears them makes '
                      'an element that is still listed elsewhere disown its parent')
    PARENT_ASSIGNERS = {
        'core.Element.__init__': 'the element attaches itself to the parent it was constructed with',
        'core.Element._set_parent': 'setter: clears the traversal link when a real parent is stored',
        'core.Element.set_parent_to_traversal': 'promotion of a lazily created element',
        'core.ElementList._can_add_child': 'admission: the child adopts the element it is being added to',
    }
    npa = 0
    for fq_, sites_ in sorted(cg.sites.items()):
        for s_ in sites_:
            if s_.kind == 'setprop' and s_.args.get('name') in ('parent', 'traversal_parent'):
                npa += 1
                ok_ = fq_ in PARENT_ASSIGNERS
                chk.ob('C10-P', '%s assigns .%s' % (fq_, s_.args.get('name')), ok_,
                       '' if ok_ else '`%s = ...` outside the attach / promote code: the back-pointer of an element can now disagree '
                       'with the element that lists it' % s_.label[:40], '%s:%d' % (ix.functions[fq_].module.relpath, s_.lineno),
                       key='C10-P|%s|%s' % (fq_, s_.args.get('name')))
    chk.floor('assignments of parent / traversal_parent', npa, 6)
    chk.rule('C10-X', 'parent and traversal_parent are mutually exclusive: storing a real parent clears traversal_parent')
    tf.exclusive_parents(chk, c, 'C10-X')
    chk.rule('C10-O', 'a positional replacement inserts the new child at the old child\'s position in the list AND at the old '
                      'child\'s position in indexes[name], so that lookup by name and by position keep the same relative order')
    rc = ix.func('core.ElementList.replace_child')
    old_p, new_p = rc.call_params()[0], rc.call_params()[1]
    ins_calls = [n for n in own_nodes(rc.node) if isinstance(n, ast.Call) and norm(n.func) == 'self.insert']
    chk.floor('replace_child -> insert call sites', len(ins_calls), 1)

    def assigned(var):
        return [norm(n.value) for n in own_nodes(rc.node) if isinstance(n, ast.Assign) and norm(n.targets[0]) == var]
    from . import pat
    ins = ix.func('core.ElementList.insert')
    ip = ins.call_params()
    for call in ins_calls:
        bound = pat.call_args_by_param(call, ins.node)
        a0, a1, a2 = (bound.get(p_) for p_ in ip[:3])
        ok = isinstance(a0, ast.Name) and isinstance(a2, ast.Name) and a1 is not None and \
            any(t == 'self.list.index(%s)' % old_p for t in assigned(a0.id)) and \
            any(t.startswith('self.indexes[') and t.endswith('.index(%s)' % old_p) for t in assigned(a2.id)) and \
            norm(a1) == new_p
        chk.ob('C10-O', 'replace_child keeps list order and by-name order in step', ok,
               '`%s`: the new child does not get the old child\'s position in both structures' % norm(call),
               '%s:%d' % (rc.module.relpath, call.lineno), key='C10-O|replace_child')
    # inside insert(): the positional insert into the by-name index uses by_name_index, the one into the list uses index
    idx_ins = lst_ins = False
    for w in fx.writes.get(ins.qualname, ()):
        if w.how == 'mutate:insert' and isinstance(w.node, ast.Call) and w.node.args:
            for f_ in tf.fields_of(fx, w.loc):
                if f_ == (tf.EL, 'indexes') and norm(w.node.args[0]) == ip[2]:
                    idx_ins = True
                if f_ == (tf.EL, 'list') and norm(w.node.args[0]) == ip[0]:
                    lst_ins = True
    ok = idx_ins and lst_ins
    chk.ob('C10-O', 'insert() uses its list position for the list and its by-name position for the index', ok, '', ins.loc,
           key='C10-O|insert')

    # ---- V admission dominance
    admission(chk, c, 'C10-V')

    # ---- Y: the proxy is a live view
    chk.rule('C10-Y', 'ElementProxy is a live view of its ElementList: `list` and `traversal_list` are looked up in '
                      'element_list.indexes / traversal_indexes at every access, and no method of the proxy keeps a copy of such a '
                      'look-up in the proxy (ElementList may replace or drop the list it files under a name)')
    import ast as _ast
    from ..src import own_nodes as _own, norm as _norm
    px = ix.cls('core.ElementProxy')
    if px is None:
        raise AnalysisError('ElementProxy not found')
    ny = 0
    MAPS = ('indexes', 'traversal_indexes')

    def _reads_map(e):
        return any(isinstance(x, _ast.Attribute) and x.attr in MAPS for x in _ast.walk(e))
    for pname in ('list', 'traversal_list'):
        getter = px.properties.get(pname, (None, None))[0]
        if getter is None:
            raise AnalysisError('ElementProxy.%s is no longer a property' % pname)
        for r in [x for x in _own(getter.node) if isinstance(x, _ast.Return)]:
            ny += 1
            v = r.value
            # a local variable is followed to its assignments
            srcs = [v]
            if isinstance(v, _ast.Name):
                srcs = [a.value for a in _own(getter.node) if isinstance(a, _ast.Assign) and
                        any(isinstance(t, _ast.Name) and t.id == v.id for t in a.targets)] or [v]
            ok = v is not None and all(_reads_map(e) or (isinstance(e, (_ast.List, _ast.Tuple)) and not e.elts) for e in srcs)
            chk.ob('C10-Y', 'ElementProxy.%s returns a fresh look-up' % pname, ok,
                   '' if ok else '`%s` does not read element_list.%s: by-name access, len, `in` and indexing through the proxy can '
                   'disagree with the children the list holds' % (_norm(r), ' / '.join(MAPS)),
                   '%s:%d' % (getter.module.relpath, r.lineno), key='C10-Y|%s|return' % pname)
    for mname, fi in sorted(px.methods.items()):
        for n in _own(fi.node):
            if isinstance(n, _ast.Assign) and any(isinstance(t, _ast.Attribute) and _norm(t.value) == 'self' for t in n.targets) \
                    and _reads_map(n.value):
                ny += 1
                chk.fail('C10-Y', '%s keeps a by-name look-up in the proxy' % fi.qualname,
                         '`%s`: the stored list goes stale when ElementList re-files or drops the entry' % _norm(n)[:90],
                         '%s:%d' % (fi.module.relpath, n.lineno), key='C10-Y|%s|store' % fi.qualname)
    chk.floor('proxy look-ups examined (C10-Y)', ny, 2)

    chk.rule('C10-D', 'decision structure of the functions this property is anchored in: every effect statement (store, call, return, '
                   'raise) runs under the same combinations of the function\'s elementary tests as in the reviewed tree, and none '
                   'was deleted (reference/decisions.json; compared by meaning, rewritten functions are not compared)')
    from . import guardrules as _gr
    nd2_ = _gr.check_decisions(chk, c, 'C10-D', lambda fq_: fq_.startswith(('core.Element.',)))
    chk.floor('functions compared with the decision reference (C10-D)', nd2_, 1)



def admission(chk, c, rule):
    """shared with C05-D"""
    ix, cg = c.index, c.cg
    summary = tf.class_write_summary(c)
    el = ix.cls(tf.EL)
    nsites = 0
    for name in ('insert', 'append'):
        fi = el.methods.get(name)
        if fi is None:
            raise AnalysisError('ElementList.%s not found' % name)
        g, ev = tf.node_events(c, fi, {})
        dom = g.dominators()
        gate = [nid for nid, nd in g.nodes.items() if nd.kind == 'test' and '_can_add_child(' in nd.label]
        for nid, e in sorted(ev.items()):
            if not any(a in ('list', 'indexes') and p == 'add' for a, p in e):
                continue
            nsites += 1
            ok = False
            for t in gate:
                # dominated through the true edge: the node is not reachable from the gate's false successors alone
                if t in dom[nid]:
                    false_succ = [d for d, lab in g.succ[t] if lab == 'false']
                    reach_false = set()
                    for d in false_succ:
                        reach_false |= {d} | g.reach(d)
                    if nid not in reach_false:
                        ok = True
            chk.ob(rule, '%s: `%s` is guarded by _can_add_child' % (fi.qualname, g.nodes[nid].label[:40]), ok,
                   'a child can be put into list/indexes without passing the admission check (class, name, '
                   'cardinality, level and version tests)', '%s:%d' % (fi.module.relpath, g.nodes[nid].lineno),
                   key='%s|%s|%s' % (rule, fi.qualname, g.nodes[nid].label[:40]))
    chk.floor('guarded insertion statements', nsites, 5)
    can = el.methods.get('_can_add_child')
    if can is None:
        raise AnalysisError('ElementList._can_add_child not found')
    g = cfg_of(can)
    dom = g.dominators()
    rets = [nid for nid, nd in g.nodes.items() if isinstance(nd.ast, ast.Return) and
            isinstance(nd.ast.value, ast.Constant) and nd.ast.value.value is True]
    if not rets:
        raise AnalysisError('_can_add_child has no `return True`')
    for attr, what in (('validation_level', 'validation level'), ('version', 'HL7 version')):
        tests = []
        for nid, nd in g.nodes.items():
            if nd.kind == 'test' and isinstance(nd.ast, ast.Compare) and len(nd.ast.ops) == 1 and \
                    isinstance(nd.ast.ops[0], (ast.NotEq, ast.Eq)):
                sides = [nd.ast.left, nd.ast.comparators[0]]
                if all(isinstance(x, ast.Attribute) and x.attr == attr for x in sides) and \
                        norm(sides[0].value) != norm(sides[1].value):
                    tests.append(nid)
        ok = bool(tests) and all(any(t in dom[r] for t in tests) for r in rets)
        # the failing outcome of the comparison must raise
        raising = False
        for t in tests:
            lab = 'true' if isinstance(g.nodes[t].ast.ops[0], ast.NotEq) else 'false'
            for d, l in g.succ[t]:
                if l == lab and isinstance(g.nodes[d].ast, ast.Raise):
                    raising = True
        chk.ob(rule, '_can_add_child compares the %s of parent and child' % what, ok and raising,
               'a child with a different %s can be attached (no comparison dominating `return True`, or it does not '
               'raise)' % what, can.loc, key='%s|_can_add_child|%s' % (rule, attr))
    # class / name validity: _is_valid_child must dominate
    valid = [nid for nid, nd in g.nodes.items() if nd.kind == 'test' and '_is_valid_child(' in nd.label]
    ok = bool(valid) and all(any(t in dom[r] for t in valid) for r in rets)
    chk.ob(rule, '_can_add_child asks the parent whether the child is valid', ok,
           '`return True` is reachable without the _is_valid_child test', can.loc, key='%s|_can_add_child|valid' % rule)
