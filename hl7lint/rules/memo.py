"""Memo tables: the key of a module-level cache covers every input its value is computed from.

A store `G[K] = V` where G is a module-level dictionary is a memo entry: later calls with an equal K get V back without
computing it.  That is behaviour-preserving only when V is a function of K, i.e. when every input of the function that V's
computation reads is also read by K's computation.  An input that V reads and K does not is the defect "cache keyed on too
little" (the first caller decides the answer of every later caller whose K is equal): results then depend on the history of
the process, which breaks round trips (C01), the validator's verdicts (C04), STRICT acceptance (C05), the independence from
earlier calls (C17) and from other threads (C19).

Inputs are tracked as atoms:  p (a parameter or closure variable, whole) / p.attr / p['CONST'] (also p.get('CONST')).
A value atom is covered by the same atom in the key or by a wider one (p covers p.attr and p['c']).  `frozenset(p)`,
`tuple(p)`, `sorted(p)`, `set(p)`, `list(p)`, `len(p)` of a parameter that the function also uses as a mapping
(.copy/.items/.values/.get/subscript) read its keys only and cover nothing else of p.  Calls to functions of the package are
followed (two levels; every implementation of a method name, so the per-version overrides are included): the atoms the
callee reads of its parameters are translated to the caller's arguments.  Anything unresolved counts as reading the argument
whole (which can only add requirements on the key for values, and coverage for keys: keys are therefore NOT followed through
unresolved calls - an opaque call in a key covers nothing).
"""
import ast

from ..src import own_nodes, norm

PROJ = ('frozenset', 'tuple', 'sorted', 'set', 'list', 'len')
MAPPING_USE = ('copy', 'items', 'values', 'get', 'keys', 'update')
PURE_BUILTINS = ('frozenset', 'tuple', 'sorted', 'set', 'list', 'len', 'dict', 'str', 'int', 'bool', 'repr', 'id', 'type',
                 'isinstance', 'getattr', 'zip', 'enumerate', 'map', 'filter', 'min', 'max', 'sum', 'any', 'all', 'range')


def module_dicts(mod):
    out = set()
    for st in mod.tree.body:
        if isinstance(st, ast.Assign) and len(st.targets) == 1 and isinstance(st.targets[0], ast.Name):
            v = st.value
            if isinstance(v, ast.Dict) or (isinstance(v, ast.Call) and norm(v.func) in ('dict', 'OrderedDict',
                                                                                      'collections.OrderedDict')):
                out.add(st.targets[0].id)
    return out


class Atoms(object):
    def __init__(self, ix, fi):
        self.ix = ix
        self.fi = fi
        # variables bound outside the function body's own assignments: parameters and closure variables
        self.inputs = set(fi.params) | set(fi.kwonly)
        o = fi.outer
        while o is not None:
            self.inputs |= set(o.params)
            for n in own_nodes(o.node):
                if isinstance(n, ast.Name) and isinstance(n.ctx, ast.Store):
                    self.inputs.add(n.id)
            o = o.outer
        self.local_defs = {}
        for n in own_nodes(fi.node):
            if isinstance(n, ast.Assign):
                for t in n.targets:
                    for x in ast.walk(t):
                        if isinstance(x, ast.Name) and isinstance(x.ctx, ast.Store):
                            self.local_defs.setdefault(x.id, []).append(n.value)
            elif isinstance(n, (ast.For, ast.comprehension)):
                for x in ast.walk(n.target):
                    if isinstance(x, ast.Name):
                        self.local_defs.setdefault(x.id, []).append(n.iter)
        self.mapping_params = set()
        for n in own_nodes(fi.node):
            if isinstance(n, ast.Attribute) and isinstance(n.value, ast.Name) and n.attr in MAPPING_USE:
                self.mapping_params.add(n.value.id)
            if isinstance(n, ast.Subscript) and isinstance(n.value, ast.Name) and isinstance(n.slice, ast.Constant) and \
                    isinstance(n.slice.value, str):
                self.mapping_params.add(n.value.id)

    # -- resolution of callees
    def callees(self, call):
        f = call.func
        if isinstance(f, ast.Name):
            cands = [x for q, x in self.ix.functions.items() if x.name == f.id and x.cls is None and
                     (x.module is self.fi.module or f.id in self.fi.module.imports)]
            return cands, None
        if isinstance(f, ast.Attribute) and isinstance(f.value, ast.Name) and f.value.id in ('self', 'cls'):
            cands = [x for q, x in self.ix.functions.items() if x.name == f.attr and x.cls is not None]
            return cands, f.value.id
        return [], None

    def atoms(self, e, key_side, depth=0, seen=None):
        """set of atoms `e` reads"""
        seen = seen or set()
        out = set()
        if e is None:
            return out
        if isinstance(e, ast.Constant):
            return out
        if isinstance(e, ast.Name):
            if e.id in self.local_defs and e.id not in seen and depth < 6:
                for v in self.local_defs[e.id]:
                    out |= self.atoms(v, key_side, depth + 1, seen | {e.id})
                if e.id in self.inputs and e.id in self.fi.params:
                    out.add(e.id)
                return out
            if e.id in self.inputs:
                out.add(e.id)
            return out
        if isinstance(e, ast.Attribute):
            if isinstance(e.value, ast.Name) and e.value.id in self.inputs and e.value.id not in self.local_defs:
                out.add('%s.%s' % (e.value.id, e.attr))
                return out
            return self.atoms(e.value, key_side, depth, seen)
        if isinstance(e, ast.Subscript):
            if isinstance(e.value, ast.Name) and e.value.id in self.inputs and e.value.id not in self.local_defs and \
                    isinstance(e.slice, ast.Constant):
                out.add('%s[%r]' % (e.value.id, e.slice.value))
                return out
            return self.atoms(e.value, key_side, depth, seen) | self.atoms(e.slice, key_side, depth, seen)
        if isinstance(e, ast.Call):
            f = e.func
            # p.get('CONST'[, default])
            if isinstance(f, ast.Attribute) and f.attr == 'get' and isinstance(f.value, ast.Name) and \
                    f.value.id in self.inputs and f.value.id not in self.local_defs and e.args and \
                    isinstance(e.args[0], ast.Constant):
                out.add('%s[%r]' % (f.value.id, e.args[0].value))
                for a in e.args[1:]:
                    out |= self.atoms(a, key_side, depth, seen)
                return out
            # projections of a mapping parameter
            if isinstance(f, ast.Name) and f.id in PROJ and len(e.args) == 1 and isinstance(e.args[0], ast.Name) and \
                    e.args[0].id in self.mapping_params and e.args[0].id in self.inputs and e.args[0].id not in self.local_defs:
                out.add('keys(%s)' % e.args[0].id)
                return out
            args = list(e.args) + [k.value for k in e.keywords]
            cands, recv = self.callees(e)
            if cands and depth < 2:
                for cal in cands:
                    sub = Atoms(self.ix, cal)
                    params = [p for p in cal.params if p not in ('self', 'cls')] if recv else list(cal.params)
                    bind = {}
                    for i, a in enumerate(e.args):
                        if i < len(params):
                            bind[params[i]] = a
                    for k in e.keywords:
                        if k.arg:
                            bind[k.arg] = k.value
                    read = set()
                    for n in own_nodes(cal.node):
                        if isinstance(n, ast.stmt):
                            for ch in ast.iter_child_nodes(n):
                                if isinstance(ch, ast.expr) and not (isinstance(ch, ast.Name) and
                                                                     isinstance(ch.ctx, ast.Store)):
                                    read |= sub.atoms(ch, False, depth + 4, set())
                    for a_ in read:
                        base = a_.split('.')[0].split('[')[0]
                        if a_.startswith('keys('):
                            base = a_[5:-1]
                        if base in ('self', 'cls'):
                            if recv:
                                out.add('%s.__class__' % recv if a_ in ('self', 'cls', 'self.__class__') else
                                        a_.replace(base, recv, 1))
                            continue
                        if base in bind:
                            arg = bind[base]
                            rest = a_[len(base):] if not a_.startswith('keys(') else None
                            if isinstance(arg, ast.Name) and arg.id in self.inputs and arg.id not in self.local_defs:
                                out.add('keys(%s)' % arg.id if rest is None else arg.id + rest)
                            else:
                                out |= self.atoms(arg, key_side, depth + 1, seen)
                if recv:
                    out.add('%s.__class__' % recv)
                return out
            if key_side and not (isinstance(f, ast.Name) and f.id in PURE_BUILTINS):
                # an opaque call in a key: what it reads of its arguments is unknown -> covers nothing
                return out
            for a in args:
                out |= self.atoms(a, key_side, depth, seen)
            if isinstance(f, ast.Attribute):
                out |= self.atoms(f.value, key_side, depth, seen)
            return out
        if isinstance(e, (ast.GeneratorExp, ast.ListComp, ast.SetComp, ast.DictComp)):
            for g in e.generators:
                out |= self.atoms(g.iter, key_side, depth, seen)
                for c in g.ifs:
                    out |= self.atoms(c, key_side, depth, seen)
            bound = {x.id for g in e.generators for x in ast.walk(g.target) if isinstance(x, ast.Name)}
            elts = [e.key, e.value] if isinstance(e, ast.DictComp) else [e.elt]
            for el in elts:
                out |= {a for a in self.atoms(el, key_side, depth, seen)
                        if a.split('.')[0].split('[')[0] not in bound}
            return out
        if isinstance(e, ast.Lambda):
            return out
        for ch in ast.iter_child_nodes(e):
            if isinstance(ch, ast.expr):
                out |= self.atoms(ch, key_side, depth, seen)
        return out


def covered(atom, key_atoms):
    if atom in key_atoms:
        return True
    if atom.startswith('keys('):
        return atom[5:-1] in key_atoms
    base = atom.split('.')[0].split('[')[0]
    if base in key_atoms and base != atom:
        return True
    if atom in ('self', 'cls'):
        return False
    return False


def memo_sites(ix, module_pred=None):
    """[(FuncInfo, store node, table name, key expr, value expr)]"""
    out = []
    for q, fi in sorted(ix.functions.items()):
        if module_pred and not module_pred(fi):
            continue
        tables = module_dicts(fi.module)
        if not tables:
            continue
        shadow = set(fi.params)
        for n in own_nodes(fi.node):
            if isinstance(n, ast.Assign):
                for t in n.targets:
                    if isinstance(t, ast.Subscript) and isinstance(t.value, ast.Name) and t.value.id in tables and \
                            t.value.id not in shadow:
                        out.append((fi, n, t.value.id, t.slice, n.value))
    return out


def check(chk, c, rule, module_pred=None):
    """one obligation per memo store; returns the number of stores examined"""
    ix = c.index
    n = 0
    for fi, st, table, key, value in memo_sites(ix, module_pred):
        at = Atoms(ix, fi)
        ka = at.atoms(key, True)
        va = at.atoms(value, False)
        # a receiver: its class stands for everything a method reads through self unless attributes are named
        missing = sorted(a for a in va if not covered(a, ka) and a not in ('self', 'cls'))
        n += 1
        ok = not missing
        chk.ob(rule, '%s: memo table %s' % (fi.qualname, table), ok,
               '' if ok else '`%s`: the stored value reads %s, which the key `%s` does not cover (key reads %s): the first caller '
               'decides the result for every later caller with an equal key' % (
                   norm(st)[:70], ', '.join(missing), norm(key)[:80], ', '.join(sorted(ka)) or 'nothing'),
               '%s:%d' % (fi.module.relpath, st.lineno), key='%s|%s|%s' % (rule, fi.qualname, table))
    return n


POSITIVE = '''
_T = {}
def good(d, v):
    key = (d['A'], d.get('B'), v)
    try:
        return _T[key]
    except KeyError:
        r = _T[key] = (d['A'] + d['B'], v)
        return r
def bad(d, v):
    key = (d['A'], v)
    if key not in _T:
        _T[key] = (d['A'] + d['B'], v)
    return _T[key]
def bad_keys(m):
    key = frozenset(m)
    if key not in _T:
        _T[key] = m.copy()
    return _T[key]
'''


def self_test():
    """the rule must accept `good` and report `bad` and `bad_keys` of the embedded example on every run"""
    import types
    tree = ast.parse(POSITIVE)
    mod = types.SimpleNamespace(tree=tree, name='memo_example', relpath='<memo example>', imports={})
    funcs = {}
    for st in tree.body:
        if isinstance(st, ast.FunctionDef):
            a = st.args
            funcs['memo_example.' + st.name] = types.SimpleNamespace(
                qualname='memo_example.' + st.name, name=st.name, node=st, module=mod, cls=None, outer=None,
                params=[x.arg for x in a.args], kwonly=[])
    ix = types.SimpleNamespace(functions=funcs)
    res = {}
    for fi, st, table, key, value in memo_sites(ix):
        at = Atoms(ix, fi)
        ka, va = at.atoms(key, True), at.atoms(value, False)
        res[fi.name] = sorted(a for a in va if not covered(a, ka))
    return res


def wire(chk, c, rule, module_pred=None, scope='the package'):
    """declare the rule, prove on the embedded example that it is armed, and evaluate it on the memo stores of `scope`"""
    from ..report import AnalysisError
    chk.rule(rule, 'the key of every module-level memo table in %s covers every input its stored value is computed from (inputs '
                   'followed through locals and through the package\'s own callees incl. per-version overrides; `frozenset(m)` and '
                   'the like of a mapping cover its keys only): a cache keyed on too little makes a result depend on which call '
                   'came first' % scope)
    st = self_test()
    if not (st.get('good') == [] and st.get('bad') == ["d['B']"] and st.get('bad_keys') == ['m']):
        raise AnalysisError('memo-key rule self-test failed: %r' % (st,))
    chk.ok(rule, 'embedded example: complete key accepted, missing input and keys-only key reported', '', '<memo example>',
           key='%s|selftest' % rule)
    n = check(chk, c, rule, module_pred)
    chk.count('memo stores examined (%s)' % rule, n)
    return n
