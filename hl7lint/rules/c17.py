"""C17 -- explicit arguments override process-wide defaults."""
import ast

from .. import ctx as ctxmod
from ..src import own_nodes, norm
from ..cfg import cfg_of
from . import forwarding, levels, codelemmas

CONTEXT = ('version', 'validation_level', 'encoding_chars')

# frozen exemptions: (caller, callee or '*', parameter) -> reason
EXEMPT = {}
for _f in ('date_factory', 'timestamp_factory', 'datetime_factory'):
    EXEMPT[('factories.' + _f, '*', 'validation_level')] = (
        'imprecise candidate set for datatype_cls: %s only receives the DT/TM/DTM classes, whose constructors '
        'take no validation_level' % _f)

GETTERS = {'get_default_version': 'version', 'get_default_validation_level': 'validation_level',
           'get_default_encoding_chars': 'encoding_chars'}


def none_guard(call):
    """(parameter name, kind) when the default-getter call only resolves a None argument, else None"""
    p = getattr(call, '_parent', None)
    child = call
    # X = X or get_default_*()
    if isinstance(p, ast.BoolOp) and isinstance(p.op, ast.Or) and p.values[-1] is child and isinstance(p.values[0], ast.Name):
        return p.values[0].id, 'or'
    while p is not None and not isinstance(p, (ast.FunctionDef, ast.AsyncFunctionDef)):
        if isinstance(p, ast.If) and any(child is b for b in p.body):
            t = p.test
            tests = t.values if isinstance(t, ast.BoolOp) and isinstance(t.op, ast.And) else [t]
            for x in tests:
                if isinstance(x, ast.Compare) and len(x.ops) == 1 and isinstance(x.ops[0], ast.Is) and \
                        isinstance(x.left, ast.Name) and isinstance(x.comparators[0], ast.Constant) and \
                        x.comparators[0].value is None:
                    return x.left.id, 'is None'
        child = p
        p = getattr(p, '_parent', None)
    return None


def run(chk):
    c = ctxmod.get()
    te, cg, ix, fx = c.te, c.cg, c.index, c.fx
    chk.rule('C17-F', 'every resolved call site whose callee takes version / validation_level / encoding_chars and '
                      'whose caller has that value in scope passes it on')
    chk.rule('C17-D', 'a default getter is consulted only to resolve a None argument (`if p is None:` / `p or ...`)')
    chk.rule('C17-S', 'the _DEFAULT_* module variables are written only by the set_default_* functions')
    chk.rule('C17-R', 'a validation-level test never reads a parameter that may still be the unresolved None')

    n = forwarding.check_forwarding(chk, c, 'C17-F', CONTEXT, exempt=EXEMPT, check_own=True)
    chk.count('call sites with a context parameter in scope', n)
    chk.floor('C17-F call sites', n, 300)

    chk.rule('C17-U', 'no function accepts a context parameter and then ignores it')
    forwarding.dead_context_params(chk, c, 'C17-U', CONTEXT)

    # C17-D
    nget = 0
    for fq in sorted(cg.sites):
        for s in cg.sites[fq]:
            if s.kind != 'call':
                continue
            for t in s.targets:
                if t.kind == 'func' and t.func.qualname.startswith('__init__.get_default_') and t.func.name in GETTERS:
                    nget += 1
                    g = none_guard(s.node)
                    where = '%s:%d' % (s.fn.module.relpath, s.lineno)
                    construct = '%s calls %s' % (fq, t.func.name)
                    ok = g is not None
                    chk.ob('C17-D', construct, ok,
                           '' if ok else '%s() is consulted unconditionally (not under `<arg> is None`): a later change '
                           'of the defaults alters what this code computes for existing objects / explicit arguments'
                           % t.func.name, where, key='C17-D|%s|%s' % (fq, t.func.name))
    chk.floor('default getter call sites', nget, 12)

    # C17-S
    for w in fx.writers_of(lambda l: l[0] == 'global' and l[1] == '__init__' and l[2].startswith('_DEFAULT')):
        ok = w.fn.qualname.startswith('__init__.set_default_')
        chk.ob('C17-S', '%s writes %s' % (w.fn.qualname, w.loc[2]), ok,
               '' if ok else 'process-wide default written outside its setter', w.where(),
               key='C17-S|%s|%s' % (w.fn.qualname, w.loc[2]))

    # C17-R
    raw = levels.raw_param_level_tests(c)
    tests = levels.level_test_calls(c)
    chk.count('validation-level tests', len(tests))
    chk.floor('validation-level tests', len(tests), 18)
    rawset = {id(call) for fn, call, p, path in raw}
    for fn, call, meth, arg in tests:
        where = '%s:%d' % (fn.module.relpath, call.lineno)
        ctxt = levels.enclosing_condition(call)
        construct = '%s tests %s(%s) in `%s`' % (fn.qualname, meth, norm(arg)[:30], ctxt[:70])
        if id(call) in rawset and (fn.qualname, ctxt) in levels.BENIGN_RAW:
            chk.ok('C17-R', construct, 'benign: ' + levels.BENIGN_RAW[(fn.qualname, ctxt)], where,
                   key='C17-R|%s|%s' % (fn.qualname, ctxt))
        elif id(call) in rawset:
            chk.fail('C17-R', construct,
                     'the tested value is the raw parameter, still None when the caller relies on the default: '
                     'the process-wide default level is ignored here (and an explicit level is what later code uses)',
                     where, key='C17-R|%s|%s' % (fn.qualname, ctxt))
        else:
            chk.ok('C17-R', construct, '', where, key='C17-R|%s|%s' % (fn.qualname, ctxt))
    chk.assume('call resolution by class-hierarchy analysis (unresolved: user-supplied MLLP handler classes only)')
    chk.rule('C17-H', 'explicit delimiters of a message reach lazily created descendants: the ancestor look-up follows '
                      'traversal_parent before falling back to the process-wide defaults')
    codelemmas.ancestor_lookup(chk, c, 'C17-H')
    chk.rule('C17-N', 'the resolvers of omitted arguments (_get_version, _get_validation_level, _get_encoding_chars) return the '
                      'process default, never None, when the argument is missing')
    codelemmas.producers_return(chk, c, 'C17-N')
    chk.rule('C17-K', 'the keyword dictionary an element hands to its (dynamically resolved) child parser carries the element\'s own '
                      'version, validation level and encoding characters')
    codelemmas.dynamic_parser_handoff(chk, c, 'C17-K')

    chk.rule('C17-G', 'unsupported versions / validation levels are refused under the same conditions as in the reviewed tree')
    from . import guardrules
    ng_ = guardrules.check(chk, c, 'C17-G', ['__init__.check_version', '__init__.check_validation_level'])
    chk.floor('refusal predicates compared (C17-G)', ng_, 1)
    chk.rule('C17-O', 'a parameter with default None is re-bound only where it was found to be None: an explicit argument is '
                      'never replaced by a default or by the element\'s own value')
    codelemmas.explicit_not_overwritten(chk, c, 'C17-O')

    chk.rule('C17-D2', 'decision structure of the functions this property is anchored in: every effect statement (store, call, return, '
                   'raise) runs under the same combinations of the function\'s elementary tests as in the reviewed tree, and none '
                   'was deleted (reference/decisions.json; compared by meaning, rewritten functions are not compared)')
    from . import guardrules as _gr
    nd2_ = _gr.check_decisions(chk, c, 'C17-D2', lambda fq_: fq_.startswith(('__init__.set_default_v', '__init__.get_default_v', '__init__.check_v', '__init__.load_', '__init__.find_', '__init__._discover', 'parser._get_')))
    chk.floor('functions compared with the decision reference (C17-D2)', nd2_, 1)
    from . import memo as _memo
    _memo.wire(chk, c, 'C17-M', None, 'the package')
