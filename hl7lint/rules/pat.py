"""Small semantic matchers over the canonical trees (hl7lint/canon.py), so that lemma rules do not depend on the spelling
of a test, the name of a local variable or the order of the branches."""
import ast

from ..src import own_nodes, norm


def const_of(node):
    try:
        return True, ast.literal_eval(node)
    except Exception:
        return False, None


def membership(test):
    """test is `X == c`, `c == X`, `X in (c1, c2, ..)` (tuple/list/set) or an `or` of those on the same X
    -> (norm(X), frozenset(consts)); else None"""
    if isinstance(test, ast.BoolOp) and isinstance(test.op, ast.Or):
        parts = [membership(v) for v in test.values]
        if all(p is not None for p in parts) and len({p[0] for p in parts}) == 1:
            return parts[0][0], frozenset().union(*[p[1] for p in parts])
        return None
    if not (isinstance(test, ast.Compare) and len(test.ops) == 1):
        return None
    a, op, b = test.left, test.ops[0], test.comparators[0]
    if isinstance(op, ast.Eq):
        ok, v = const_of(b)
        if ok and not isinstance(b, (ast.Tuple, ast.List, ast.Set)):
            return norm(a), frozenset([v])
        ok, v = const_of(a)
        if ok and not isinstance(a, (ast.Tuple, ast.List, ast.Set)):
            return norm(b), frozenset([v])
    if isinstance(op, ast.In) and isinstance(b, (ast.Tuple, ast.List, ast.Set)):
        vals = [const_of(e) for e in b.elts]
        if vals and all(ok for ok, _ in vals):
            return norm(a), frozenset(v for _, v in vals)
    return None


def non_membership(test):
    """`X != c`, `X not in (..)`, `not (membership)` -> (norm(X), consts)"""
    if isinstance(test, ast.UnaryOp) and isinstance(test.op, ast.Not):
        return membership(test.operand)
    if isinstance(test, ast.Compare) and len(test.ops) == 1 and isinstance(test.ops[0], (ast.NotEq, ast.NotIn)):
        pos = ast.Compare(left=test.left, ops=[ast.Eq() if isinstance(test.ops[0], ast.NotEq) else ast.In()],
                          comparators=test.comparators)
        return membership(pos)
    return None


def conjuncts(test):
    if isinstance(test, ast.BoolOp) and isinstance(test.op, ast.And):
        out = []
        for v in test.values:
            out.extend(conjuncts(v))
        return out
    return [test]


def blocks_when(fnode, pred_pos, pred_neg=None):
    """statement lists that run when the predicate holds: the body of `if <pos>:` (also as one conjunct of an `and`) and the
    else-branch of `if <neg>:`.  pred_pos / pred_neg take a test expression and return truthy when it states (the negation
    of) the fact."""
    out = []
    for n in own_nodes(fnode):
        if isinstance(n, ast.If):
            if any(pred_pos(t) for t in conjuncts(n.test)):
                out.append((n, n.body))
            elif pred_neg is not None and pred_neg(n.test) and n.orelse:
                out.append((n, n.orelse))
    return out


def is_member_test(var=None, consts=None, exact=False):
    """predicate factory: the test says `var` is one of `consts` (subset unless exact)"""
    def pred(t):
        m = membership(t)
        if m is None:
            return False
        if var is not None and m[0] != var:
            return False
        if consts is None:
            return True
        return m[1] == frozenset(consts) if exact else m[1] <= frozenset(consts) and bool(m[1])
    return pred


def is_nonmember_test(var=None, consts=None):
    def pred(t):
        m = non_membership(t)
        if m is None:
            return False
        if var is not None and m[0] != var:
            return False
        return consts is None or m[1] == frozenset(consts)
    return pred


def calls_in(stmts, name=None, attr=None):
    out = []
    for st in stmts:
        for x in ast.walk(st):
            if isinstance(x, ast.Call):
                if name is not None and isinstance(x.func, ast.Name) and x.func.id == name:
                    out.append(x)
                if attr is not None and isinstance(x.func, ast.Attribute) and x.func.attr == attr:
                    out.append(x)
    return out


def vars_assigned_from(fnode, value_texts):
    """names of locals assigned (anywhere in the function) from an expression whose normal text is in value_texts"""
    out = set()
    for n in own_nodes(fnode):
        if isinstance(n, ast.Assign) and norm(n.value) in value_texts:
            for t in n.targets:
                if isinstance(t, ast.Name):
                    out.add(t.id)
    return out


def cond_choice(expr):
    """a conditional expression -> (test, value-if-true, value-if-false) in canonical (positive) orientation"""
    if isinstance(expr, ast.IfExp):
        return expr.test, expr.body, expr.orelse
    return None


def fparts(node):
    """canonical f-string -> list of str / expr ; None for anything else"""
    if not isinstance(node, ast.JoinedStr):
        return None
    out = []
    for v in node.values:
        out.append(v.value if isinstance(v, ast.Constant) else v.value)
    return out


def fshape(node):
    """'{}_{}' style shape of a canonical f-string, expressions replaced by {}"""
    p = fparts(node)
    if p is None:
        return None
    return ''.join(x if isinstance(x, str) else '{}' for x in p)


def fargs(node):
    p = fparts(node)
    return [x for x in p if not isinstance(x, str)] if p is not None else None


def inline_locals(expr, fnode, depth=4):
    """copy of expr in which every local name that is assigned exactly once in the function (a plain `x = value` statement,
    not a loop target / augmented assignment / parameter) is replaced by its value, recursively: rules can then state what a
    value *is* without naming the temporaries it went through"""
    def clone(e):
        # a deepcopy would follow the `_parent` links and copy the whole module; round-trip through text instead
        return ast.parse(ast.unparse(e), mode='eval').body
    single = {}
    counts = {}
    params = {a.arg for a in fnode.args.args + fnode.args.kwonlyargs} if hasattr(fnode, 'args') else set()
    for n in own_nodes(fnode):
        if isinstance(n, ast.Assign):
            for t in n.targets:
                for x in ast.walk(t):
                    if isinstance(x, ast.Name):
                        counts[x.id] = counts.get(x.id, 0) + 1
                        if len(n.targets) == 1 and t is x:
                            single[x.id] = n.value
        elif isinstance(n, (ast.AugAssign, ast.For, ast.With, ast.comprehension)):
            tgt = getattr(n, 'target', None)
            if tgt is not None:
                for x in ast.walk(tgt):
                    if isinstance(x, ast.Name):
                        counts[x.id] = counts.get(x.id, 0) + 2
    ok = {k: v for k, v in single.items() if counts.get(k) == 1 and k not in params}

    class Sub(ast.NodeTransformer):
        def __init__(self, d):
            self.d = d

        def visit_Name(self, node):
            if isinstance(node.ctx, ast.Load) and node.id in ok and self.d > 0:
                return Sub(self.d - 1).visit(clone(ok[node.id]))
            return node
    return Sub(depth).visit(clone(expr))


def plus_one_of(expr):
    """`X + 1` / `1 + X` -> norm(X); else None"""
    if isinstance(expr, ast.BinOp) and isinstance(expr.op, ast.Add):
        if isinstance(expr.right, ast.Constant) and expr.right.value == 1:
            return norm(expr.left)
        if isinstance(expr.left, ast.Constant) and expr.left.value == 1:
            return norm(expr.right)
    return None


def concat_parts(e):
    """expression that concatenates sub-expressions without literal text -> [sub-expressions]; else None.
    Forms: canonical f-string (from .format / %), `a + b + c`, ''.join([a, b, c])"""
    if isinstance(e, ast.JoinedStr):
        if all(isinstance(v, ast.FormattedValue) for v in e.values) and e.values:
            return [v.value for v in e.values]
        return None
    if isinstance(e, ast.BinOp) and isinstance(e.op, ast.Add):
        l, r = concat_parts(e.left), concat_parts(e.right)
        l = l if l is not None else [e.left]
        r = r if r is not None else [e.right]
        return l + r
    if isinstance(e, ast.Call) and isinstance(e.func, ast.Attribute) and e.func.attr == 'join' and \
            isinstance(e.func.value, ast.Constant) and e.func.value.value == '' and len(e.args) == 1 and \
            isinstance(e.args[0], (ast.List, ast.Tuple)):
        return list(e.args[0].elts)
    return None


def choice_assignments(fnode):
    """`if c: x = A else: x = B` statements (the canonical form of `x = A if c else B`) -> [(test, target text, A, B)]"""
    out = []
    for n in own_nodes(fnode):
        if isinstance(n, ast.If) and len(n.body) == 1 and len(n.orelse) == 1 and isinstance(n.body[0], ast.Assign) and \
                isinstance(n.orelse[0], ast.Assign) and len(n.body[0].targets) == 1 and len(n.orelse[0].targets) == 1 and \
                norm(n.body[0].targets[0]) == norm(n.orelse[0].targets[0]):
            out.append((n.test, norm(n.body[0].targets[0]), n.body[0].value, n.orelse[0].value))
    return out


def choice_returns(fnode):
    """`if c: return A else: return B` -> [(test, A, B)]"""
    out = []
    for n in own_nodes(fnode):
        if isinstance(n, ast.If) and len(n.body) == 1 and len(n.orelse) == 1 and isinstance(n.body[0], ast.Return) and \
                isinstance(n.orelse[0], ast.Return):
            out.append((n.test, n.body[0].value, n.orelse[0].value))
    return out


def call_args_by_param(call, callee_node, skip_self=True):
    """{parameter name: argument expression} for a call of the function whose FunctionDef is callee_node
    (positional and keyword arguments alike; *args / **kwargs are ignored)"""
    params = [a.arg for a in callee_node.args.args]
    if skip_self and params and params[0] in ('self', 'cls'):
        params = params[1:]
    out = {}
    for i, a in enumerate(call.args):
        if isinstance(a, ast.Starred):
            break
        if i < len(params):
            out[params[i]] = a
    for k in call.keywords:
        if k.arg is not None:
            out[k.arg] = k.value
    return out
