"""C11 -- reading never writes; the first write materialises exactly the path read.

Decided as a chain of local lemmas (DESIGN 3/C11): reads create missing
elements only through the shadow (traversal) channel, that channel never
touches list/indexes, nothing that encodes/validates/counts reads the shadow
index, and promotion to the real tree is callable only from write entry points."""
import ast

from .. import ctx as ctxmod
from ..cfg import cfg_of, ENTRY, EXIT
from ..src import own_nodes, norm
from ..report import AnalysisError
from . import treefacts as tf
from . import forwarding

READ_ENTRIES = [
    'core.Element.__getattr__', 'core.Field.__getattr__', 'core.ElementProxy.__getattr__',
    'core.ElementProxy.__getitem__', 'core.ElementProxy.__len__', 'core.ElementProxy.__iter__',
    'core.ElementProxy.__repr__', 'core.ElementProxy.list', 'core.ElementList.get', 'core.ElementList.__getitem__',
    'core.ElementList.__len__', 'core.ElementList.__repr__', 'core.ElementList.__str__',
    'core.ElementList.get_children', 'core.ElementList.get_ordered_children', 'core.Element.to_er7',
    'core.Field.to_er7', 'core.Segment.to_er7', 'core.SubComponent.to_er7', 'core.Message.to_mllp',
    'core.Element.validate', 'validation.Validator.validate', 'core.Element.__repr__',
    'core.SupportComplexDataType.__repr__', 'core.SubComponent.__repr__', 'core.Element._get_value',
    'core.SubComponent._get_value', 'core.Element.is_named', 'core.Element.is_unknown', 'core.Element.encoding_chars',
    'core.Message._get_encoding_chars', 'core.Element._get_children', 'core.Segment._get_children',
    'core.Field._get_children', 'core.Group._get_children', 'core.SupportComplexDataType._get_children',
]
PROMOTION_CALLERS = {
    'core.ElementProxy.__setattr__': 'write through a proxy (only for the attribute `value`)',
    'core.ElementList.set': 'assignment of a child',
    'core.SubComponent._set_value': 'assignment of a leaf value',
    'core.Element.set_parent_to_traversal': 'recursion towards the root',
}
# writes a pure read may perform (one attribute of one class each, with the reason)
READ_WRITE_ALLOW = {
    ('core.ElementList', 'proxies'): 'memo of ElementProxy objects; never consulted by encoders, len, iteration',
    ('base_datatypes.BaseDataType', 'highlights'): 're-sorting of the highlight ranges inside _escape_value: idempotent '
                                                   'normalisation of the datatype object',
}


def run(chk):
    c = ctxmod.get()
    fx, cg, ix, te = c.fx, c.cg, c.index, c.te
    el = ix.cls(tf.EL)
    chk.rule('C11-L1', 'reads create missing elements only in ElementProxy.__getattr__/__setattr__, and only with the '
                       'literal traversal_parent=True')
    chk.rule('C11-L2', 'create_element hands the creator to the constructor as traversal_parent (not parent) when the '
                       'flag is truthy, and writes nothing itself')
    chk.rule('C11-L3', 'constructors store parent before traversal_parent; both setters attach only a non-None parent')
    chk.rule('C11-L4', 'ElementList.append writes list/indexes only when the child names the element as its real parent; '
                       '_can_add_child re-parents only a child that is neither a real nor a shadow child')
    chk.rule('C11-L5', 'the shadow index is read by lookup/creation code only (see C10-L)')
    chk.rule('C11-L6', 'promotion (set_parent_to_traversal) is called only from write entry points, under `name == '
                       '"value"` in the proxy and not for the initial None of a SubComponent')
    chk.rule('C11-L7', 'everything reachable from a read entry point without passing create_element writes nothing but '
                       'the allow-listed memo fields')

    ce = el.methods.get('create_element')
    if ce is None:
        raise AnalysisError('ElementList.create_element not found')

    # ---- L1
    entries = [e for e in READ_ENTRIES if e in ix.functions]
    chk.floor('read entry points', len(entries), 30)
    reach = cg.reachable_cs(entries, stop=lambda fq: fq == ce.qualname)   # what creation itself does: L2-L4
    creators = sorted(f for f in cg.callers.get(ce.qualname, ()) if f in reach)
    lazy = tf.lazy_creators(c)
    for fq in creators:
        ok = fq in lazy
        chk.ob('C11-L1', '%s may create an element during a read' % fq, ok,
               '' if ok else 'a function reachable from read entry points creates children outside the shadow channel '
               '(traversal_parent is not the constant True): navigation would materialise elements; call chain: %s' %
               ' ; '.join(cg.path_to(fq)[-5:]), ix.functions[fq].loc,
               key='C11-L1|creator|%s' % fq)
    nflag = 0
    for fq in creators:
        fi = ix.functions[fq]
        for s in cg.sites[fq]:
            if s.kind == 'call' and any(t.kind == 'func' and t.func is ce for t in s.targets):
                nflag += 1
                t = [t for t in s.targets if t.func is ce][0]
                b, _, _, _ = te.bind(s.node, t)
                a = b.get('traversal_parent')
                ok = isinstance(a, ast.Constant) and a.value is True
                chk.ob('C11-L1', '%s creates with traversal_parent=True' % fq, ok,
                       'lazy creation passes traversal_parent=%s: the new element is attached to the real tree by a '
                       'mere read' % (norm(a) if a is not None else '<default False>'),
                       '%s:%d' % (fi.module.relpath, s.lineno), key='C11-L1|flag|%s' % fq)
    chk.floor('lazy creation sites reachable from reads', nflag, 1)

    # ---- L2
    g = cfg_of(ce)
    stores = {}
    for n in own_nodes(ce.node):
        if isinstance(n, ast.Subscript) and isinstance(n.ctx, ast.Store) and isinstance(n.slice, ast.Constant) and \
                n.slice.value in ('parent', 'traversal_parent'):
            stores[n.slice.value] = forwarding.branch_context(n)
        if isinstance(n, ast.Subscript) and isinstance(n.ctx, ast.Store) and isinstance(n.slice, ast.Name):
            # a computed key: `key = 'traversal_parent' if flag else 'parent'; kwargs[key] = ...` (canonical form: one assignment
            # of a constant per branch) -- each constant is stored under the condition of its assignment
            if 'traversal_parent' not in (forwarding.branch_context(n) or ''):
                for a in own_nodes(ce.node):
                    if isinstance(a, ast.Assign) and len(a.targets) == 1 and isinstance(a.targets[0], ast.Name) and \
                            a.targets[0].id == n.slice.id and isinstance(a.value, ast.Constant) and \
                            a.value.value in ('parent', 'traversal_parent'):
                        stores[a.value.value] = forwarding.branch_context(a)
        if isinstance(n, ast.Dict):
            for k in n.keys:
                if isinstance(k, ast.Constant) and k.value in ('parent', 'traversal_parent'):
                    stores[k.value] = 'unconditional (dict literal)'
    flag = 'traversal_parent'
    okp = stores.get('parent') in ('not %s [true]' % flag, '%s [false]' % flag)
    okt = stores.get('traversal_parent') in ('not %s [false]' % flag, '%s [true]' % flag)
    chk.ob('C11-L2', "create_element passes 'parent' only when the flag is false", okp,
           "kwargs['parent'] is stored under `%s`" % stores.get('parent'), ce.loc, key='C11-L2|parent')
    chk.ob('C11-L2', "create_element passes 'traversal_parent' when the flag is true", okt,
           "kwargs['traversal_parent'] is stored under `%s`" % stores.get('traversal_parent'), ce.loc,
           key='C11-L2|traversal_parent')
    tree_writes = [w for w in fx.writes.get(ce.qualname, ()) if tf.field_of(w.loc)]
    direct = [s for s in cg.sites[ce.qualname] if s.kind == 'call' and any(
        t.kind == 'func' and t.func.cls is el and t.func.name in ('append', 'insert', 'set', 'remove') for t in s.targets)]
    chk.ob('C11-L2', 'create_element itself writes nothing and attaches nothing', not tree_writes and not direct,
           'create_element now writes %s / calls %s' % ([w.text for w in tree_writes][:2], [s.label for s in direct][:2]),
           ce.loc, key='C11-L2|pure')

    # ---- L3
    init = ix.func('core.Element.__init__')
    order = []
    for n in own_nodes(init.node):
        if isinstance(n, ast.Attribute) and isinstance(n.ctx, ast.Store) and norm(n.value) == 'self' and \
                n.attr in ('parent', 'traversal_parent'):
            order.append((n.lineno, n.col_offset, n.attr))
    order.sort()
    names = [a for _, _, a in order]
    ok = 'parent' in names and 'traversal_parent' in names and names.index('parent') < names.index('traversal_parent')
    chk.ob('C11-L3', 'Element.__init__ stores parent before traversal_parent', ok, 'store order: %s' % names, init.loc,
           key='C11-L3|order')
    for fq, param_attr in (('core.Element._set_parent', 'parent'), ('core.Element._set_traversal_parent', 'parent')):
        fi = ix.func(fq)
        p = fi.call_params()[0]
        bad = []
        from ..cfg import edge_implies
        g_ = cfg_of(fi)

        def not_proving(src, dst, lab, g_=g_, p=p):
            nd = g_.nodes[src]
            return not (nd.kind == 'test' and edge_implies(nd.ast, lab, ('%s is not None' % p, p), ('%s is None' % p, 'not %s' % p)))
        reach_ = g_.reach(ENTRY, labels_ok=not_proving)
        for s in cg.sites[fq]:
            if s.kind == 'call' and any(t.kind == 'func' and t.func.name == 'add' for t in s.targets):
                if g_.node_for(s.node) in reach_:      # reachable without `p is not None` having been established
                    bad.append(forwarding.branch_context(s.node) or 'unconditional')
        chk.ob('C11-L3', '%s attaches only a non-None parent' % fq, not bad, 'add() is called under %s' % bad, fi.loc,
               key='C11-L3|%s' % fq)

    # ---- L4b: the `add` overrides between the constructor's `parent.add(self)` and ElementList.append
    chk.rule('C11-L4b', 'an `add` override of an element class changes the state of the element only for a real child: a child that is '
                        'being attached as a shadow (read-created, traversal_parent set) leaves every attribute of its owner as it was')
    elem4 = ix.cls('core.Element')
    n4b = 0
    for ci4 in sorted(set(te.subs(elem4)) | {elem4}, key=lambda k_: k_.qualname):
        ad = ci4.methods.get('add')
        if ad is None:
            continue
        n4b += 1
        obj_p = ad.call_params()[0]
        g4 = cfg_of(ad)
        for w in fx.writes.get(ad.qualname, ()):
            nd4 = w.node
            if not (isinstance(nd4, ast.Attribute) and norm(nd4.value) == 'self'):
                continue
            nid4 = g4.node_for(nd4)
            from ..cfg import edge_implies as _ei

            def unproven4(src, dst, lab, g4=g4, obj_p=obj_p):
                t4 = g4.nodes[src]
                return not (t4.kind == 'test' and _ei(t4.ast, lab, ('%s.traversal_parent is None' % obj_p, 'not %s.traversal_parent' % obj_p),
                                                      ('%s.traversal_parent is not None' % obj_p, '%s.traversal_parent' % obj_p)))
            free4 = g4.reach(ENTRY, labels_ok=unproven4)
            bad4 = nid4 in free4
            chk.ob('C11-L4b', '%s writes self.%s for real children only' % (ad.qualname, nd4.attr), not bad4,
                   '`self.%s` is written although `%s.traversal_parent is None` was not established: a child created by a mere read '
                   '(attached as a shadow through this add) changes the owner -- e.g. the high-water mark that '
                   'to_er7(trailing_children=True) enumerates up to' % (nd4.attr, obj_p),
                   '%s:%d' % (ad.module.relpath, nd4.lineno), key='C11-L4b|%s|%s' % (ad.qualname, nd4.attr))
    chk.floor('add overrides examined', n4b, 4)

    # ---- L4
    ap = el.methods.get('append')
    child_p = ap.call_params()[0]
    g = cfg_of(ap)
    real_ok = True
    nw = 0
    for w in fx.writes.get(ap.qualname, ()):
        f = tf.field_of(w.loc)
        if not f:
            continue
        nw += 1
        nid = g.node_for(w.node)
        # walk up enclosing ifs
        conds = []
        p = w.node
        child = w.node
        while p is not None and p is not ap.node:
            if isinstance(p, ast.If):
                branch = 'true' if any(child is b or _contains(b, child) for b in p.body) else 'false'
                conds.append('%s [%s]' % (norm(p.test), branch))
            child = p
            p = getattr(p, '_parent', None)
        real = any(cnd in ('self.element == %s.parent [true]' % child_p, '%s.parent == self.element [true]' % child_p)
                   for cnd in conds)
        shadow = any(cnd in ('self.element == %s.traversal_parent [true]' % child_p,
                             '%s.traversal_parent == self.element [true]' % child_p) for cnd in conds)
        if f[1] in ('list', 'indexes'):
            ok = real
            why = 'write to %s is not guarded by `self.element == %s.parent`' % (f[1], child_p)
        elif f[1] == 'traversal_indexes':
            ok = shadow or real
            why = 'write to the shadow index outside the shadow branch'
        else:
            ok, why = True, ''
        chk.ob('C11-L4', 'append: `%s` is in the %s branch' % (w.text[:40], 'real' if f[1] != 'traversal_indexes' else 'shadow'),
               ok, why, w.where(), key='C11-L4|append|%s|%s' % (f[1], w.how))
    chk.floor('storage writes in ElementList.append', nw, 4)
    can = el.methods.get('_can_add_child')
    cp = can.call_params()[0]
    for s in cg.sites[can.qualname]:
        if s.kind == 'setprop' and s.args.get('name') == 'parent':
            bctx = forwarding.branch_context(s.node)
            ok = ('%s.parent != self.element' % cp) in bctx and ('%s.traversal_parent != self.element' % cp) in bctx \
                and bctx.endswith('[true]') and ' and ' in bctx
            chk.ob('C11-L4', '_can_add_child re-parents only a foreign child', ok,
                   '`%s.parent = self.element` runs under `%s`' % (cp, bctx), '%s:%d' % (can.module.relpath, s.lineno),
                   key='C11-L4|_can_add_child')

    # ---- L5 (same facts as C10-L)
    from . import c10
    for fn in te.funcs:
        for n in own_nodes(fn.node):
            if isinstance(n, ast.Attribute) and n.attr in ('traversal_indexes', 'traversal_list'):
                table = c10.SHADOW_READERS if n.attr == 'traversal_indexes' else \
                    set(c10.TRAVERSAL_LIST_USERS) | tf.lazy_creators(c)
                ok = fn.qualname in table
                chk.ob('C11-L5', '%s reads %s' % (fn.qualname, n.attr), ok,
                       '' if ok else 'the shadow index is consulted outside the lookup/creation code: children that '
                       'were only navigated to become visible', '%s:%d' % (fn.module.relpath, n.lineno),
                       key='C11-L5|%s|%s' % (fn.qualname, n.attr))

    # ---- L6
    promo = ix.func('core.Element.set_parent_to_traversal')
    callers = sorted(cg.callers.get(promo.qualname, ()))
    chk.floor('callers of set_parent_to_traversal', len(callers), 3)
    for fq in callers:
        ok = fq in PROMOTION_CALLERS
        chk.ob('C11-L6', '%s may promote shadow elements' % fq, ok,
               '' if ok else 'promotion of navigated-to elements into the real tree is reachable from a function that '
               'is not a write entry point', ix.functions[fq].loc, key='C11-L6|caller|%s' % fq)
    ps = ix.func('core.ElementProxy.__setattr__')
    for s in cg.sites[ps.qualname]:
        if s.kind == 'call' and any(t.kind == 'func' and t.func is promo for t in s.targets):
            bctx = forwarding.branch_context(s.node)
            name_p = ps.call_params()[0]
            ok = bctx == "%s == 'value' [true]" % name_p
            chk.ob('C11-L6', 'the proxy promotes only for the attribute `value`', ok, 'promotion runs under `%s`' % bctx,
                   '%s:%d' % (ps.module.relpath, s.lineno), key='C11-L6|proxy')
    sv = ix.func('core.SubComponent._set_value')
    vp = sv.call_params()[0]
    for s in cg.sites[sv.qualname]:
        if s.kind == 'call' and any(t.kind == 'func' and t.func is promo for t in s.targets):
            bctx = forwarding.branch_context(s.node)
            ok = bctx in ('%s is None [false]' % vp, '%s is not None [true]' % vp)
            chk.ob('C11-L6', 'SubComponent._set_value does not promote for the initial None', ok,
                   'promotion runs under `%s`' % (bctx or 'no condition'), '%s:%d' % (sv.module.relpath, s.lineno),
                   key='C11-L6|subcomponent')

    # ---- L10: a completed set() promotes its owner
    chk.rule('C11-L10', 'every normal way out of ElementList.set passes the promotion of the owner (set_parent_to_traversal): the child '
                        'was appended or put in place of another one in an owner that may itself be shadow, and a write must '
                        'materialise the path it went through')
    st10 = ix.func('core.ElementList.set')
    g10 = cfg_of(st10)
    promo_nodes = {g10.node_for(s.node) for s in cg.sites[st10.qualname]
                   if s.kind == 'call' and any(t.kind == 'func' and t.func is promo for t in s.targets)}
    promo_nodes.discard(None)
    if not promo_nodes:
        chk.fail('C11-L10', 'ElementList.set promotes its owner', 'set() no longer calls set_parent_to_traversal at all: a write through '
                 'a shadow owner is lost', st10.loc, key='C11-L10|none')
    else:
        free = g10.reach(ENTRY, avoid=promo_nodes, labels_ok=lambda s_, d_, lab: lab != 'exc')
        bad10 = EXIT in free
        chk.ob('C11-L10', 'every normal exit of ElementList.set is preceded by the promotion of the owner', not bad10,
               'set() can return normally without set_parent_to_traversal(): when the owner was reached through a read-created '
               '(shadow) element, the assigned child lives in an owner that is never attached -- the write is lost',
               st10.loc, key='C11-L10|set')

    # ---- L7
    reach2 = cg.reachable_cs(entries, stop=lambda fq: fq == ce.qualname)
    reach2.discard(ce.qualname)
    chk.count('functions reachable from read entry points (not through create_element)', len(reach2))
    nwr = 0
    for fq in sorted(reach2):
        for w in fx.writes.get(fq, ()):
            f = tf.field_of(w.loc)
            shared = fx.resolve_shared(w)
            if f is None and not shared:
                continue      # local containers / parameters built during the call
            if fq.endswith('.__init__') and isinstance(w.node, ast.Attribute) and norm(w.node.value) == 'self' \
                    and not shared:
                continue      # initialisation of the object under construction
            nwr += 1
            if f is not None and f in READ_WRITE_ALLOW and not shared:
                chk.ok('C11-L7', '%s writes %s.%s' % (fq, f[0].split('.')[-1], f[1]), 'allowed: ' + READ_WRITE_ALLOW[f],
                       w.where(), key='C11-L7|%s|%s' % (fq, f[1]))
                continue
            path = cg.path_to(fq)
            chk.fail('C11-L7', '%s writes %s' % (fq, '%s.%s' % (f[0].split('.')[-1], f[1]) if f else sorted(shared)),
                     'a read entry point reaches `%s` (%s); call chain: %s' % (w.text, w.how, ' ; '.join(path[-4:])),
                     w.where(), key='C11-L7|%s|%s' % (fq, f[1] if f else 'shared'))
    chk.count('persistent writes found in the read closure', nwr)
    chk.assume('L2-L4 justify treating the list/indexes writes of ElementList.append as unreachable on the shadow channel; '
               'they are re-validated on every run')


    # ---- L9: one shadow element per missing child
    chk.rule('C11-L9', 'lazy creation happens only after both the real list and the shadow list were found empty: a read and a later '
                       'write through the same missing child use the same shadow element, so the path is created once')
    nl9 = 0
    lazy_ = tf.lazy_creators(c)
    l9_owners = set()
    for fq_ in sorted(cg.sites):
        fi_ = ix.functions.get(fq_)
        if fi_ is None:
            continue
        for s_ in cg.sites[fq_]:
            if s_.kind == 'call' and any(t.kind == 'func' and t.func is ce for t in s_.targets):
                # the proxy's creations: in the lazy-creation code, or made on the proxy's delegate (`<proxy>.element_list`)
                recv_ = s_.node.func.value if isinstance(s_.node.func, ast.Attribute) else None
                if not (fq_ in lazy_ or (isinstance(recv_, ast.Attribute) and recv_.attr == 'element_list')):
                    continue
                nl9 += 1
                l9_owners.add(fq_)
                looked = set()
                p_ = s_.node
                while getattr(p_, '_parent', None) is not None and p_ is not fi_.node:
                    par_ = p_._parent
                    if isinstance(par_, ast.ExceptHandler):
                        tr_ = par_._parent
                        if isinstance(tr_, ast.Try):
                            for x_ in ast.walk(ast.Module(body=tr_.body, type_ignores=[])):
                                if isinstance(x_, ast.Attribute) and x_.attr in ('list', 'traversal_list'):
                                    looked.add(x_.attr)
                    p_ = par_
                # the same through tests: `if not self.list and not self.traversal_list`
                p_ = s_.node
                while getattr(p_, '_parent', None) is not None and p_ is not fi_.node:
                    par_ = p_._parent
                    if isinstance(par_, ast.If):
                        for x_ in ast.walk(par_.test):
                            if isinstance(x_, ast.Attribute) and x_.attr in ('list', 'traversal_list'):
                                looked.add(x_.attr)
                    p_ = par_
                ok_ = {'list', 'traversal_list'} <= looked
                chk.ob('C11-L9', '%s creates only when no real and no shadow child exists' % fq_, ok_,
                       'the creation is not guarded by a failed look-up in %s: an existing shadow element (created by an earlier read) '
                       'is ignored and a second one is created and later promoted' % sorted({'list', 'traversal_list'} - looked),
                       '%s:%d' % (fi_.module.relpath, s_.lineno), key='C11-L9|%s' % fq_)
    chk.floor('lazy creation sites examined for shadow reuse', nl9, 1)
    for acc_ in ('__getattr__', '__setattr__'):
        fi_ = ix.func('core.ElementProxy.%s' % acc_)
        callees_ = {t.func.qualname for s_ in cg.sites.get(fi_.qualname, ()) for t in s_.targets if t.kind == 'func'}
        if not ({fi_.qualname} | callees_) & l9_owners:
            raise AnalysisError('ElementProxy.%s: the lazy creation it performs was not found (neither in the method nor in a '
                                'function it calls directly)' % acc_)

    # ---- L8: the constructor chain hands parent / traversal_parent up to Element.__init__
    chk.rule('C11-L8', 'every element constructor passes the parent and the traversal parent it was given to its base constructor '
                       '(a lazily created element that loses its traversal parent can never be promoted: the write is lost)')
    elem_ = ix.cls('core.Element')

    def is_ctor(fi_):
        return fi_.cls is not None and elem_ in fi_.cls.mro and fi_.name == '__init__'
    nctor = forwarding.check_forwarding(chk, c, 'C11-L8', ('traversal_parent', 'parent'),
                                        only_callers=lambda fq_: is_ctor(ix.functions[fq_]), only_callees=is_ctor,
                                        self_attrs=False, check_own=True)
    chk.floor('constructor chain call sites (parent / traversal_parent)', nctor, 12)


def _contains(stmt, node):
    for n in ast.walk(stmt):
        if n is node:
            return True
    return False
