"""C07 -- a message's encoding characters govern its entire encoding."""
import ast
import string

from .. import ctx as ctxmod
from ..consteval import ConstEval, NotConstant
from ..src import own_nodes, norm
from ..report import AnalysisError
from .forwarding import branch_context
from . import forwarding, codelemmas


from .pat import concat_parts


def fmt_roles(e):
    """concatenation of ec['A'], ec['B'], ... -> ['A', 'B', ...] in output order, or None"""
    parts = concat_parts(e)
    if not parts or len(parts) < 2:
        return None
    out = []
    for a in parts:
        if isinstance(a, ast.Subscript) and isinstance(a.slice, ast.Constant) and isinstance(a.slice.value, str):
            out.append(a.slice.value)
        else:
            return None
    return out


def run(chk):
    c = ctxmod.get()
    ix, cg, te = c.index, c.cg, c.te
    ce = ConstEval(ix, te)
    chk.rule('C07-K', 'the MSH-2 position <-> role map is the same in the setter (Message._set_encoding_chars), the getter '
                      '(_get_encoding_chars) and the parser (_split_msh); MSH-1 is FIELD in all three')
    chk.rule('C07-T', 'every version threshold for the fifth (truncation) character uses the same comparison; the arities '
                      '(N_SEPS, N_SEPS_27, unpack targets, format fields) agree')
    chk.rule('C07-E', 'the truncation character is written / read exactly under its guards (version test and presence test)')
    chk.rule('C07-R', 'every unguarded encoding_chars[K] uses a required key (or SEGMENT/GROUP); the duplicate check covers every '
                      'role the setter writes into MSH-1/MSH-2')
    chk.rule('C07-I', 'encoding_chars is inherited from the parent; only Message overrides it')

    st = ix.func('core.Message._set_encoding_chars')
    gt = ix.func('core.Message._get_encoding_chars')
    sp = ix.func('parser._split_msh')

    # ---- setter
    forms = {}
    fguard = {}
    for n in own_nodes(st.node):
        r = fmt_roles(n) if isinstance(n, (ast.JoinedStr, ast.BinOp, ast.Call)) else None
        if r:
            forms[len(r)] = r
            fguard[len(r)] = branch_context(n)
    if 4 not in forms or 5 not in forms:
        raise AnalysisError('_set_encoding_chars: the 4- and 5-character format templates were not recognised (%s)' % sorted(forms))
    # ---- getter
    getter = {}
    gguard = {}
    msh2 = None
    for n in own_nodes(gt.node):
        if isinstance(n, ast.Dict):
            for k, v in zip(n.keys, n.values):
                if isinstance(k, ast.Constant) and isinstance(v, ast.Subscript) and isinstance(v.slice, ast.Constant) and \
                        isinstance(v.slice.value, int) and isinstance(v.value, ast.Name):
                    getter[v.slice.value] = k.value
                    gguard[v.slice.value] = branch_context(n)
                    msh2 = v.value.id
    for n in own_nodes(gt.node):      # chars['KEY'] = msh_2[i]
        if isinstance(n, ast.Assign) and isinstance(n.targets[0], ast.Subscript) and isinstance(n.targets[0].slice, ast.Constant) \
                and isinstance(n.value, ast.Subscript) and isinstance(n.value.slice, ast.Constant) and \
                isinstance(n.value.slice.value, int) and isinstance(n.value.value, ast.Name):
            getter[n.value.slice.value] = n.targets[0].slice.value
            gguard[n.value.slice.value] = branch_context(n)
            msh2 = n.value.value.id
    get4 = [getter.get(i) for i in range(4)]
    get5 = [getter.get(i) for i in range(5)]
    # ---- parser
    unpack = {}
    unpack_src = []
    for n in own_nodes(sp.node):
        if isinstance(n, ast.Assign) and isinstance(n.targets[0], ast.Tuple) and isinstance(n.value, ast.Name) and \
                len(n.targets[0].elts) in (4, 5):
            unpack[len(n.targets[0].elts)] = ([norm(e) for e in n.targets[0].elts], branch_context(n))
            unpack_src.append(n.value.id)
    if 4 not in unpack or 5 not in unpack:
        raise AnalysisError('_split_msh: the 4- and 5-character unpackings of MSH-2 were not recognised')
    var2key = {}
    for n in own_nodes(sp.node):
        if isinstance(n, ast.Dict):
            for k, v in zip(n.keys, n.values):
                if isinstance(k, ast.Constant) and isinstance(v, ast.Name):
                    var2key[v.id] = k.value
        if isinstance(n, ast.Assign) and len(n.targets) == 1 and isinstance(n.targets[0], ast.Subscript) and \
                isinstance(n.targets[0].slice, ast.Constant) and isinstance(n.value, ast.Name):
            var2key[n.value.id] = n.targets[0].slice.value       # d['KEY'] = var (canonical form of d.update({'KEY': var}))
    par4 = [var2key.get(v) for v in unpack[4][0]]
    par5 = [var2key.get(v) for v in unpack[5][0]]
    ok4 = forms[4] == get4 == par4 and None not in par4
    chk.ob('C07-K', '4-character MSH-2: setter, getter and parser agree', ok4,
           'setter %s / getter %s / parser %s' % (forms[4], get4, par4), st.loc, key='C07-K|4')
    ok5 = forms[5] == get5 == par5 and None not in par5
    chk.ob('C07-K', '5-character MSH-2: setter, getter and parser agree', ok5,
           'setter %s / getter %s / parser %s' % (forms[5], get5, par5), st.loc, key='C07-K|5')
    chk.ob('C07-K', 'the 5-character form extends the 4-character form', forms[5][:4] == forms[4], '', st.loc, key='C07-K|prefix')
    # FIELD = MSH-1
    def becomes_leaf_value(fnode, text, depth=0):
        # `text` is stored as the value of a SubComponent: directly, or through a helper of the same module that does so
        for n in own_nodes(fnode):
            if not isinstance(n, ast.Call):
                continue
            if norm(n.func) == 'SubComponent' and any(k.arg == 'value' and norm(k.value) == text for k in n.keywords):
                return True
            if isinstance(n.func, ast.Name) and depth < 2:
                callee = st.module.functions.get(n.func.id)
                if callee is not None:
                    params_ = [a_.arg for a_ in callee.node.args.args]
                    for i_, a_ in enumerate(n.args):
                        if norm(a_) == text and i_ < len(params_) and becomes_leaf_value(callee.node, params_[i_], depth + 1):
                            return True
                    for k in n.keywords:
                        if norm(k.value) == text and k.arg in params_ and becomes_leaf_value(callee.node, k.arg, depth + 1):
                            return True
        return False
    f_set = becomes_leaf_value(st.node, "encoding_chars['FIELD']")
    f_get = any(isinstance(n, ast.Dict) and any(isinstance(k, ast.Constant) and k.value == 'FIELD' and 'msh_1' in norm(v)
                                               for k, v in zip(n.keys, n.values)) for n in own_nodes(gt.node))
    f_par = var2key.get('field_sep') == 'FIELD' and any(
        isinstance(n, ast.Assign) and norm(n.targets[0]) == 'field_sep' and "group('field_sep')" in norm(n.value)
        for n in own_nodes(sp.node))
    chk.ob('C07-K', 'MSH-1 carries FIELD in setter, getter and parser', f_set and f_get and f_par,
           'setter %s getter %s parser %s' % (f_set, f_get, f_par), st.loc, key='C07-K|field')
    for fi in (gt, sp):
        d = {}
        for n in own_nodes(fi.node):
            if isinstance(n, ast.Dict):
                for k, v in zip(n.keys, n.values):
                    if isinstance(k, ast.Constant) and k.value in ('SEGMENT', 'GROUP') and isinstance(v, ast.Constant):
                        d[k.value] = v.value
        chk.ob('C07-K', '%s supplies SEGMENT and GROUP as CR' % fi.qualname, d == {'SEGMENT': '\r', 'GROUP': '\r'}, repr(d), fi.loc,
               key='C07-K|cr|%s' % fi.qualname)

    # ---- T  (every version test of the four sites is a test against '2.7' that separates v >= 2.7 from v < 2.7)
    SITES = ('__init__.get_default_encoding_chars', 'core.Message._get_encoding_chars',
             'core.Message._set_encoding_chars', 'parser._split_msh')
    for fq in SITES:
        fi = ix.func(fq)
        atoms = [n for n in own_nodes(fi.node) if isinstance(n, ast.Compare) and len(n.ops) == 1 and
                 isinstance(n.comparators[0], ast.Constant) and isinstance(n.comparators[0].value, str) and
                 n.comparators[0].value[:2] == '2.']
        if not atoms:
            chk.fail('C07-T', '%s compares the version with >= 2.7' % fq,
                     'this site handles the fifth (truncation) character without any version test, its siblings test >= 2.7',
                     fi.loc, key='C07-T|%s' % fq)
            continue
        bad = [n for n in atoms if not (n.comparators[0].value == '2.7' and isinstance(n.ops[0], (ast.GtE, ast.Lt)))]
        chk.ob('C07-T', '%s compares the version with >= 2.7' % fq, not bad,
               'uses `%s`: a different threshold / comparison than `>= \'2.7\'` (or its negation `< \'2.7\'`) used by the siblings' %
               (norm(bad[0]) if bad else ''), '%s:%d' % (fi.module.relpath, atoms[0].lineno), key='C07-T|%s' % fq)
    consts = ix.module('consts')
    try:
        n4 = ce.eval(consts.assigns['N_SEPS'], consts)
        n5 = ce.eval(consts.assigns['N_SEPS_27'], consts)
    except (KeyError, NotConstant):
        raise AnalysisError('consts.N_SEPS / N_SEPS_27 not constant')
    chk.ob('C07-T', 'N_SEPS = 4 and N_SEPS_27 = 5 match the unpack / format arities', (n4, n5) == (4, 5), 'N_SEPS=%r N_SEPS_27=%r' % (n4, n5),
           '%s:1' % consts.relpath, key='C07-T|arity')

    # ---- E  (path conditions: where the fifth character is written / read / accepted)
    from .. import pathcond
    from ..cfg import cfg_of

    def v27(t, pol):
        return isinstance(t, ast.Compare) and len(t.ops) == 1 and isinstance(t.comparators[0], ast.Constant) and \
            t.comparators[0].value == '2.7' and ((isinstance(t.ops[0], ast.GtE) and pol) or (isinstance(t.ops[0], ast.Lt) and not pol))

    def has_trunc(t, pol):
        return pol and isinstance(t, ast.Compare) and len(t.ops) == 1 and isinstance(t.ops[0], ast.In) and \
            isinstance(t.left, ast.Constant) and t.left.value == 'TRUNCATION'

    def len_is(var, ks):
        def pred(t, pol):
            if not (isinstance(t, ast.Compare) and len(t.ops) == 1):
                return False
            l_, r_ = norm(t.left), norm(t.comparators[0])
            if 'len(%s)' % var not in (l_, r_):
                return False
            other = r_ if l_ == 'len(%s)' % var else l_
            return other in ks and ((isinstance(t.ops[0], ast.Eq) and pol) or (isinstance(t.ops[0], ast.NotEq) and not pol))
        return pred

    def paths_to(fi_, node):
        g_ = cfg_of(fi_)
        nid = g_.node_for(node)
        if nid is None:
            raise AnalysisError('%s: no CFG node for `%s`' % (fi_.qualname, norm(node)[:40]))
        return pathcond.conditions(g_, nid)
    f5 = [n for n in own_nodes(st.node) if isinstance(n, (ast.JoinedStr, ast.BinOp, ast.Call)) and (fmt_roles(n) or []) == forms[5]]
    f4 = [n for n in own_nodes(st.node) if isinstance(n, (ast.JoinedStr, ast.BinOp, ast.Call)) and (fmt_roles(n) or []) == forms[4]]
    p5 = [p_ for n in f5 for p_ in paths_to(st, n)]
    p4 = [p_ for n in f4 for p_ in paths_to(st, n)]
    ok = pathcond.every_path_requires(p5, v27) and pathcond.every_path_requires(p5, has_trunc)
    chk.ob('C07-E', 'setter writes 5 characters only for v>=2.7 with TRUNCATION supplied', ok,
           'the 5-character MSH-2 is built on a path that does not establish both `version >= 2.7` and `\'TRUNCATION\' in encoding_chars`',
           st.loc, key='C07-E|setter')
    both = [conds for conds in p4 if any(pathcond.outcome_implies(t, o, v27) for t, o in conds) and
            any(pathcond.outcome_implies(t, o, has_trunc) for t, o in conds)]
    chk.ob('C07-E', 'setter writes 4 characters otherwise', bool(p4) and not both,
           'the 4-character MSH-2 is (also) built where version >= 2.7 and TRUNCATION is supplied', st.loc, key='C07-E|setter-else')
    treads = [n for n in own_nodes(gt.node) if isinstance(n, ast.Subscript) and isinstance(n.ctx, ast.Load) and msh2 is not None and
              norm(n) == '%s[4]' % msh2]
    pg = [p_ for n in treads for p_ in paths_to(gt, n)]
    ok = pathcond.every_path_requires(pg, v27) and pathcond.every_path_requires(pg, len_is(msh2, ('5', 'N_SEPS_27')))
    chk.ob('C07-E', 'getter reports TRUNCATION only for a 5-character MSH-2 of v>=2.7', ok,
           'the fifth character is read on a path that does not establish both `version >= 2.7` and a 5-character MSH-2', gt.loc,
           key='C07-E|getter')
    u5 = [n for n in own_nodes(sp.node) if isinstance(n, ast.Assign) and isinstance(n.targets[0], ast.Tuple) and
          len(n.targets[0].elts) == 5 and isinstance(n.value, ast.Name)]
    pp = [p_ for n in u5 for p_ in paths_to(sp, n)]
    ok = pathcond.every_path_requires(pp, v27) and pathcond.every_path_requires(pp, len_is(unpack_src[0] if unpack_src else 'seps', ('5', 'N_SEPS_27')))
    chk.ob('C07-E', 'parser accepts 5 characters only for v>=2.7', ok,
           'the 5-character unpacking is reached on a path that does not establish both `version >= 2.7` and a 5-character MSH-2',
           sp.loc, key='C07-E|parser')
    upd = []
    for n in own_nodes(sp.node):
        if isinstance(n, ast.Assign) and len(n.targets) == 1 and isinstance(n.targets[0], ast.Subscript) and \
                isinstance(n.targets[0].slice, ast.Constant) and n.targets[0].slice.value == 'TRUNCATION':
            upd.append((n, norm(n.value)))
        if isinstance(n, ast.Call) and norm(n.func).endswith('.update') and n.args and isinstance(n.args[0], ast.Dict):
            for k_, v_ in zip(n.args[0].keys, n.args[0].values):
                if isinstance(k_, ast.Constant) and k_.value == 'TRUNCATION':
                    upd.append((n, norm(v_)))

    def under_present(node, var):
        # the statement runs only where `var` is known to hold a character (truthy / not None)
        p_ = node
        while getattr(p_, '_parent', None) is not None and p_ is not sp.node:
            par = p_._parent
            if isinstance(par, ast.If):
                from ..cfg import edge_implies
                pos = (var, '%s is not None' % var)
                neg = ('%s is None' % var, 'not %s' % var)
                side = 'true' if any(p_ is b for b in par.body) else 'false'
                if edge_implies(par.test, side, pos, neg):
                    return True
            p_ = par
        return False
    ok = bool(upd) and all(under_present(u, v_) for u, v_ in upd)
    chk.ob('C07-E', 'parser adds TRUNCATION only when a fifth character was read', ok, '', sp.loc, key='C07-E|parser-update')

    # ---- R
    cec = ix.func('__init__.check_encoding_chars')
    required = None
    for n in own_nodes(cec.node):
        if isinstance(n, ast.Assign) and norm(n.targets[0]) == 'required' and isinstance(n.value, ast.Set):
            required = {e.value for e in n.value.elts if isinstance(e, ast.Constant)}
    if not required:
        raise AnalysisError('check_encoding_chars: the `required` set literal was not found')
    nsub = 0
    for fn in te.funcs:
        for n in own_nodes(fn.node):
            if isinstance(n, ast.Subscript) and isinstance(n.ctx, ast.Load) and isinstance(n.slice, ast.Constant) and \
                    isinstance(n.slice.value, str) and isinstance(n.value, ast.Name) and n.value.id in ('encoding_chars', 'enc_chars'):
                nsub += 1
                k = n.slice.value
                guarded = False
                p = n
                while p is not None and p is not fn.node:
                    par = getattr(p, '_parent', None)
                    if isinstance(par, ast.Try) and any(p is b for b in par.body) and any(
                            h.type is None or 'KeyError' in norm(h.type) for h in par.handlers):
                        guarded = True
                    p = par
                if ("'%s' in %s" % (k, n.value.id)) in branch_context(n):
                    guarded = True
                ok = k in required or k in ('SEGMENT', 'GROUP') or guarded
                chk.ob('C07-R', '%s reads encoding_chars[%r]' % (fn.qualname, k), ok,
                       '' if ok else 'the key is neither required by check_encoding_chars nor guarded: a valid set without it raises KeyError',
                       '%s:%d' % (fn.module.relpath, n.lineno), key='C07-R|%s|%s' % (fn.qualname, k))
    chk.floor('encoding_chars[K] subscripts', nsub, 12)
    written = set(forms[5]) | {'FIELD'}
    # which keys does the distinctness test look at?
    dup_all = any(isinstance(n, ast.ListComp) and not n.generators[0].ifs and 'encoding_chars' in norm(n.generators[0].iter)
                  for n in own_nodes(cec.node))
    dup_filter = None
    for n in own_nodes(cec.node):
        if isinstance(n, ast.ListComp) and n.generators[0].ifs:
            dup_filter = norm(n.generators[0].ifs[0])
    def holds(expr, key):
        # tiny evaluator for the filter expression over the loop variable `k`
        if isinstance(expr, ast.BoolOp):
            vals = [holds(v, key) for v in expr.values]
            return all(vals) if isinstance(expr.op, ast.And) else any(vals)
        if isinstance(expr, ast.Compare) and len(expr.ops) == 1 and isinstance(expr.left, ast.Name):
            rhs = expr.comparators[0]
            if isinstance(rhs, ast.Name) and rhs.id == 'required':
                pool = required
            elif isinstance(rhs, (ast.Tuple, ast.List, ast.Set)):
                pool = {e.value for e in rhs.elts if isinstance(e, ast.Constant)}
            elif isinstance(rhs, ast.Constant):
                pool = {rhs.value}
            else:
                return False
            if isinstance(expr.ops[0], (ast.In, ast.Eq)):
                return key in pool
            if isinstance(expr.ops[0], (ast.NotIn, ast.NotEq)):
                return key not in pool
        return False
    filt = None
    for n in own_nodes(cec.node):
        if isinstance(n, ast.ListComp) and 'encoding_chars' in norm(n.generators[0].iter) and n.generators[0].ifs:
            filt = n.generators[0].ifs[0]
    if filt is not None:
        covered = {k for k in written if holds(filt, k)}
    else:
        covered = written if dup_all else set()
    missing = sorted(written - covered - {'SEGMENT', 'GROUP'})
    chk.ob('C07-R', 'the duplicate check covers every role written into MSH-1/MSH-2', not missing,
           'check_encoding_chars compares only %s for distinctness; the setter also writes %s: a set whose %s equals another '
           'delimiter is accepted by Message(...) although _split_msh rejects the text it produces' % (
               sorted(covered), missing, '/'.join(missing)), cec.loc, key='C07-R|duplicates|%s' % ','.join(missing))
    ok = any(isinstance(n, ast.Raise) and 'InvalidEncodingChars' in norm(n) for n in own_nodes(cec.node))
    # (under which condition: rule C07-G compares the refusal predicate of check_encoding_chars with the reviewed one)
    miss_chk = any('required -' in norm(n) or '- required' in norm(n) or 'issubset' in norm(n) or 'required <=' in norm(n)
                   for n in ast.walk(cec.node) if isinstance(n, (ast.BinOp, ast.Compare, ast.Call)))
    chk.ob('C07-R', 'missing required roles are rejected with InvalidEncodingChars', ok and miss_chk, '', cec.loc, key='C07-R|missing')
    def dup_test(t):
        # len(x) > len(set(x)), len(set(x)) < len(x), len(x) != len(set(x)): x has a repeated character
        if not (isinstance(t, ast.Compare) and len(t.ops) == 1):
            return False
        a_, b_ = norm(t.left), norm(t.comparators[0])
        for x_, y_, ops in ((a_, b_, (ast.Gt, ast.NotEq)), (b_, a_, (ast.Lt, ast.NotEq))):
            if x_.startswith('len(') and y_ == 'len(set(%s))' % x_[4:-1] and isinstance(t.ops[0], ops):
                return x_[4:-1]
        return False
    ok = False
    for n in own_nodes(sp.node):
        if isinstance(n, ast.If) and dup_test(n.test) and dup_test(n.test) in set(unpack_src) and \
                any(isinstance(x, ast.Raise) and 'InvalidEncodingChars' in norm(x) for x in n.body):
            ok = True
    chk.ob('C07-R', 'the parser rejects duplicated characters in MSH-2', ok, '', sp.loc, key='C07-R|parser-dups')
    ok = any(isinstance(n, ast.Call) and norm(n.func) == 'check_encoding_chars' for n in own_nodes(st.node))
    chk.ob('C07-R', 'the setter validates the set before writing MSH-1/MSH-2', ok, '', st.loc, key='C07-R|setter-checks')

    # ---- F
    chk.rule('C07-F', 'every parser / encoder call that takes encoding_chars receives the caller\'s own set (not a default, not the '
                      'set of some other object)')
    nf = forwarding.check_forwarding(chk, c, 'C07-F', ('encoding_chars',), check_own=True)
    chk.floor('call sites taking encoding_chars', nf, 60)

    chk.rule('C07-U', 'no function accepts a context parameter and then ignores it')
    forwarding.dead_context_params(chk, c, 'C07-U', ('encoding_chars',))

    # ---- H: lazily created elements look the delimiters up through the element they are created under
    chk.rule('C07-H', 'the ancestor look-up of the encoding characters follows parent AND traversal_parent before it falls '
                      'back to the process-wide defaults')
    codelemmas.ancestor_lookup(chk, c, 'C07-H')

    # ---- P: the set a message reports is a function of its own MSH-1/MSH-2 only
    chk.rule('C07-P', 'the getter / setter / header parser of the encoding characters keep no state outside the message: they write no '
                      'module or class level object and read none that can change')
    fx = c.fx
    for fq in ('core.Message._get_encoding_chars', 'core.Message._set_encoding_chars', 'parser._split_msh', 'core.Element.encoding_chars'):
        fi = ix.func(fq)
        bad = []
        for w in fx.writes.get(fq, ()):
            if fx.resolve_shared(w):
                bad.append('writes %s' % sorted(fx.resolve_shared(w))[0][2])
        for n in own_nodes(fi.node):
            if isinstance(n, ast.Name) and isinstance(n.ctx, ast.Load):
                for src in fx.sources(n, fi):
                    if src[0] == 'global' and fx.is_mutable_root(src):
                        bad.append('reads module variable %s' % src[2])
        chk.ob('C07-P', '%s depends on the message only' % fq, not bad,
               '%s: the encoding characters of one message can leak into another' % '; '.join(sorted(set(bad))[:3]), fi.loc,
               key='C07-P|%s' % fq)

    # ---- I
    elem = ix.cls('core.Element')
    owners = sorted(ci.qualname for ci in te.subs(elem) if 'encoding_chars' in ci.properties or 'encoding_chars' in ci.attrs)
    chk.ob('C07-I', 'encoding_chars is defined by Element and overridden by Message only', owners == ['core.Element', 'core.Message'],
           'defined in %s' % owners, elem.module.relpath, key='C07-I|owners')
    ge = ix.func('core.Element.encoding_chars')
    pal = {'self.parent', 'self._parent'} | {n.targets[0].id for n in own_nodes(ge.node) if isinstance(n, ast.Assign) and
                                             len(n.targets) == 1 and isinstance(n.targets[0], ast.Name) and
                                             norm(n.value) in ('self.parent', 'self._parent')}
    ok = any(isinstance(x, ast.Return) and isinstance(x.value, ast.Attribute) and x.value.attr == 'encoding_chars' and
             norm(x.value.value) in pal for x in own_nodes(ge.node))
    # (that the defaults are reached only when there is no parent is rule C07-H)
    chk.ob('C07-I', 'an element with a parent uses the parent\'s encoding characters', ok, '', ge.loc, key='C07-I|inherit')
    stores = [fn.qualname for fn in te.funcs for n in own_nodes(fn.node) if isinstance(n, ast.Attribute) and
              isinstance(n.ctx, ast.Store) and n.attr in ('_encoding_chars',)]
    chk.ob('C07-I', 'no element keeps a private copy of the encoding characters', not stores, 'stored in %s' % stores, elem.module.relpath,
           key='C07-I|no-copy')

    chk.rule('C07-G', 'invalid delimiter sets are refused under the same conditions as in the reviewed tree (missing role, duplicate, wrong number of characters for the version)')
    from . import guardrules
    ng_ = guardrules.check(chk, c, 'C07-G', ['__init__.check_encoding_chars', 'parser._split_msh'])
    chk.floor('refusal predicates compared (C07-G)', ng_, 1)

    chk.rule('C07-D', 'decision structure of the functions this property is anchored in: every effect statement (store, call, return, '
                   'raise) runs under the same combinations of the function\'s elementary tests as in the reviewed tree, and none '
                   'was deleted (reference/decisions.json; compared by meaning, rewritten functions are not compared)')
    from . import guardrules as _gr
    nd2_ = _gr.check_decisions(chk, c, 'C07-D', lambda fq_: fq_.startswith(('parser._split_msh', 'parser.get_message_', '__init__.check_encoding_chars', '__init__.get_default_encoding_chars', '__init__.set_default_encoding_chars')))
    chk.floor('functions compared with the decision reference (C07-D)', nd2_, 1)
