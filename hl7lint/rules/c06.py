"""C06 -- escaping is delimiter-safe and idempotent for every delimiter set.

The escape function is `str.replace` for each delimiter role followed by one `re.sub` with fixed-width look-arounds:
a rational transduction.  Its translation table, guard classes, replacement and statement order are extracted from
the source; the three claims are then decided for ALL strings over a symbolic alphabet (delimiter roles, escape
character, guard-letter classes, "any other character") by automata, plus a bounded enumeration that names the
minimal failing inputs."""
import ast
import itertools
try:
    import re._parser as sre_parse
except ImportError:      # pragma: no cover
    import sre_parse

from .. import ctx as ctxmod
from .. import automata as am
from ..consteval import ConstEval, NotConstant
from ..cfg import cfg_of
from ..src import own_nodes, norm
from ..report import AnalysisError

ESC = '\x01'
E = 'e'
OTHER = 'o'
RENDER = {'FIELD': '|', 'COMPONENT': '^', 'SUBCOMPONENT': '&', 'REPETITION': '~', 'TRUNCATION': '#', E: '\\', OTHER: 'x'}


class Variant(object):
    def __init__(self, name):
        self.name = name
        self.tables = []       # [(label, {role: word})]
        self.behind = []       # list of symbol sets (look-behind, left to right)
        self.ahead = []
        self.repl = None       # word
        self.classes = []


# representative escape characters: the backslash (special for regex patterns AND replacement templates), another regex
# metacharacter, and a plain punctuation character
ESC_CLASSES = (('backslash', '\\'), ('regex metacharacter', '?'), ('plain punctuation', '@'))


def _parts(s, ESC=ESC):
    """'<esc>F<esc>' -> ('e', 'F', 'e')"""
    return tuple(E if ch == ESC else ch for ch in s)


def extract(ix, te, ce, cls, chk, ESC=ESC):
    v = Variant(cls.qualname)
    parts = lambda s_: _parts(s_, ESC)
    ESC_FOR[0] = ESC
    ev = cls.find_method('_escape_value')
    gt = cls.find_method('_get_translations')
    gr = cls.find_method('_get_escape_char_regex')
    if ev is None or gt is None or gr is None:
        raise AnalysisError('%s: escape machinery (_escape_value/_get_translations/_get_escape_char_regex) not found' % cls.qualname)
    v.funcs = (ev, gt, gr)
    # ---- translations (small abstract evaluation of _get_translations: literals, locals, +, super(), .get(role, default),
    #      try/except KeyError)
    v.tables = eval_translations(ix, te, ce, cls, gt, parts, chk)
    if not v.tables:
        raise AnalysisError('%s: no translation table found' % cls.qualname)
    # ---- regex
    rets = [n for n in own_nodes(gr.node) if isinstance(n, ast.Return)]
    if len(rets) != 1:
        raise AnalysisError('%s: _get_escape_char_regex has %d returns' % (cls.qualname, len(rets)))
    try:
        pat = ce.eval(rets[0].value, gr.module, None, env={gr.call_params()[0]: ESC})
    except (NotConstant, Exception) as e:
        raise AnalysisError('%s: escape regex is not a constant expression (%s)' % (cls.qualname, e))
    v.pattern = pat
    tree = list(sre_parse.parse(pat))

    def charset(item):
        op, arg = item
        op = str(op)
        if op == 'LITERAL':
            return {E if chr(arg) == ESC else chr(arg)}
        if op == 'IN':
            out = set()
            for o2, a2 in arg:
                if str(o2) == 'LITERAL':
                    out.add(E if chr(a2) == ESC else chr(a2))
                elif str(o2) == 'RANGE':
                    out |= {chr(x) for x in range(a2[0], a2[1] + 1)}
                else:
                    raise AnalysisError('%s: unsupported class member %s in the escape regex' % (cls.qualname, o2))
            return out
        raise AnalysisError('%s: unsupported regex element %s' % (cls.qualname, op))
    centre = None
    for op, arg in tree:
        op = str(op)
        if op == 'ASSERT_NOT':
            direction, sub = arg
            seq = [charset(it) for it in sub]
            if direction < 0:
                v.behind = seq
            else:
                v.ahead = seq
        elif op == 'LITERAL' and chr(arg) == ESC and centre is None:
            centre = True
        else:
            raise AnalysisError('%s: escape regex has an unsupported shape: %r' % (cls.qualname, pat))
    if centre is None:
        raise AnalysisError('%s: the escape regex does not match the escape character' % cls.qualname)
    # ---- _escape_value: replaces, then the sub
    g = cfg_of(ev)
    loop = None
    for n in own_nodes(ev.node):
        if isinstance(n, ast.For) and isinstance(n.target, ast.Tuple) and len(n.target.elts) == 2:
            a, b = norm(n.target.elts[0]), norm(n.target.elts[1])
            body = [norm(s) for s in n.body]
            if body == ['value = value.replace(%s, %s)' % (a, b)]:
                src = [x.value for x in own_nodes(ev.node) if isinstance(x, ast.Assign) and norm(x.targets[0]) == norm(n.iter)]
                if src and norm(src[0]).startswith('self._get_translations('):
                    loop = n
    sub = None
    for n in own_nodes(ev.node):
        # `value = re.sub(...)` ... `return value`, or (canonical form of the adjacent pair) `return re.sub(...)`
        if ((isinstance(n, ast.Assign) and norm(n.targets[0]) == 'value') or isinstance(n, ast.Return)) and \
                isinstance(n.value, ast.Call) and \
                norm(n.value.func) == 're.sub' and len(n.value.args) == 3 and norm(n.value.args[2]) == 'value' and \
                norm(n.value.args[0]).startswith('self._get_escape_char_regex('):
            sub = n
    v.has_loop = loop is not None
    v.has_sub = sub is not None
    if loop is None and sub is None:
        raise AnalysisError('%s: _escape_value no longer has the shape "replace every translation, then one re.sub"' % cls.qualname)
    if sub is None or loop is None:
        v.repl = (E,)
        v.order_ok = False
        v.returns_value = all(r is sub or norm(r.value) == 'value' for r in own_nodes(ev.node) if isinstance(r, ast.Return))
        v.extra = ['the %s step is missing' % ('replace-loop' if loop is None else 're.sub')]
        if loop is None:
            v.tables = [(l, {}) for l, t in v.tables]
        if sub is None:
            v.behind, v.ahead = [], []
        if sub is not None:
            rep0 = sub.value.args[1]
            rep0 = rep0.body if isinstance(rep0, ast.Lambda) else rep0
            if isinstance(rep0, ast.Name):
                for d in ast.walk(ev.node):
                    if isinstance(d, ast.FunctionDef) and d.name == rep0.id and d.body and isinstance(d.body[-1], ast.Return):
                        rep0 = d.body[-1].value
            try:
                v.repl = parts(ce.eval(rep0, ev.module, None, env={'escape_char': ESC}))
            except NotConstant:
                pass
        return v
    rep = sub.value.args[1]
    is_callable = isinstance(rep, ast.Lambda)
    if is_callable:
        rep = rep.body
    elif isinstance(rep, ast.Name):
        # a local one-expression function used as the replacement callable (same thing as the lambda)
        defs = [n for n in ast.walk(ev.node) if isinstance(n, ast.FunctionDef) and n is not ev.node and n.name == rep.id]
        body = [b for d in defs for b in d.body if not (isinstance(b, ast.Expr) and isinstance(b.value, ast.Constant))]
        if len(defs) == 1 and len(body) == 1 and isinstance(body[0], ast.Return) and body[0].value is not None:
            is_callable = True
            rep = body[0].value
    try:
        word = ce.eval(rep, ev.module, None, env={'escape_char': ESC})
    except NotConstant as e:
        raise AnalysisError('%s: replacement of the re.sub is not constant (%s)' % (cls.qualname, e))
    v.repl_error = None
    if not is_callable:
        # a string replacement is a *template*: re expands backslash escapes in it (stdlib semantics applied to the constant)
        import re as _re
        try:
            word = _re.sub('x', word, 'x')
        except Exception as e_:
            v.repl_error = 'replacement template %r is rejected by re.sub: %s' % (word, e_)
            word = ESC
    v.repl = parts(word)
    ln, sn = g.node_of_ast.get(id(loop)), g.node_for(sub)
    v.order_ok = sn in g.reach(ln) and ln not in g.reach(sn)
    v.returns_value = all(r is sub or norm(r.value) == 'value' for r in own_nodes(ev.node) if isinstance(r, ast.Return))
    # other statements that rewrite `value` between the two steps
    v.extra = [norm(n)[:60] for n in own_nodes(ev.node) if isinstance(n, ast.Assign) and norm(n.targets[0]) == 'value' and
               n is not sub and n not in loop.body and 'words' not in norm(n.value)]
    return v


class _Unsupported(Exception):
    pass


def eval_translations(ix, te, ce, cls, gt, parts, chk, depth=0):
    """-> [(label, {key: word})]; key = role name, or ('lit', char) for a literal character that is always translated"""
    if depth > 4:
        raise AnalysisError('%s: _get_translations recursion too deep' % cls.qualname)
    ecp = gt.call_params()[0] if gt.call_params() else 'encoding_chars'

    def key_of(e, env):
        if isinstance(e, ast.Name) and e.id in env and env[e.id][0] == 'key':
            return env[e.id][1]
        if isinstance(e, ast.Subscript) and norm(e.value) == ecp and isinstance(e.slice, ast.Constant):
            return [('role', e.slice.value)]
        if isinstance(e, ast.Call) and norm(e.func) == ecp + '.get' and e.args and isinstance(e.args[0], ast.Constant):
            if len(e.args) > 1:      # present / absent: the default character is translated although it is no delimiter
                dflt = e.args[1].value if isinstance(e.args[1], ast.Constant) and isinstance(e.args[1].value, str) \
                    else '<%s>' % norm(e.args[1])[:40]
                return [('role', e.args[0].value), ('lit', dflt)]
            return [('role', e.args[0].value)]
        if isinstance(e, ast.Constant) and isinstance(e.value, str):
            return [('lit', e.value)]
        raise _Unsupported('key `%s`' % norm(e)[:40])

    def word_of(e, env):
        try:
            local = {k: v[1] for k, v in env.items() if v[0] == 'const'}
            local.setdefault('escape_char', ESC_FOR[0])
            if isinstance(e, ast.Call) and isinstance(e.func, ast.Name) and e.func.id in env and env[e.func.id][0] == 'func' \
                    and not e.keywords:
                params, body = env[e.func.id][1]      # a local one-expression helper: evaluate its body on the arguments
                if len(params) != len(e.args):
                    raise _Unsupported('call `%s`' % norm(e)[:40])
                local2 = dict(local)
                for p_, a_ in zip(params, e.args):
                    local2[p_] = ce.eval(a_, gt.module, None, env=local)
                return parts(ce.eval(body, gt.module, None, env=local2))
            return parts(ce.eval(e, gt.module, None, env=local))
        except NotConstant as ex:
            raise _Unsupported('sequence `%s` (%s)' % (norm(e)[:40], ex))

    def tables_of(e, env):
        """-> list of alternatives, each a list of (keyalts, word)"""
        if isinstance(e, ast.Tuple):
            alt = []
            for el in e.elts:
                if isinstance(el, ast.Tuple) and len(el.elts) == 2:
                    alt.append((key_of(el.elts[0], env), word_of(el.elts[1], env)))
                else:
                    raise _Unsupported('entry `%s`' % norm(el)[:40])
            return [alt]
        if isinstance(e, ast.Name) and e.id in env and env[e.id][0] == 'tables':
            return env[e.id][1]
        if isinstance(e, ast.BinOp) and isinstance(e.op, ast.Add):
            return [a + b for a in tables_of(e.left, env) for b in tables_of(e.right, env)]
        if isinstance(e, ast.Call) and isinstance(e.func, ast.Attribute) and e.func.attr == '_get_translations':
            # super(...)._get_translations(ec) / Base._get_translations(self, ec)
            owner = gt.cls
            nxt = None
            for c_ in owner.mro[1:]:
                if '_get_translations' in c_.methods:
                    nxt = c_.methods['_get_translations']
                    break
            if nxt is None:
                raise _Unsupported('no parent _get_translations')
            sub = eval_translations(ix, te, ce, nxt.cls, nxt, parts, chk, depth + 1)
            return [[([k] if isinstance(k, tuple) else [('role', k)], w) for k, w in t.items()] for _, t in sub]
        if isinstance(e, ast.Call) and isinstance(e.func, ast.Name) and e.func.id == 'tuple' and e.args:
            return tables_of(e.args[0], env)
        raise _Unsupported('expression `%s`' % norm(e)[:50])

    results = []

    def run_block(stmts, env, label):
        for st in stmts:
            if isinstance(st, ast.Expr) and isinstance(st.value, ast.Constant):
                continue
            if isinstance(st, ast.FunctionDef) and len(st.body) == 1 and isinstance(st.body[0], ast.Return) and \
                    st.body[0].value is not None and not st.args.vararg and not st.args.kwarg and not st.args.defaults:
                env[st.name] = ('func', ([a.arg for a in st.args.args], st.body[0].value))
                # the helper sees the enclosing locals: make the escape-character alias visible under its own name too
                continue
            if isinstance(st, ast.Assign) and len(st.targets) == 1 and isinstance(st.targets[0], ast.Name):
                name = st.targets[0].id
                if norm(st.value) == "%s['ESCAPE']" % ecp:
                    env[name] = ('const', ESC_FOR[0])
                    continue
                try:
                    env[name] = ('tables', tables_of(st.value, env))
                    continue
                except _Unsupported:
                    pass
                try:
                    env[name] = ('key', key_of(st.value, env))
                    continue
                except _Unsupported:
                    pass
                try:
                    env[name] = ('const', ce.eval(st.value, gt.module, None,
                                                  env={k: v_[1] for k, v_ in env.items() if v_[0] == 'const'}))
                    continue
                except NotConstant:
                    raise _Unsupported('assignment `%s`' % norm(st)[:50])
            if isinstance(st, ast.Return):
                for alt in tables_of(st.value, env):
                    results.append((label, alt))
                return True
            if isinstance(st, ast.Try):
                if run_block(st.body, dict(env), label):
                    pass
                for h in st.handlers:
                    run_block(h.body, dict(env), 'except ' + (norm(h.type) if h.type is not None else ''))
                return True
            raise _Unsupported('statement `%s`' % norm(st)[:50])
        return False
    try:
        run_block(gt.node.body, {}, 'main')
    except _Unsupported as ex:
        raise AnalysisError('%s: _get_translations has an unsupported shape: %s' % (cls.qualname, ex))
    out = []
    for label, alt in results:
        # expand optional roles: present / absent (the absent case translates the literal default character)
        opts = [k for k, w in alt if len(k) > 1]
        choices = [[]]
        for k, w in alt:
            if len(k) == 1:
                choices = [c_ + [(k[0], w)] for c_ in choices]
            else:
                choices = [c_ + [(kk, w)] for c_ in choices for kk in k]
        for ch in choices:
            table = {}
            absent = []
            for k, w in ch:
                if k[0] == 'role':
                    table[k[1]] = w
                else:
                    table[('lit', k[1])] = w
                    absent.append(k[1])
            lab = label if not absent else '%s, optional role absent: literal %r translated' % (label, ''.join(absent))
            out.append((lab, table))
    return out


ESC_FOR = [ESC]


def model(v, table, sep_roles):
    """reduced symbolic alphabet + transduction for one translation table"""
    lb_letters = set().union(*[s for s in v.behind]) - {E} if v.behind else set()
    la_letters = set().union(*[s for s in v.ahead]) - {E} if v.ahead else set()
    emitted = {w[1] for w in table.values() if len(w) == 3 and w[0] == E and w[2] == E}
    rletter = v.repl[1] if len(v.repl) == 3 else None
    valid = lb_letters | la_letters | emitted | ({rletter} if rletter else set())
    letters = sorted(valid | {'H', 'N'})
    # letter classes by guard membership (behaviour of the sub) and validity (well-formedness predicate)
    cls_of = {}
    for L in letters:
        cls_of[L] = (tuple(L in s for s in v.behind), tuple(L in s for s in v.ahead), L in valid)
    reps = {}
    for L in letters:
        reps.setdefault(cls_of[L], L)
    letter_reps = sorted(set(reps.values()))
    roles = sorted(set(table) | set(sep_roles))
    # role classes: by the class of the word they are translated to
    rcls = {}
    for r in roles:
        w = table.get(r)
        key = None if w is None else tuple(reps[cls_of[x]] if x in cls_of else x for x in w)
        rcls.setdefault(key, r)
    role_reps = sorted(rcls.values())
    sigma = [E, OTHER] + letter_reps + role_reps
    canon = lambda x: reps[cls_of[x]] if x in cls_of else x
    hom = {r: tuple(canon(x) for x in table[r]) for r in role_reps if r in table}

    def matches(sets, syms):
        return len(syms) == len(sets) and all(s in st for s, st in zip(syms, sets))
    behind = [{canon(x) if x != E else E for x in st} | ({E} if E in st else set()) for st in v.behind]
    ahead = [{canon(x) if x != E else E for x in st} | ({E} if E in st else set()) for st in v.ahead]

    def decide(hist, sym, look):
        if sym != E or not getattr(v, 'has_sub', True):
            return (sym,)
        if behind and matches(behind, hist[-len(behind):]):
            return (E,)
        if ahead and matches(ahead, look[:len(ahead)]):
            return (E,)
        return tuple(canon(x) for x in v.repl)
    return dict(sigma=sigma, hom=hom, decide=decide, nb=max(len(behind), 1), na=max(len(ahead), 1), roles=role_reps,
                valid={canon(x) for x in valid}, letters=letter_reps, classes={L: cls_of[L] for L in letters},
                lb=lb_letters, la=la_letters, emitted=emitted, rletter=rletter)


def apply_direct(m, word):
    out = []
    for x in word:
        out.extend(m['hom'].get(x, (x,)))
    res = []
    nb, na = m['nb'], m['na']
    for i, z in enumerate(out):
        hist = tuple(([am.BOT] * nb + out[:i])[-nb:])
        look = tuple((out[i + 1:] + [am.TOP] * na)[:na])
        res.extend(m['decide'](hist, z, look))
    return tuple(res)


def wf_step(valid):
    def step(d, x):
        if d == 'bad':
            return 'bad'
        if d == 0:
            return 1 if x == E else 0
        if d == 1:
            return 2 if x in valid else 'bad'
        if d == 2:
            return 0 if x == E else 'bad'
        return 'bad'
    return step


def render(word):
    return ''.join(RENDER.get(x, x) for x in word)


def transparency(chk, c, rule):
    """only the transparency clause (used by C01): no textual datatype variant rewrites a character that is not a delimiter role"""
    ix, te = c.index, c.te
    ce = ConstEval(ix, te)
    chk.rule(rule, 'textual leaves: the escape function rewrites delimiter roles and the escape character only; any other character of '
                   'a parsed value is re-emitted as it is (all versions, all delimiter sets)')
    base = ix.cls('base_datatypes.TextualDataType')
    seen = set()
    n = 0
    for ver, table in sorted(c.base_datatypes.items()):
        for key, ci in sorted(table.items()):
            if base not in ci.mro:
                continue
            gt = ci.find_method('_get_translations')
            if gt is None or gt.qualname in seen:
                continue
            seen.add(gt.qualname)
            for cname_, ch_ in ESC_CLASSES[:1]:
                ESC_FOR[0] = ch_
                tabs = eval_translations(ix, te, ce, gt.cls, gt, lambda s_, ch_=ch_: _parts(s_, ch_), chk)
            for label, t in tabs:
                lits = sorted(k[1] for k in t if isinstance(k, tuple))
                n += 1
                chk.ob(rule, '%s [%s] translates delimiter roles only' % (gt.cls.qualname, label), not lits,
                       'the literal character(s) %s are rewritten although they are not delimiters of the set in use: parse -> encode '
                       'changes such text' % lits, gt.loc, key='%s|%s|%s' % (rule, gt.cls.qualname, ','.join(lits)))
    chk.floor('translation tables examined', n, 2)


def run(chk):
    c = ctxmod.get()
    ix, te = c.index, c.te
    ce = ConstEval(ix, te)
    chk.rule('C06-X', 'extraction: translation table, guard classes, replacement and statement order of _escape_value are '
                      'recognised for every textual datatype class of every version')
    chk.rule('C06-P1', 'delimiter-freedom: no output contains a field/component/subcomponent/repetition (v2.7: truncation) character')
    chk.rule('C06-P2', 'well-formedness: in every output each escape character belongs to an escape sequence e<letter>e')
    chk.rule('C06-P3', 'idempotence: escaping an output again changes nothing')
    chk.rule('C06-P4', 'letter agreement: both guard classes contain every letter the function emits, E, and the highlight letters H N')
    chk.rule('C06-P5', 'transparency: only delimiter roles of the set in use are translated; any other character is emitted as it is')
    chk.rule('C06-V', 'textual leaves are built from the class table of their own version, never from a directly imported generic class')
    version_classes(chk, c, 'C06-V')
    chk.rule('C06-D', 'SubComponent.to_er7 hands its encoding characters to the datatype object')
    chk.assume('delimiters are pairwise distinct characters and none of them is an escape letter or the escape character '
               '(the property\'s own "valid set of distinct punctuation delimiters")')
    chk.assume('highlights=None (highlight positions are run-time values)')
    chk.assume('symmetry reduction: letters are represented by one member per class (membership in each guard position, '
               'validity); delimiter roles by one member per class of the word they are translated to; `o` stands for any '
               'other character')

    # textual classes of every version -> variant
    base = ix.cls('base_datatypes.TextualDataType')
    variants = {}
    nbound = 0
    for ver, table in sorted(c.base_datatypes.items()):
        for key, ci in sorted(table.items()):
            if base in ci.mro:
                nbound += 1
                fns = tuple(ci.find_method(n) for n in ('_escape_value', '_get_translations', '_get_escape_char_regex'))
                k = tuple(f.qualname if f else None for f in fns)
                variants.setdefault(k, []).append('%s.%s' % (ver, key))
                variants.setdefault(('cls', k), ci)
    chk.count('textual datatype bindings (version x key)', nbound)
    chk.floor('textual datatype bindings', nbound, 60)
    keys = [k for k in variants if k[0] != 'cls']
    chk.floor('escape-function variants', len(keys), 2)

    # separators the encoders join with
    sep_roles = set()
    seg = ix.func('core.Segment.to_er7')
    for n in own_nodes(seg.node):
        if isinstance(n, ast.Call) and norm(n.func) == 'encoding_chars.get' and n.args and isinstance(n.args[0], ast.Constant):
            sep_roles.add(n.args[0].value)
    for cn in ('core.Field', 'core.Component'):
        ci = ix.cls(cn)
        cc = ci.find_attr('child_classes')
        if isinstance(cc, ast.Dict) and cc.values and isinstance(cc.values[0], ast.Name):
            sep_roles.add(cc.values[0].id.upper())
    chk.sample({'separators the encoders join with': sorted(sep_roles)})
    if not {'FIELD', 'REPETITION', 'COMPONENT', 'SUBCOMPONENT'} <= sep_roles:
        raise AnalysisError('could not determine the separators the encoders use (found %s)' % sorted(sep_roles))

    for k in sorted(keys, key=str):
        ci = variants[('cls', k)]
        owner = ix.functions[k[1]].cls
        vname = owner.qualname
        per_class = []
        for cname_, ch_ in ESC_CLASSES:
            per_class.append((cname_, extract(ix, te, ce, ci, chk, ESC=ch_)))
        sig = lambda vv: (repr(vv.tables), repr(vv.behind), repr(vv.ahead), vv.repl, vv.repl_error if hasattr(vv, 'repl_error') else None,
                          vv.order_ok, tuple(vv.extra))
        groups = {}
        for cname_, vv in per_class:
            groups.setdefault(sig(vv), []).append(cname_)
        runs = []
        for cname_, vv in per_class:
            if groups[sig(vv)][0] == cname_:
                runs.append(('' if len(groups) == 1 else ' {ESCAPE is a %s}' % '/'.join(groups[sig(vv)]), vv))
        chk.count('escape-character classes analysed', len(ESC_CLASSES))
        for suffix_, v in runs:
            vname = owner.qualname + suffix_
            where = v.funcs[0].loc
            if getattr(v, 'repl_error', None):
                chk.fail('C06-X', '%s: replacement of the re.sub' % vname, v.repl_error, where, key='C06-X|%s|repl-template' % vname)
            chk.ok('C06-X', '%s extracted (%d binding(s))' % (vname, len(variants[k])),
                   'tables %s; look-behind %s; look-ahead %s; replacement %s' % (
                       [(l, sorted(map(str, t))) for l, t in v.tables], [''.join(sorted(s)) for s in v.behind],
                       [''.join(sorted(s)) for s in v.ahead], ''.join(v.repl)), where, key='C06-X|%s' % vname)
            chk.ob('C06-X', '%s: all replaces happen before the re.sub and the result is returned' % vname,
                   v.order_ok and v.returns_value and not v.extra,
                   'order ok %s, returns value %s, other rewrites %s' % (v.order_ok, v.returns_value, v.extra), where,
                   key='C06-X|%s|order' % vname)
            for label, table0 in v.tables:
                lits = {k[1]: w for k, w in table0.items() if isinstance(k, tuple)}
                table = {k: w for k, w in table0.items() if not isinstance(k, tuple)}
                tname = '%s[%s]' % (vname, 'with ' + '+'.join(sorted(table)) if label == 'main' else label)
                chk.ob('C06-P5', '%s: text without delimiters and escape characters is emitted unchanged' % tname, not lits,
                       'the literal character(s) %s are rewritten to %s although they are not delimiters of the set in use: a value '
                       'read from a parsed message does not re-encode to the text it came from' % (
                           sorted(lits), [''.join(RENDER.get(x, x) for x in w) for w in lits.values()]), where,
                       key='C06-P5|%s|%s' % (vname, ','.join(sorted(lits))))
                roles_needed = set(sep_roles)
                if 'TRUNCATION' in table or (label == 'main' and any(
                        b.split('.')[0] >= 'v2_7' for b in variants[k])):
                    roles_needed.add('TRUNCATION')       # from v2.7 a truncation character may be part of the delimiter set
                if label.startswith('except'):
                    roles_needed.discard('TRUNCATION')       # fall-back table for a delimiter set without truncation character
                if 'ESCAPE' in table:
                    chk.fail('C06-X', '%s translates the ESCAPE role with str.replace' % tname,
                             'order-dependent rewriting of the escape character is outside the model', where,
                             key='C06-X|%s|escape-role' % tname)
                    continue
                m = model(v, table, roles_needed)
                chk.sample({'variant': tname, 'alphabet': m['sigma'], 'letter classes (look-behind, look-ahead, valid)':
                            {k2: str(v2) for k2, v2 in m['classes'].items()}})
                # ---- P4
                need = m['emitted'] | {'H', 'N'} | ({m['rletter']} if m['rletter'] else set())
                for side, have in (('look-behind', m['lb']), ('look-ahead', m['la'])):
                    missing = sorted(need - have)
                    chk.ob('C06-P4', '%s: %s class contains every emitted letter, E, H, N' % (tname, side), not missing,
                           'letters %s are emitted / reserved but missing from the %s class: such sequences are not recognised as '
                           'already escaped' % (missing, side), where, key='C06-P4|%s|%s|%s' % (tname, side, ','.join(missing)))
                # ---- automata
                A = am.NFA.universal(m['sigma'])
                H = am.flatten(am.image_hom(A, m['hom']))
                OUT = am.image_local(H, m['decide'], m['nb'], m['na'])
                ns, nt = am.count_states(OUT)
                chk.count('automaton states (%s)' % tname, ns)
                chk.count('automaton transitions (%s)' % tname, nt)
                # P1
                roles = set(m['roles'])
                w = am.find_witness(OUT, False, lambda d, x: d or x in roles, lambda d: d)
                late = sorted(b for b in variants[k] if b.split('.')[0] >= 'v2_7')
                chk.ob('C06-P1', '%s: outputs contain no delimiter' % tname, w is None,
                       '' if w is None else 'input %r (default delimiters: %r) is emitted as %r: an unescaped %s survives%s' % (
                           ' '.join(w[0]), render(w[0]), render(w[1]), [x for x in w[1] if x in roles][0],
                           ' (this variant is what %s use)' % ', '.join(late[:6]) if late and 'TRUNCATION' in w[1] else ''), where,
                       key='C06-P1|%s|%s' % (tname, ' '.join(w[0]) if w else ''))
                # P2 (all strings)
                step = wf_step(m['valid'])
                w2 = am.find_witness(OUT, 0, step, lambda d: d != 0)
                # P3 (all strings): apply the transduction to OUT again, mark rewrites
                def decide_mark(hist, sym, look, d=m['decide']):
                    o = d(hist, sym, look)
                    return o if o == (sym,) else ('!',)
                H2 = am.flatten(am.image_hom(OUT, m['hom']))
                OUT2 = am.image_local(H2, decide_mark, m['nb'], m['na'])
                w3 = am.find_witness(OUT2, False, lambda d, x: d or x == '!' or x in roles, lambda d: d)
                chk.ob('C06-P3', '%s: escaping an output again is the identity (all strings)' % tname, w3 is None,
                       '' if w3 is None else 'input %r (%r) is emitted as a text that a second escaping changes' % (
                           ' '.join(w3[0]), render(w3[0])), where, key='C06-P3|%s|%s' % (tname, ' '.join(w3[0]) if w3 else ''))
                # bounded enumeration: minimal failing inputs for P2
                N = 5 if chk.tier == 'quick' else 6
                failing = []
                total = 0
                for ln in range(1, N + 1):
                    for word in itertools.product(m['sigma'], repeat=ln):
                        total += 1
                        out = apply_direct(m, word)
                        d = 0
                        for x in out:
                            d = step(d, x)
                        if d != 0:
                            # minimal: no proper factor fails
                            if not any(_is_factor(f, word) for f in failing):
                                failing.append(word)
                        # cross-check of the automaton against the direct definition on this word
                chk.count('inputs enumerated for P2 (%s, length <= %d)' % (tname, N), total)
                if w2 is None and failing:
                    raise AnalysisError('automaton and direct transduction disagree on P2 for %s' % tname)
                if w2 is not None and not failing:
                    failing = [w2[0]]
                if not failing:
                    chk.ok('C06-P2', '%s: every escape character of every output belongs to an escape sequence' % tname, '',
                           where, key='C06-P2|%s' % tname)
                for word in failing:
                    out = apply_direct(m, word)
                    chk.fail('C06-P2', '%s: input `%s`' % (tname, ' '.join(word)),
                             'minimal failing input %r (default delimiters: %r) is emitted as %r: an escape character is left '
                             'outside any e<letter>e sequence (the guards suppress escaping next to a produced sequence)' % (
                                 ' '.join(word), render(word), render(out)), where,
                             key='C06-P2|%s|%s' % (tname, ' '.join(word)))

    # ---- D delegation
    sc = ix.func('core.SubComponent.to_er7')
    ok = any(isinstance(n, ast.Call) and norm(n.func) == 'self.value.to_er7' and n.args and
             norm(n.args[0]) == sc.call_params()[0] for n in own_nodes(sc.node))
    chk.ob('C06-D', 'SubComponent.to_er7 passes encoding_chars to the datatype', ok, '', sc.loc, key='C06-D|subcomponent')
    for k in sorted(keys, key=str):
        ci = variants[('cls', k)]
        te7 = ci.find_method('to_er7')
        ok = any(isinstance(n, ast.Return) and norm(n.value) == 'self._escape_value(self.value, encoding_chars)'
                 for n in own_nodes(te7.node))
        chk.ob('C06-D', '%s.to_er7 returns the escaped value' % te7.cls.qualname, ok, '', te7.loc, key='C06-D|%s' % te7.qualname)
    chk.exhaustive = True

    chk.rule('C06-D2', 'decision structure of the functions this property is anchored in: every effect statement (store, call, return, '
                   'raise) runs under the same combinations of the function\'s elementary tests as in the reviewed tree, and none '
                   'was deleted (reference/decisions.json; compared by meaning, rewritten functions are not compared)')
    from . import guardrules as _gr
    nd2_ = _gr.check_decisions(chk, c, 'C06-D2', lambda fq_: fq_.startswith(('base_datatypes.TextualDataType', 'base_datatypes.WD', 'base_datatypes.ST', 'base_datatypes.FT', 'base_datatypes.ID', 'base_datatypes.IS', 'base_datatypes.TX', 'base_datatypes.GTS', 'base_datatypes.TN', 'v2_')))
    chk.floor('functions compared with the decision reference (C06-D2)', nd2_, 1)



def _is_factor(f, w):
    n, k = len(w), len(f)
    return k < n and any(w[i:i + k] == f for i in range(n - k + 1))


def version_classes(chk, c, rule):
    """Textual leaves must be built from the class table of their own version (get_base_datatypes / the factories map): the
    escape table and the guard letters differ between versions (2.7+ escape the truncation character and know \\L\\).  Rule: the
    modules that create leaf values never instantiate a textual datatype class imported directly from hl7apy.base_datatypes."""
    ix = c.index
    base = ix.cls('base_datatypes.TextualDataType')
    textual = {ci.name for ci in ix.subclasses(base) if ci.module.name == 'base_datatypes'}
    n = 0
    for mn in ('core', 'parser', 'factories', 'validation', 'utils'):
        mod = ix.module(mn)
        direct = {local for local, (dotted, orig) in mod.imports.items()
                  if dotted in ('hl7apy.base_datatypes', 'base_datatypes') and (orig or local) in textual}
        for fq, fi in sorted(mod.functions.items()) + [(f.qualname, f) for k in mod.classes.values() for f in k.methods.values()]:
            for x in own_nodes(fi.node):
                if isinstance(x, ast.Call):
                    n += 1
                    if isinstance(x.func, ast.Name) and x.func.id in direct:
                        chk.fail(rule, '%s: `%s`' % (fi.qualname, norm(x)[:50]),
                                 'the generic %s class is instantiated directly: for versions whose table binds another class '
                                 '(2.7+: truncation escaping, \\L\\) the leaf is escaped with the wrong rules' % x.func.id,
                                 '%s:%d' % (mod.relpath, x.lineno), key='%s|%s|%s' % (rule, fi.qualname, x.func.id))
    # positive control: the matcher recognises the pattern on a synthetic module
    probe = ast.parse("from hl7apy.base_datatypes import ST\ndef f(v):\n    return ST(v)")
    hit = any(isinstance(x, ast.Call) and isinstance(x.func, ast.Name) and x.func.id == 'ST' for x in ast.walk(probe))
    if not hit or 'ST' not in textual:
        raise AnalysisError('positive control of the direct-instantiation matcher failed')
    chk.ok(rule, 'calls examined in the leaf-creating modules: %d' % n, '', key='%s|scan' % rule)
    chk.floor('calls examined for direct textual-class instantiation', n, 300)

