"""C08 -- group-finding is sound, order-preserving and deterministic (narrow: structural necessary conditions of
the search in parser.py; what tree the search produces for a given structure is a run-time result and is declined)."""
import ast

from .. import ctx as ctxmod
from ..cfg import cfg_of, ENTRY, EXIT
from ..src import own_nodes, norm
from ..report import AnalysisError
from . import forwarding


def _stmt_of(node):
    p = node
    while p is not None and not isinstance(p, ast.stmt):
        p = getattr(p, '_parent', None)
    return p


def _block_of(stmt):
    """the statement list that contains stmt"""
    par = getattr(stmt, '_parent', None)
    for field in ('body', 'orelse', 'finalbody'):
        lst = getattr(par, field, None)
        if isinstance(lst, list) and any(s is stmt for s in lst):
            return lst
    return None


GROUP_PARAMS = ('name', 'parent', 'reference', 'version', 'validation_level', 'traversal_parent')


def group_constructions(ps):
    """[(call node, {Group parameter: argument expression})] for every construction of a Group in the function: direct
    `Group(...)` calls, and calls of a module-level factory whose only statement returns `Group(...)` built from its own
    parameters (the arguments are substituted)"""
    from .pat import call_args_by_param
    out = []
    mod = ps.module

    def direct(call):
        b = {}
        for i, a in enumerate(call.args):
            if i < len(GROUP_PARAMS):
                b[GROUP_PARAMS[i]] = a
        for k in call.keywords:
            if k.arg:
                b[k.arg] = k.value
        return b
    for n in own_nodes(ps.node):
        if not isinstance(n, ast.Call):
            continue
        if norm(n.func) == 'Group':
            out.append((n, direct(n)))
        elif isinstance(n.func, ast.Name) and n.func.id in mod.functions:
            f = mod.functions[n.func.id]
            body = [b for b in f.node.body if not (isinstance(b, ast.Expr) and isinstance(b.value, ast.Constant))]
            if len(body) == 1 and isinstance(body[0], ast.Return) and isinstance(body[0].value, ast.Call) and \
                    norm(body[0].value.func) == 'Group':
                inner = direct(body[0].value)
                actual = call_args_by_param(n, f.node, skip_self=False)
                b = {}
                for gp, e in inner.items():
                    b[gp] = actual.get(e.id, e) if isinstance(e, ast.Name) else e
                out.append((n, b))
    return out


def cursor_sources(chk, ps, cursor, stack, rule):
    # the cursor only moves up to its parent or down into a group created for the current segment; the stack is only
    # re-bound to what the search returned: re-entering a group that was already left would reorder segments
    for n in own_nodes(ps.node):
        if not isinstance(n, ast.Assign):
            continue
        tg = n.targets[0]
        names = [norm(e) for e in tg.elts] if isinstance(tg, ast.Tuple) else [norm(tg)]
        vals = list(n.value.elts) if isinstance(tg, ast.Tuple) and isinstance(n.value, ast.Tuple) and \
            len(n.value.elts) == len(names) else [n.value] * len(names)
        for nm, v in zip(names, vals):
            if nm == cursor:
                made = {id(call) for call, _ in group_constructions(ps)}
                ok = (isinstance(v, ast.Constant) and v.value is None) or norm(v) == cursor + '.parent' or (
                    isinstance(v, ast.Name) and any(isinstance(a, ast.Assign) and norm(a.targets[0]) == v.id and
                                                    id(a.value) in made for a in own_nodes(ps.node)))
                chk.ob(rule, 'cursor assignment `%s`' % norm(n)[:60], ok,
                       'the cursor is set from something other than None / its parent / a group created for this segment: a group '
                       'that was already left can be re-entered, which attaches later segments before earlier ones',
                       '%s:%d' % (ps.module.relpath, n.lineno), key='%s|cursor-source|%s' % (rule, norm(v)[:40]))
            if nm == stack:
                ok = isinstance(v, ast.List) or (isinstance(v, ast.Call) and norm(v.func) == '_get_segment_reference')
                chk.ob(rule, 'stack assignment `%s`' % norm(n)[:60], ok,
                       'the reference stack is re-bound from something other than its initial value / the search result',
                       '%s:%d' % (ps.module.relpath, n.lineno), key='%s|stack-source|%s' % (rule, norm(v)[:40]))



def find_cursor_and_stack(ps):
    stack = cursor = None
    for n in own_nodes(ps.node):
        if isinstance(n, ast.Assign) and isinstance(n.value, ast.List) and len(n.value.elts) == 1 and \
                isinstance(n.value.elts[0], ast.Tuple) and 'references' in norm(n.value):
            stack = norm(n.targets[0])
        if isinstance(n, ast.Assign) and isinstance(n.value, ast.Attribute) and n.value.attr == 'parent' and \
                norm(n.targets[0]) == norm(n.value.value):
            cursor = norm(n.targets[0])
    return cursor, stack


def run(chk):
    c = ctxmod.get()
    ix, cg, te = c.index, c.cg, c.te
    ps = ix.func('parser.parse_segments')
    gr = ix.func('parser._get_segment_reference')
    gr_entry = gr
    # the search itself may stand behind a wrapper of that name: follow a direct call that hands both parameters on
    if gr is not None and not any(isinstance(n, (ast.For, ast.While)) for n in own_nodes(gr.node)):
        for n in own_nodes(gr.node):
            if isinstance(n, ast.Call) and isinstance(n.func, ast.Name) and n.func.id in gr.module.functions and \
                    [norm(a) for a in n.args] == gr.params[:len(n.args)] and len(n.args) == len(gr.params):
                gr = gr.module.functions[n.func.id]
                break
    chk.rule('C08-S', 'stack/cursor co-movement: the reference stack is popped exactly where the cursor moves to its parent; '
                      'the cursor moves into a new group only after that group was attached')
    chk.rule('C08-B', 'push/pop balance of the recursive search: a pushed group reference is popped again unless the '
                      'segment was found below it')
    chk.rule('C08-D', 'deterministic ordered search: candidates are visited in structure order (no sets, sorting, dict order)')
    chk.rule('C08-E', 'both modes decode a segment line with the same parser and the same context arguments')
    chk.rule('C08-A', 'groups are created only from (name, reference) pairs on the stack, and the stack holds only '
                      'children declared as groups')

    chk.rule('C08-P', 'the group search keeps no state between calls: where a segment lands depends on the message and its structure, '
                      'not on what the process parsed before')
    from . import codelemmas as _clp
    np_ = _clp.no_process_state(chk, c, 'C08-P', sorted({'parser.parse_segments', gr_entry.qualname, gr.qualname, 'parser.parse_segment',
                                                         'core.Group.parse_children', 'core.Message.parse_children'}),
                                'the group a segment is attached to')
    chk.floor('group-search functions examined for process state', np_, 4)

    # ---- S
    stack = None
    for n in own_nodes(ps.node):
        if isinstance(n, ast.Assign) and isinstance(n.value, ast.List) and len(n.value.elts) == 1 and \
                isinstance(n.value.elts[0], ast.Tuple) and 'references' in norm(n.value):
            stack = norm(n.targets[0])
    if stack is None:
        raise AnalysisError('parse_segments: the reference stack initialisation `[(None, references)]` was not found')
    cursor = None
    for n in own_nodes(ps.node):
        if isinstance(n, ast.Assign) and isinstance(n.value, ast.Attribute) and n.value.attr == 'parent' and \
                norm(n.targets[0]) == norm(n.value.value):
            cursor = norm(n.targets[0])
    if cursor is None:
        raise AnalysisError('parse_segments: the cursor step `x = x.parent` was not found')
    pops = [n for n in own_nodes(ps.node) if isinstance(n, ast.Call) and norm(n.func) == stack + '.pop']
    ups = [n for n in own_nodes(ps.node) if isinstance(n, ast.Assign) and norm(n.targets[0]) == cursor and
           norm(n.value) == cursor + '.parent']
    chk.floor('stack pops in parse_segments', len(pops), 1)
    for p in pops:
        blk = _block_of(_stmt_of(p))
        ok = blk is not None and any(u in blk for u in ups)
        chk.ob('C08-S', 'stack pop moves the cursor up in the same block', ok,
               '`%s.pop()` without `%s = %s.parent` next to it: stack and cursor disagree about the current group' % (
                   stack, cursor, cursor), '%s:%d' % (ps.module.relpath, p.lineno), key='C08-S|pop')
    for u in ups:
        blk = _block_of(u)
        ok = blk is not None and any(_stmt_of(p) in blk for p in pops)
        chk.ob('C08-S', 'cursor step up pops the stack in the same block', ok,
               '`%s = %s.parent` without popping `%s`' % (cursor, cursor, stack), '%s:%d' % (ps.module.relpath, u.lineno),
               key='C08-S|up')
    downs = [n for n in own_nodes(ps.node) if isinstance(n, ast.Assign) and norm(n.targets[0]) == cursor and
             isinstance(n.value, ast.Name)]
    chk.floor('cursor moves into a new group', len(downs), 2)
    for dn in downs:
        gname = dn.value.id
        blk = _block_of(dn)
        i = [k for k, s in enumerate(blk) if s is dn][0]
        before = blk[:i]
        attached = False
        from . import treefacts
        wrappers = treefacts.attach_wrappers(ix, 'parser')
        for s in before:
            for x in ast.walk(s):
                if isinstance(x, ast.Call) and treefacts.is_attach_call(x, wrappers, {gname}):
                    attached = True
        chk.ob('C08-S', 'the cursor enters `%s` only after it was attached' % gname, attached,
               '`%s = %s` is not preceded in its block by attaching `%s` to the result list or the previous cursor' % (
                   cursor, gname, gname), '%s:%d' % (ps.module.relpath, dn.lineno), key='C08-S|down|%d' % len(before))

    cursor_sources(chk, ps, cursor, stack, 'C08-S')

    # ---- N: a recurring non-repeatable member opens a new repetition of the current group
    chk.rule('C08-N', 'a new repetition of the current group is opened when the segment name already occurs among ALL children of '
                      'the current group and its maximum cardinality there is 1')
    rep = None
    same_group = {id(call) for call, bound in group_constructions(ps)
                  if 'name' in bound and norm(bound['name']) == cursor + '.name'}
    for n in own_nodes(ps.node):
        if isinstance(n, ast.If) and any(id(x) in same_group for b in n.body for x in ast.walk(b)):
            rep = n
    if rep is None:
        chk.fail('C08-N', 'repetition branch', 'no branch creates Group(%s.name, ...) any more: a recurring non-repeatable member '
                 'is added to the same group instance' % cursor, ps.loc, key='C08-N|branch')
    else:
        conj = rep.test.values if isinstance(rep.test, ast.BoolOp) and isinstance(rep.test.op, ast.And) else [rep.test]
        member = False
        card = False
        for t in conj:
            if isinstance(t, ast.Compare) and len(t.ops) == 1 and isinstance(t.ops[0], ast.In) and norm(t.left) == 'segment_name':
                r = t.comparators[0]
                if isinstance(r, (ast.ListComp, ast.SetComp, ast.GeneratorExp)) and norm(r.generators[0].iter) == cursor + '.children' \
                        and not r.generators[0].ifs and norm(r.elt).endswith('.name'):
                    member = True
                if norm(r) in (cursor + '.children.indexes',):
                    member = True
            if isinstance(t, ast.Call) and norm(t.func) == 'any' and len(t.args) == 1 and \
                    isinstance(t.args[0], (ast.GeneratorExp, ast.ListComp)) and not t.args[0].generators[0].ifs and \
                    norm(t.args[0].generators[0].iter) == cursor + '.children' and isinstance(t.args[0].elt, ast.Compare) and \
                    isinstance(t.args[0].elt.ops[0], ast.Eq) and \
                    {norm(t.args[0].elt.left).split('.')[-1], norm(t.args[0].elt.comparators[0]).split('.')[-1]} == {'name', 'segment_name'}:
                member = True       # any(c.name == segment_name for c in <cursor>.children)
            if isinstance(t, ast.Compare) and len(t.ops) == 1 and isinstance(t.ops[0], ast.Eq) and \
                    norm(t.left) == cursor + '.repetitions[segment_name][1]' and norm(t.comparators[0]) == '1':
                card = True
        chk.ob('C08-N', 'the recurrence test looks at every child of the current group', member,
               'condition `%s` does not test segment_name against all children of the current group' % norm(rep.test)[:120],
               '%s:%d' % (ps.module.relpath, rep.lineno), key='C08-N|membership')
        chk.ob('C08-N', 'only a non-repeatable member (max cardinality 1) opens a new repetition', card,
               'condition `%s`' % norm(rep.test)[:120], '%s:%d' % (ps.module.relpath, rep.lineno), key='C08-N|cardinality')

    # ---- B
    g = cfg_of(gr)
    sparam = gr.params[1] if len(gr.params) > 1 else None
    if sparam is None:
        raise AnalysisError('_get_segment_reference lost its stack parameter')
    pushes = [nid for nid, nd in g.nodes.items() if nd.kind == 'stmt' and isinstance(nd.ast, ast.Expr) and
              norm(nd.ast.value).startswith(sparam + '.append(')]
    popn = {nid for nid, nd in g.nodes.items() if nd.kind == 'stmt' and norm(nd.ast).startswith(sparam + '.pop(')}
    chk.floor('pushes in _get_segment_reference', len(pushes), 1)
    for pu in pushes:
        # paths from the push to EXIT / the next push that avoid a pop must pass the true edge of `ref is not None`
        def ok_edge(n, d, lab, g=g):
            nd = g.nodes[n]
            if nd.kind == 'test' and norm(nd.ast) in ('ref is not None',) and lab == 'true':
                return False
            if nd.kind == 'test' and norm(nd.ast) in ('ref is None',) and lab == 'false':
                return False
            return lab != 'exc'
        reach = g.reach(pu, avoid=popn, labels_ok=ok_edge)
        bad = EXIT in reach or pu in reach
        chk.ob('C08-B', 'a pushed group reference is popped unless the segment was found', not bad,
               'after `%s` the function can return (or push the next candidate) with the reference still on the stack '
               'although the segment was not found below it' % g.nodes[pu].label[:50],
               '%s:%d' % (gr.module.relpath, g.nodes[pu].lineno), key='C08-B|push')
    # the found reference is returned together with the stack
    rets = [n for n in own_nodes(gr.node) if isinstance(n, ast.Return)]
    ok = all(isinstance(r.value, ast.Tuple) and len(r.value.elts) == 2 and norm(r.value.elts[1]) == sparam for r in rets)
    chk.ob('C08-B', '_get_segment_reference returns (reference, stack)', ok, '', gr.loc, key='C08-B|return')

    # ---- D
    for fi in (gr, ps):
        bad = []
        for n in own_nodes(fi.node):
            if isinstance(n, ast.Call) and isinstance(n.func, ast.Name) and n.func.id in ('set', 'sorted', 'reversed', 'frozenset', 'dict'):
                bad.append(norm(n)[:40])
            if isinstance(n, (ast.Set, ast.SetComp, ast.DictComp)):
                bad.append(norm(n)[:40])
            if isinstance(n, ast.Call) and isinstance(n.func, ast.Attribute) and n.func.attr in ('sort', 'reverse', 'keys', 'values', 'items'):
                bad.append(norm(n)[:40])
        chk.ob('C08-D', '%s visits candidates in list order' % fi.qualname, not bad, 'order-destroying constructs: %s' % bad[:3],
               fi.loc, key='C08-D|%s' % fi.qualname)
    loops = [n for n in own_nodes(gr.node) if isinstance(n, ast.For)]
    its = [norm(l.iter) for l in loops]
    ok = any(t.endswith('[1]') for t in its)
    chk.ob('C08-D', 'the search iterates the children tuple of the structure', ok, 'loops over %s' % its, gr.loc,
           key='C08-D|children-loop')

    # ---- E
    calls = [n for n in own_nodes(ps.node) if isinstance(n, ast.Call) and norm(n.func) == 'parse_segment']
    chk.floor('parse_segment calls in parse_segments', len(calls), 2)
    sigs = {tuple(norm(a) for a in cl.args[:4]) for cl in calls}
    chk.ob('C08-E', 'both modes call parse_segment with the same text / version / encoding_chars / validation_level', len(sigs) == 1,
           'the calls differ in their first four arguments: %s' % sorted(sigs), ps.loc, key='C08-E|parse_segment')

    # ---- A
    groups = group_constructions(ps)
    chk.floor('Group constructions in parse_segments', len(groups), 2)
    for gc, bound in groups:
        name = norm(bound['name']) if 'name' in bound else None
        ref = norm(bound['reference']) if 'reference' in bound else None
        ok = False
        if name and ref:
            m1 = name.endswith('[0]') and ref.endswith('[1]') and name[:-3] == ref[:-3]
            m2 = name.endswith('.name') and ref.endswith('.reference') and name[:-5] == ref[:-10]
            ok = m1 or m2
        chk.ob('C08-A', 'Group(%s, reference=%s) pairs a name with its own reference' % (name, ref), ok,
               'the group is created with a name and a reference that do not come from the same stack entry / element',
               '%s:%d' % (ps.module.relpath, gc.lineno), key='C08-A|Group|%s' % name)
    ok = False
    for n in own_nodes(gr.node):
        if isinstance(n, ast.Call) and norm(n.func) == sparam + '.append' and n.args and isinstance(n.args[0], ast.Tuple):
            el = [norm(e) for e in n.args[0].elts]
            if len(el) == 2 and el[0].endswith('[0]') and el[1].endswith('[1]') and el[0][:-3] == el[1][:-3]:
                var = el[0][:-3]
                # var iterates a list filled only with children tagged 'GRP'
                for l in loops:
                    if norm(l.target) == var:
                        src = norm(l.iter)
                        fills = [x for x in own_nodes(gr.node) if isinstance(x, ast.Call) and norm(x.func) == src + '.append']
                        good = bool(fills)
                        for f_ in fills:
                            b = forwarding.branch_context(f_)
                            if "== 'GRP'" not in b:
                                good = False
                        ok = good
    chk.ob('C08-A', 'the stack receives only children declared as groups', ok,
           'a stack entry is pushed that does not come from a child tagged GRP of the current structure', gr.loc,
           key='C08-A|push-source')
    chk.assume('narrow claim: these are necessary conditions of a sound search; that the tree is the one the structure '
               'prescribes is a run-time result and is not decided')

    chk.rule('C08-T', 'the group structures of a version embed that version\'s own segment definitions (no table module imports '
                      'another version\'s tables): otherwise the tree found with group-finding on differs from the flat parse')
    from . import tablerules
    tablerules.own_package_imports(chk, ix.root, 'C08-T')

    # ---- G: group finding is actually in force on the element-side entry point
    chk.rule('C08-G', 'Message.parse_children hands the text to Group.parse_children only for a message whose structure is '
                      'known: on the unnamed-message path the structure is adopted (_find_structure) before parsing; '
                      'Group.parse_children silently parses flat (find_groups=False) when self.reference is missing')
    from ..cfg import ENTRY
    gp = ix.func('core.Group.parse_children')
    fallback = any(isinstance(n, ast.ExceptHandler) and n.type is not None and 'AttributeError' in norm(n.type) and
                   any(isinstance(x, ast.Constant) and x.value is False for x in ast.walk(n)) for n in own_nodes(gp.node))
    chk.count('Group.parse_children has the silent flat-parse fallback', int(fallback))
    mp = ix.func('core.Message.parse_children')
    g = cfg_of(mp)
    sup = [n for n in own_nodes(mp.node) if isinstance(n, ast.Call) and isinstance(n.func, ast.Attribute) and
           n.func.attr == 'parse_children' and norm(n.func.value).startswith(('super(', 'Group'))]
    adopt = [n for n in own_nodes(mp.node) if isinstance(n, ast.Call) and isinstance(n.func, ast.Attribute) and
             n.func.attr == '_find_structure' and norm(n.func.value) == 'self']
    if not sup:
        raise AnalysisError('Message.parse_children: the delegation to Group.parse_children was not recognised')
    if not fallback:
        chk.ok('C08-G', 'Message.parse_children adopts the structure before parsing',
               'Group.parse_children no longer falls back silently; nothing to require', mp.loc, key='C08-G|adopt')
    else:
        adopt_nodes = {g.node_for(n) for n in adopt}

        def labels_ok(src, dst, lab):
            if lab == 'exc':
                return False
            nd = g.nodes[src]
            if nd.kind == 'test':
                t = norm(nd.ast)
                if t == 'self.is_unknown()' and lab == 'false':
                    return False
                if t in ('not self.is_unknown()', 'self.name is not None', 'self.name') and lab == 'true':
                    return False
                if t == 'self.name is None' and lab == 'false':
                    return False
            return True
        reach = g.reach(ENTRY, avoid=adopt_nodes, labels_ok=labels_ok)
        bad = [s for s in sup if g.node_for(s) in reach]
        chk.ob('C08-G', 'Message.parse_children adopts the structure before parsing', not bad,
               'the text of a still unnamed message reaches Group.parse_children before _find_structure(): self.reference '
               'does not exist yet, the AttributeError fallback parses with find_groups=False and every segment is attached '
               'directly under the message', '%s:%d' % (mp.module.relpath, (bad or sup)[0].lineno), key='C08-G|adopt')

    chk.rule('C08-D2', 'decision structure of the functions this property is anchored in: every effect statement (store, call, return, '
                   'raise) runs under the same combinations of the function\'s elementary tests as in the reviewed tree, and none '
                   'was deleted (reference/decisions.json; compared by meaning, rewritten functions are not compared)')
    from . import guardrules as _gr
    nd2_ = _gr.check_decisions(chk, c, 'C08-D2', lambda fq_: fq_.startswith(('core.Group.', 'parser.parse_segments', 'parser._get_segment_reference')))
    chk.floor('functions compared with the decision reference (C08-D2)', nd2_, 1)
