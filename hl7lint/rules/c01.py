"""C01 -- ER7 parse -> encode is the identity on canonical messages (partial: five structural necessary conditions;
the round trip of datatype objects and trailing-empty trimming are run-time values and are declined)."""
from .. import ctx as ctxmod
from .. import tables
from . import tablerules, codelemmas, forwarding


def run(chk):
    c = ctxmod.get()
    vts = tables.load_all(c.index.root)
    chk.floor('version packages', len(vts), 12)
    codelemmas.separators(chk, c, 'C01-S')
    tablerules.t2_rank(chk, vts)         # C01-T: a position out of rank is re-emitted at another index
    codelemmas.ordinal_naming(chk, c, 'C01-N')
    codelemmas.encoder_order(chk, c, 'C01-N2')
    codelemmas.msh_pairing(chk, c, 'C01-M')
    codelemmas.verbatim_flow(chk, c, 'C01-V')
    chk.rule('C01-F', 'parsers and encoders pass the element\'s own HL7 version to everything that interprets a datatype or a '
                      'structure (otherwise messages of a non-default version are decoded / encoded with the default version\'s tables)')
    n = forwarding.check_forwarding(chk, c, 'C01-F', ('version',), check_own=True,
                                    only_callers=lambda fq: fq.split('.')[0] in ('core', 'parser', 'validation', 'factories'))
    chk.floor('call sites taking a version', n, 100)
    from . import c06
    c06.transparency(chk, c, 'C01-E')
    chk.rule('C01-R', 'field repetitions are positional: every piece of a split on the repetition separator is parsed and attached')
    from . import c03
    c03.repetition_pieces(chk, c, 'C01-R')
    chk.assume('datatype objects re-encode their own text (TM/DTM %f slicing, Decimal printing, strftime) -- run-time values, declined')
    chk.assume('trailing-empty trimming versus the canonical form is value dependent, declined')
    chk.exhaustive = True

    chk.rule('C01-D', 'decision structure of the functions this property is anchored in: every effect statement (store, call, return, '
                   'raise) runs under the same combinations of the function\'s elementary tests as in the reviewed tree, and none '
                   'was deleted (reference/decisions.json; compared by meaning, rewritten functions are not compared)')
    from . import guardrules as _gr
    nd2_ = _gr.check_decisions(chk, c, 'C01-D', lambda fq_: fq_.startswith(('parser.parse_segment', 'parser.parse_field', 'parser.parse_component', 'parser.parse_subcomponent')))
    chk.floor('functions compared with the decision reference (C01-D)', nd2_, 1)
    from . import memo as _memo
    _memo.wire(chk, c, 'C01-M', lambda fi: fi.module.name not in ('validation', 'mllp'), 'the parser / encoder modules')
