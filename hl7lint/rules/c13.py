"""C13 -- base datatype values (narrow): what the pre-validator in utils.py can hand to the DT/TM/DTM constructors is
accepted by them (offset language, microsecond precision interval, format sets); the STRICT length guard is reached with the
caller's level.  Whether acceptance equals the HL7 lexical definition, and text preservation, are semantics of
strptime/Decimal/int over run-time values and are declined."""
import ast
import itertools
try:
    import re._parser as sre_parse
except ImportError:      # pragma: no cover
    import sre_parse

from .. import ctx as ctxmod
from ..consteval import ConstEval, NotConstant
from ..src import own_nodes, norm
from ..report import AnalysisError
from . import forwarding


def enum_regex(items, limit=100000):
    """finite language of a regex AST fragment (list of (op, arg)); raises on unbounded constructs"""
    res = ['']
    for op, arg in items:
        op = str(op)
        if op == 'LITERAL':
            alts = [chr(arg)]
        elif op == 'IN':
            alts = []
            for o2, a2 in arg:
                if str(o2) == 'LITERAL':
                    alts.append(chr(a2))
                elif str(o2) == 'RANGE':
                    alts.extend(chr(x) for x in range(a2[0], a2[1] + 1))
                else:
                    raise AnalysisError('unsupported class member %s' % o2)
        elif op == 'SUBPATTERN':
            alts = enum_regex(list(arg[-1]), limit)
        elif op == 'BRANCH':
            alts = []
            for br in arg[1]:
                alts.extend(enum_regex(list(br), limit))
        elif op in ('MAX_REPEAT', 'MIN_REPEAT'):
            lo, hi, sub = arg
            if str(hi) == 'MAXREPEAT' or hi > 4:
                raise AnalysisError('unbounded repetition inside the offset group')
            base = enum_regex(list(sub), limit)
            alts = []
            for k in range(lo, hi + 1):
                alts.extend(''.join(p) for p in itertools.product(base, repeat=k))
        else:
            raise AnalysisError('unsupported regex element %s' % op)
        res = [a + b for a in res for b in alts]
        if len(res) > limit:
            raise AnalysisError('offset language too large')
    return res


def if_chain_formats(fi):
    """{length: format}: a format-string constant that is assigned or returned on a path that passed `len(<param>) == k`
    (as a statement-level test or as a conjunct of one).  Decided on path conditions, so `fmt = ..` chains, early returns
    and reordered chains give the same table."""
    from ..cfg import cfg_of
    from .. import pathcond
    g = cfg_of(fi)
    p0 = fi.params[0] if fi.params else 'value'
    out = {}
    for n in own_nodes(fi.node):
        consts = []
        if isinstance(n, ast.Assign) and isinstance(n.value, ast.Constant) and isinstance(n.value.value, str):
            consts = [n.value.value]
        elif isinstance(n, ast.Return) and n.value is not None:
            v = n.value.elts[0] if isinstance(n.value, ast.Tuple) and n.value.elts else n.value
            if isinstance(v, ast.Constant) and isinstance(v.value, str):
                consts = [v.value]
        consts = [c_ for c_ in consts if '%' in c_]
        if not consts:
            continue
        nid = g.node_for(n)
        if nid is None:
            continue
        for conds in pathcond.conditions(g, nid):
            lens = set()

            def atom(t, pol):
                if pol and isinstance(t, ast.Compare) and len(t.ops) == 1 and isinstance(t.ops[0], ast.Eq):
                    l_, r_ = t.left, t.comparators[0]
                    if norm(l_) == 'len(%s)' % p0 and isinstance(r_, ast.Constant):
                        lens.add(r_.value)
                    if norm(r_) == 'len(%s)' % p0 and isinstance(l_, ast.Constant):
                        lens.add(l_.value)
                return False
            for t, o in conds:
                pathcond.outcome_implies(t, o, atom)
            if len(lens) == 1:
                out[lens.pop()] = consts[0]
    return out


def run(chk):
    c = ctxmod.get()
    ix, te, cg = c.index, c.te, c.cg
    ce = ConstEval(ix, te)
    utils = ix.module('utils')
    bd = ix.module('base_datatypes')
    chk.rule('C13-O', 'every offset the pre-validator can split off (capture group of the _split_offset regex, enumerated) is '
                      'accepted by TM.__init__ (length 5, sign, HHMM digits, hour bound per sign)')
    chk.rule('C13-P', 'the microsecond precision computed by _get_timestamp_format lies in the interval TM.__init__ accepts')
    chk.rule('C13-F', 'every format string utils can return is in allowed_formats of DT / TM / DTM')
    chk.rule('C13-L', 'the STRICT length guard is reached with the caller\'s level (constructor chains and the TOLERANT fallback)')

    # ---- O
    so = ix.func('utils._split_offset')
    pat = None
    for n in own_nodes(so.node):
        if isinstance(n, ast.Call) and norm(n.func) in ('re.search', 're.match') and n.args and isinstance(n.args[0], ast.Constant):
            pat = n.args[0].value
    if pat is None:
        raise AnalysisError('_split_offset: regex not found')
    tree = list(sre_parse.parse(pat))
    grp = None
    for op, arg in tree:
        if str(op) == 'SUBPATTERN' and arg[0] == 1:
            grp = list(arg[-1])
    if grp is None:
        raise AnalysisError('_split_offset: capture group 1 not found in %r' % pat)
    mvars = {t.id for n in own_nodes(so.node) if isinstance(n, ast.Assign) and isinstance(n.value, ast.Call) and
             norm(n.value.func) in ('re.search', 're.match') for t in n.targets if isinstance(t, ast.Name)}
    uses_g1 = any(isinstance(n, ast.Subscript) and norm(n) in {'%s.groups()[0]' % v for v in mvars} for n in own_nodes(so.node)) or \
        any(norm(n) in {'%s.group(1)' % v for v in mvars} for n in own_nodes(so.node) if isinstance(n, ast.Call))
    if not uses_g1:
        raise AnalysisError('_split_offset no longer returns capture group 1')
    offsets = sorted(set(enum_regex(grp)))
    chk.count('offsets enumerated from the regex', len(offsets))
    tm = ix.func('base_datatypes.TM.__init__')
    # read the constructor's guards
    want_len = None
    bounds = {}
    signs = None
    fmt_ok = False
    # the guards stand in the constructor or in a module-level helper that the constructor hands the offset to
    guard_srcs = [(tm, 'offset')]
    for n in own_nodes(tm.node):
        if isinstance(n, ast.Call) and isinstance(n.func, ast.Name) and n.func.id in tm.module.functions and \
                tm.module.functions[n.func.id].cls is None:
            callee = tm.module.functions[n.func.id]
            ps = [a.arg for a in callee.node.args.args]
            for i, a in enumerate(n.args):
                if norm(a) == 'offset' and i < len(ps):
                    guard_srcs.append((callee, ps[i]))
            for k in n.keywords:
                if norm(k.value) == 'offset' and k.arg in ps:
                    guard_srcs.append((callee, k.arg))
    for gfi, ov in guard_srcs:
      for n in own_nodes(gfi.node):
        if isinstance(n, ast.Compare) and norm(n.left) == 'len(%s)' % ov and isinstance(n.ops[0], ast.NotEq):
            want_len = n.comparators[0].value
        if isinstance(n, ast.BoolOp) and isinstance(n.op, ast.And) and len(n.values) == 2:
            a, b = n.values
            if isinstance(a, ast.Compare) and norm(a.left) == '%s[0]' % ov and isinstance(a.comparators[0], ast.Constant) and \
                    isinstance(b, ast.Compare) and norm(b.left) == 'd.hour' and isinstance(b.ops[0], ast.Gt):
                bounds[a.comparators[0].value] = b.comparators[0].value
        if isinstance(n, ast.Compare) and norm(n.left) == '%s[0]' % ov and isinstance(n.ops[0], ast.NotIn):
            signs = {e.value for e in n.comparators[0].elts}
        if isinstance(n, ast.Call) and norm(n.func) == 'datetime.strptime' and len(n.args) == 2 and \
                norm(n.args[0]) == '%s[1:]' % ov and isinstance(n.args[1], ast.Constant) and n.args[1].value == '%H%M':
            fmt_ok = True
    if want_len is None or not bounds or signs is None or not fmt_ok:
        raise AnalysisError('TM.__init__: offset guards not recognised (len %s, bounds %s, signs %s, strptime %s)' % (
            want_len, bounds, signs, fmt_ok))

    def accepted(o):
        if len(o) != want_len or o[0] not in signs:
            return False
        hh, mm = o[1:3], o[3:5]
        if not (hh.isdigit() and mm.isdigit() and len(o[1:]) == 4):
            return False
        if not (0 <= int(hh) <= 23 and 0 <= int(mm) <= 59):
            return False
        return int(hh) <= bounds.get(o[0], 23)
    bad = [o for o in offsets if not accepted(o)]
    chk.ob('C13-O', 'offset language of utils._split_offset is accepted by TM.__init__ (%d offsets)' % len(offsets), not bad,
           'utils hands the constructor %s, which it refuses with InvalidDateOffset (a non-ValueError exception escapes '
           'datatype_factory: rejected under TOLERANT, wrong exception under STRICT)' % bad[:5], so.loc,
           key='C13-O|%s' % ','.join(bad[:3]))
    chk.sample({'offsets': offsets[:3] + offsets[-3:], 'constructor bounds': bounds})

    # ---- P
    gtf = ix.func('utils._get_timestamp_format')
    lo = hi = sub = None
    default = None

    def len_of_value(e):
        """e is len(value) -> 0, len(value[c:]) -> c, else None"""
        if isinstance(e, ast.Call) and norm(e.func) == 'len' and len(e.args) == 1:
            a = e.args[0]
            if norm(a) == 'value':
                return 0
            if isinstance(a, ast.Subscript) and norm(a.value) == 'value' and isinstance(a.slice, ast.Slice) and \
                    a.slice.upper is None and a.slice.step is None and isinstance(a.slice.lower, ast.Constant):
                return a.slice.lower.value
        return None
    for n in own_nodes(gtf.node):
        if isinstance(n, ast.Compare) and len(n.ops) == 2 and len_of_value(n.comparators[0]) is not None and \
                isinstance(n.left, ast.Constant) and isinstance(n.comparators[1], ast.Constant) and \
                isinstance(n.ops[0], ast.LtE) and isinstance(n.ops[1], ast.LtE):
            off = len_of_value(n.comparators[0])
            lo, hi = n.left.value + off, n.comparators[1].value + off       # bounds on len(value)
        if isinstance(n, ast.Assign) and norm(n.targets[0]) == 'microsec':
            if isinstance(n.value, ast.BinOp) and isinstance(n.value.op, ast.Sub) and norm(n.value.left) == 'len(value)' and \
                    isinstance(n.value.right, ast.Constant):
                sub = n.value.right.value
            elif len_of_value(n.value) is not None:
                sub = len_of_value(n.value)
            elif isinstance(n.value, ast.Constant):
                default = n.value.value
    # the fractional format is chosen only for HHMMSS.<digits>: the dot is at index 6 on every path that selects it
    from .. import pathcond
    from ..cfg import cfg_of as _cfg
    g_ts = _cfg(gtf)
    if sub is None or default is None:
        # the same by meaning: the second item of what each path returns (temporaries substituted)
        try:
            subs_, defaults_ = set(), set()
            for _conds, rv in pathcond.returns_on_paths(g_ts):
                if isinstance(rv, ast.Tuple) and len(rv.elts) == 2:
                    pv = rv.elts[1]
                    if isinstance(pv, ast.Constant) and isinstance(pv.value, int):
                        defaults_.add(pv.value)
                    elif isinstance(pv, ast.BinOp) and isinstance(pv.op, ast.Sub) and len_of_value(pv.left) == 0 and \
                            isinstance(pv.right, ast.Constant):
                        subs_.add(pv.right.value)
                    elif len_of_value(pv) is not None:
                        subs_.add(len_of_value(pv))
                    else:
                        subs_.add(None)
            if len(subs_) == 1 and None not in subs_ and len(defaults_) == 1:
                sub, default = subs_.pop(), defaults_.pop()
        except pathcond.Unknown:
            pass
    fsel = [n for n in own_nodes(gtf.node) if isinstance(n, (ast.Assign, ast.Return)) and n.value is not None and
            any(isinstance(x, ast.Constant) and isinstance(x.value, str) and '%f' in x.value for x in ast.walk(n.value))]
    if not fsel:
        raise AnalysisError('_get_timestamp_format: no statement selects a fractional (%f) format')
    p0 = gtf.params[0]
    paths_f = []
    for n in fsel:
        paths_f += pathcond.conditions(g_ts, g_ts.node_for(n))
    dot6 = pathcond.every_path_requires(paths_f, lambda t, pol: pol and isinstance(t, ast.Compare) and len(t.ops) == 1 and
                                        isinstance(t.ops[0], ast.Eq) and {norm(t.left), norm(t.comparators[0])} == {'%s[6]' % p0, "'.'"})
    chk.ob('C13-P', 'the fractional format is selected only when the dot is the seventh character (HHMMSS.f)', dot6,
           'a fractional-seconds format is chosen without `%s[6] == \'.\'` on every path: strptime then accepts bodies with fewer than '
           'six digits before the dot (one-digit hours / minutes) and the value is re-encoded as different text' % p0,
           '%s:%d' % (gtf.module.relpath, fsel[0].lineno), key='C13-P|dot-position')
    if dot6 and (lo is None or hi is None):
        # the length interval by meaning: lengths for which some path to the fractional format is taken (dot tests true)
        try:
            lenv = 'len(%s)' % p0
            atoms_ = {norm(x): True for conds_ in paths_f for t_, _o in conds_ for x in ast.walk(t_)
                      if isinstance(x, ast.Compare) and "'.'" in norm(x)}
            if atoms_:
                sat = [L for L in range(0, 40) if pathcond.holds(paths_f, {lenv: L}, atoms_)]
                if sat and sat == list(range(sat[0], sat[-1] + 1)) and sat[-1] < 39:
                    lo, hi = sat[0], sat[-1]
        except pathcond.Unknown:
            pass
    if None in (lo, hi, sub, default):
        if not dot6:
            return              # already reported; the interval arithmetic below presupposes the positional form
        raise AnalysisError('_get_timestamp_format: precision arithmetic not recognised (%s)' % ((lo, hi, sub, default),))
    plo = phi = None
    for n in own_nodes(tm.node):
        if isinstance(n, ast.Compare) and len(n.ops) == 2 and norm(n.comparators[0]) == 'microsec_precision' and \
                isinstance(n.left, ast.Constant) and isinstance(n.comparators[1], ast.Constant):
            plo, phi = n.left.value, n.comparators[1].value
    if plo is None:
        raise AnalysisError('TM.__init__: precision guard not recognised')
    produced = {lo - sub, hi - sub, default}
    ok = all(plo <= p <= phi for p in range(lo - sub, hi - sub + 1)) and plo <= default <= phi
    chk.ob('C13-P', 'precision %d..%d (default %d) lies in the accepted interval %d..%d' % (lo - sub, hi - sub, default, plo, phi), ok,
           'utils can produce a microsecond precision outside what TM.__init__ accepts (InvalidMicrosecondsPrecision escapes)',
           gtf.loc, key='C13-P|interval')
    # the %f slicing in TM.to_er7 uses 6 - precision
    te7 = ix.func('base_datatypes.TM.to_er7')
    ok = any(isinstance(n, ast.Assign) and norm(n.value) == '6 - self.microsec_precision' for n in own_nodes(te7.node))
    chk.ob('C13-P', 'TM.to_er7 trims %f (6 digits) to the stored precision', ok, '', te7.loc, key='C13-P|trim')

    # ---- F
    gdf = ix.func('utils._get_date_format')
    dfm = if_chain_formats(gdf)
    tfm = if_chain_formats(gtf)
    frac = [x.value for n in own_nodes(gtf.node) if isinstance(n, (ast.Assign, ast.Return)) and n.value is not None
            for x in ast.walk(n.value) if isinstance(x, ast.Constant) and isinstance(x.value, str) and '%f' in x.value]
    tset = set(tfm.values()) | set(frac)
    if len(dfm) < 3 or len(tset) < 4:
        raise AnalysisError('utils format chains not recognised: %s / %s' % (dfm, tset))

    def allowed(clsname):
        ci = bd.classes.get(clsname)
        v = ci.find_attr('allowed_formats') if ci else None
        try:
            return set(ce.eval(v, bd)) if v is not None else None
        except NotConstant:
            return None
    for clsname, produced_f in (('DT', set(dfm.values())), ('TM', tset)):
        al = allowed(clsname)
        if al is None:
            raise AnalysisError('%s.allowed_formats is not a constant tuple' % clsname)
        miss = sorted(produced_f - al)
        chk.ob('C13-F', 'formats utils produces for %s are allowed by the class' % clsname, not miss,
               'utils can return %s, which %s.__init__ refuses with InvalidDateFormat' % (miss, clsname), gdf.loc,
               key='C13-F|%s|%s' % (clsname, ','.join(miss)))
    gdi = ix.func('utils.get_datetime_info')
    slices = {norm(n) for n in own_nodes(gdi.node) if isinstance(n, ast.Subscript) and isinstance(n.slice, ast.Slice)}
    from .pat import concat_parts, inline_locals
    # the format handed to strptime / returned is <date format><time format>, in this order, nothing in between
    dvar = {norm(t) for n in own_nodes(gdi.node) if isinstance(n, ast.Assign) and isinstance(n.value, ast.Call) and
            norm(n.value.func) == '_get_date_format' for t in n.targets}
    tvar = set()
    for n in own_nodes(gdi.node):
        if isinstance(n, ast.Assign) and isinstance(n.value, ast.Call) and norm(n.value.func) == '_get_timestamp_format' and \
                isinstance(n.targets[0], ast.Tuple):
            tvar.add(norm(n.targets[0].elts[0]))
    fmtcat = False
    for n in own_nodes(gdi.node):
        cp = concat_parts(n) if isinstance(n, (ast.JoinedStr, ast.BinOp, ast.Call)) else None
        if cp and len(cp) == 2 and norm(cp[0]) in dvar and norm(cp[1]) in tvar:
            fmtcat = True
    empty_ok = any(isinstance(n, ast.Assign) and isinstance(n.value, ast.Tuple) and len(n.value.elts) == 2 and
                   isinstance(n.value.elts[0], ast.Constant) and n.value.elts[0].value == '' for n in own_nodes(gdi.node))
    # what the two format helpers are given: <text>[:8] and <text>[8:] of one and the same text
    def arg_slice(fname):
        out_ = set()
        for n in own_nodes(gdi.node):
            if isinstance(n, ast.Call) and norm(n.func) == fname and len(n.args) == 1:
                a = inline_locals(n.args[0], gdi.node)
                if isinstance(a, ast.Subscript) and isinstance(a.slice, ast.Slice) and a.slice.step is None:
                    lo_ = a.slice.lower.value if isinstance(a.slice.lower, ast.Constant) else None if a.slice.lower is None else '?'
                    hi_ = a.slice.upper.value if isinstance(a.slice.upper, ast.Constant) else None if a.slice.upper is None else '?'
                    out_.add((norm(a.value), lo_, hi_))
                else:
                    out_.add((norm(a), '?', '?'))
        return out_
    dsl, tsl = arg_slice('_get_date_format'), arg_slice('_get_timestamp_format')
    sliced_ok = len(dsl) == 1 and len(tsl) == 1 and list(dsl)[0][1:] == (None, 8) and list(tsl)[0][1:] == (8, None) and \
        list(dsl)[0][0] == list(tsl)[0][0]
    if not (sliced_ok and fmtcat):
        raise AnalysisError('get_datetime_info: the slicing date_value[:8] / date_value[8:] and the format concatenation were not '
                            'recognised; the DTM instance cannot be decided (the DT and TM instances stand)')
    cut = 8
    if cut not in dfm:
        raise AnalysisError('get_datetime_info slices 8 characters but _get_date_format has no 8-character format')
    # slice-length axioms: len(a[:8]) = min(len a, 8); a[8:] non-empty => len(a[:8]) = 8
    dtm_formats = set(dfm.values()) if empty_ok else set()
    dtm_formats |= {dfm[cut] + t for t in tset}
    al = allowed('DTM')
    miss = sorted(dtm_formats - al)
    chk.ob('C13-F', 'formats utils produces for DTM are allowed by the class (%d formats)' % len(dtm_formats), not miss,
           'utils can return %s, which DTM.__init__ refuses' % miss, gdi.loc, key='C13-F|DTM|%s' % ','.join(miss))
    chk.assume('slice-length axioms: len(a[:8]) = min(len(a), 8) and a[8:] non-empty implies len(a[:8]) = 8')
    # every class forwards the format / offset / precision it was given
    for clsname in ('DT', 'TM', 'DTM'):
        fi = ix.func('base_datatypes.%s.__init__' % clsname)
        sup = [n for n in own_nodes(fi.node) if isinstance(n, ast.Call) and isinstance(n.func, ast.Attribute) and
               n.func.attr == '__init__']
        ok = bool(sup) and all('out_format' in [norm(a) for a in s.args] for s in sup)
        chk.ob('C13-F', '%s.__init__ forwards out_format to the format check' % clsname, ok, '', fi.loc, key='C13-F|forward|%s' % clsname)
    for fq, want in (('factories.date_factory', 2), ('factories.timestamp_factory', 4), ('factories.datetime_factory', 4)):
        fi = ix.func(fq)
        calls = [n for n in own_nodes(fi.node) if isinstance(n, ast.Call) and norm(n.func) == 'datatype_cls']
        ok = bool(calls) and all(len(cl.args) == want for cl in calls)
        chk.ob('C13-F', '%s passes everything utils computed (%d values) to the constructor' % (fq, want), ok, '', fi.loc,
               key='C13-F|factory|%s' % fq)

    # ---- E: conversion failures surface as ValueError, which is what the TOLERANT fallback catches
    chk.rule('C13-E', 'every exception a value conversion can raise is turned into ValueError before it reaches datatype_factory, '
                      'whose only fallback handler is `except ValueError` (STRICT re-raises, TOLERANT keeps the text as ST)')
    df = ix.func('factories.datatype_factory')
    hv = [h for n in own_nodes(df.node) if isinstance(n, ast.Try) for h in n.handlers if h.type is not None and norm(h.type) == 'ValueError']
    ok = False
    if hv:
        h = hv[0]
        reraise = any(isinstance(x, ast.If) and 'is_strict' in norm(x.test) and any(isinstance(y, ast.Raise) for y in x.body) for x in h.body)
        fallback = any(isinstance(x, ast.Return) and "factories['ST']" in norm(x.value) for x in h.body)
        ok = reraise and fallback
    chk.ob('C13-E', 'datatype_factory: ValueError is re-raised under STRICT and becomes an ST value under TOLERANT', ok, '', df.loc,
           key='C13-E|fallback')
    nf = ix.func('factories.numeric_factory')
    ok = any(isinstance(n, ast.ExceptHandler) and n.type is not None and 'InvalidOperation' in norm(n.type) and
             any(isinstance(x, ast.Raise) and norm(x.exc).startswith('ValueError(') for x in ast.walk(n)) for n in own_nodes(nf.node))
    chk.ob('C13-E', 'numeric_factory maps decimal.InvalidOperation to ValueError', ok,
           'Decimal(value) raises InvalidOperation for non-numeric text; unmapped it escapes the TOLERANT fallback', nf.loc, key='C13-E|NM')
    sf = ix.func('factories.sequence_id_factory')
    ok = any(isinstance(n, ast.Call) and norm(n.func) == 'int' for n in own_nodes(sf.node)) and not any(
        isinstance(n, ast.ExceptHandler) and n.type is not None and 'ValueError' in norm(n.type) and
        not any(isinstance(x, ast.Raise) for x in ast.walk(n)) for n in own_nodes(sf.node))
    chk.ob('C13-E', 'sequence_id_factory lets int()\'s ValueError through (or re-raises one)', ok, '', sf.loc, key='C13-E|SI')
    dof = ix.func('utils._datetime_obj_factory')
    ok = any(isinstance(n, ast.ExceptHandler) and n.type is not None and norm(n.type) == 'ValueError' and
             any(isinstance(x, ast.Raise) and norm(x.exc).startswith('ValueError(') for x in ast.walk(n)) for n in own_nodes(dof.node)) or \
        not any(isinstance(n, ast.ExceptHandler) for n in own_nodes(dof.node))
    chk.ob('C13-E', 'strptime failures stay ValueError', ok, '', dof.loc, key='C13-E|strptime')
    for fq in ('utils._get_date_format', 'utils._get_timestamp_format', 'utils.get_datetime_info'):
        fi = ix.func(fq)
        raised = {norm(x.exc).split('(')[0] for x in own_nodes(fi.node) if isinstance(x, ast.Raise) and x.exc is not None}
        chk.ob('C13-E', '%s refuses with ValueError only' % fq, raised <= {'ValueError'}, 'raises %s' % sorted(raised), fi.loc,
               key='C13-E|%s' % fq)
    for clsname in ('NM', 'SI'):
        fi = ix.func('base_datatypes.%s.__init__' % clsname)
        raised = {norm(x.exc).split('(')[0] for x in own_nodes(fi.node) if isinstance(x, ast.Raise) and x.exc is not None}
        chk.ob('C13-E', '%s.__init__ refuses a wrong value type with ValueError' % clsname, raised <= {'ValueError'},
               'raises %s' % sorted(raised), fi.loc, key='C13-E|%s.__init__' % clsname)

    # ---- L
    bdt = ix.cls('base_datatypes.BaseDataType')

    def callee_ok(fi):
        return fi.cls is not None and bdt in fi.cls.mro and fi.name == '__init__'

    def caller_ok(fq):
        fi = ix.functions[fq]
        return (fi.cls is not None and bdt in fi.cls.mro and fi.name == '__init__') or fq.startswith('factories.')
    from .c17 import EXEMPT
    n = forwarding.check_forwarding(chk, c, 'C13-L', ('validation_level',), only_callers=caller_ok, only_callees=callee_ok,
                                    exempt=EXEMPT)
    chk.floor('constructor / factory call sites', n, 20)
    chk.assume('acceptance = HL7 lexical definition and text preservation depend on datetime.strptime / Decimal / int and are not decided')

    # ---- M: what the length guard measures and who reaches it
    chk.rule('C13-M', 'the STRICT length guard of BaseDataType.__init__ compares the length of the value\'s text with '
                      'max_length under no further condition; every textual / numeric datatype constructor reaches it on '
                      'every normal path with its own value; NM and SI pass the HL7 maxima 16 and 4')
    length_guard(chk, ix)

    chk.rule('C13-G', 'the date / time / number helpers refuse (ValueError and the datatype exceptions) under the same conditions as in the reviewed tree')
    from . import guardrules
    ng_ = guardrules.check(chk, c, 'C13-G', ['utils._get_date_format', 'utils._get_timestamp_format', 'utils.get_datetime_info', 'utils._datetime_obj_factory', 'base_datatypes.TM.__init__', 'base_datatypes.DateTimeDataType.__init__', 'base_datatypes.NM.__init__', 'base_datatypes.SI.__init__', 'factories.datatype_factory', 'factories.numeric_factory', 'factories.sequence_id_factory'])
    chk.floor('refusal predicates compared (C13-G)', ng_, 1)

    chk.rule('C13-D', 'decision structure of the functions this property is anchored in: every effect statement (store, call, return, '
                   'raise) runs under the same combinations of the function\'s elementary tests as in the reviewed tree, and none '
                   'was deleted (reference/decisions.json; compared by meaning, rewritten functions are not compared)')
    from . import guardrules as _gr
    nd2_ = _gr.check_decisions(chk, c, 'C13-D', lambda fq_: fq_.startswith(('utils.', 'factories.', 'base_datatypes.BaseDataType', 'base_datatypes.NumericDataType', 'base_datatypes.DateTimeDataType', 'base_datatypes.DT', 'base_datatypes.TM', 'base_datatypes.DTM', 'base_datatypes.NM', 'base_datatypes.SI')))
    chk.floor('functions compared with the decision reference (C13-D)', nd2_, 1)



TEXT_FORMS = ("f'{%s}'", "'{0}'.format(%s)", "'{}'.format(%s)", 'str(%s)', "'%%s' %% %s", 'format(%s)', "'%%s' %% (%s,)", 'text_type(%s)')
HL7_MAX = {'NM': 16, 'SI': 4}      # HL7 v2 chapter 2A (also stated in the class documentation)


def is_text_length(expr, var, fi, ix, cls_scope, depth=0):
    """expr denotes the number of characters of the text of `var`: len(<text form of var>), or a call of a method of the
    datatype hierarchy every implementation of which returns such a length of its parameter.  Returns (ok, why)."""
    if isinstance(expr, ast.Call) and norm(expr.func) == 'len' and len(expr.args) == 1:
        a = norm(expr.args[0])
        if any(a == f % var for f in TEXT_FORMS):
            return True, ''
        if isinstance(expr.args[0], ast.Name):
            src = [n.value for n in own_nodes(fi.node) if isinstance(n, ast.Assign) and len(n.targets) == 1 and
                   norm(n.targets[0]) == a]
            if src and all(any(norm(v) == f % var for f in TEXT_FORMS) for v in src):
                return True, ''
        return False, '`%s` is not the length of the text of `%s`' % (norm(expr)[:60], var)
    if isinstance(expr, ast.Call) and isinstance(expr.func, ast.Attribute) and norm(expr.func.value) == 'self' and \
            len(expr.args) == 1 and norm(expr.args[0]) == var and depth < 3:
        m = expr.func.attr
        impls = {}
        for ci in cls_scope:
            fm = ci.find_method(m)
            if fm is not None:
                impls[fm.qualname] = fm
        if not impls:
            return False, 'method %s not found in the datatype hierarchy' % m
        for fq, fm in sorted(impls.items()):
            params = [a.arg for a in fm.node.args.args]
            if len(params) != 2:
                return False, '%s: unexpected signature' % fq
            rets = [n for n in own_nodes(fm.node) if isinstance(n, ast.Return)]
            if not rets:
                return False, '%s returns nothing' % fq
            for r in rets:
                ok, why = is_text_length(r.value, params[1], fm, ix, cls_scope, depth + 1) if r.value is not None else (False, 'bare return')
                if not ok:
                    return False, '%s (%s:%d): %s' % (fq, fm.module.relpath, r.lineno, why)
        return True, ''
    return False, '`%s` is not the length of the text of `%s`' % (norm(expr)[:60], var)


def length_guard(chk, ix):
    from ..cfg import cfg_of, ENTRY, EXIT
    bdt = ix.cls('base_datatypes.BaseDataType')
    dtd = ix.cls('base_datatypes.DateTimeDataType')
    init = ix.func('base_datatypes.BaseDataType.__init__')
    scope = [ci for ci in ix.subclasses(bdt) if dtd not in ci.mro]
    chk.count('textual / numeric datatype classes (all versions)', len(scope))
    chk.floor('textual / numeric datatype classes', len(scope), 20)
    raises = [n for n in own_nodes(init.node) if isinstance(n, ast.Raise) and n.exc is not None and
              norm(n.exc).startswith('MaxLengthReached')]
    if not raises:
        chk.fail('C13-M', 'BaseDataType.__init__ raises MaxLengthReached', 'no `raise MaxLengthReached` left in the constructor',
                 init.loc, key='C13-M|guard|absent')
        return
    for r in raises:
        conds = []
        x = r
        neg = False
        while getattr(x, '_parent', None) is not None and x is not init.node:
            p = x._parent
            if isinstance(p, ast.If):
                if x in p.body:
                    conds.append(p.test)
                elif x in p.orelse:
                    neg = True
            elif isinstance(p, (ast.For, ast.While, ast.Try, ast.With, ast.ExceptHandler)):
                neg = True
            x = p
        conj = []
        for t in conds:
            conj.extend(t.values if isinstance(t, ast.BoolOp) and isinstance(t.op, ast.And) else [t])
        cmp_ = None
        other = []
        for t in conj:
            tn = norm(t)
            if 'is_strict' in tn and isinstance(t, ast.Call):
                continue
            if tn in ('self.max_length is not None', 'max_length is not None', 'self.max_length', 'max_length'):
                continue
            if isinstance(t, ast.Compare) and len(t.ops) == 1 and cmp_ is None:
                l, o, rr = t.left, t.ops[0], t.comparators[0]
                if isinstance(o, ast.Gt) and norm(rr) in ('self.max_length', 'max_length'):
                    cmp_ = l
                    continue
                if isinstance(o, ast.Lt) and norm(l) in ('self.max_length', 'max_length'):
                    cmp_ = rr
                    continue
            other.append(tn)
        if neg or other:
            chk.fail('C13-M', 'length guard of BaseDataType.__init__ is unconditional under STRICT',
                     'the refusal additionally depends on %s' % (other[:2] or 'an else/loop/try context'), init.loc,
                     key='C13-M|guard|extra-condition|%s' % ';'.join(other[:2]))
        else:
            chk.ok('C13-M', 'length guard of BaseDataType.__init__ is unconditional under STRICT', '', init.loc, key='C13-M|guard|cond')
        if cmp_ is None:
            chk.fail('C13-M', 'length guard compares a length with max_length', 'no `<length> > max_length` comparison guards the raise',
                     init.loc, key='C13-M|guard|compare')
            continue
        ok, why = is_text_length(cmp_, 'value', init, ix, scope)
        chk.ob('C13-M', 'length guard measures the characters of the value\'s text', ok, why, init.loc,
               key='C13-M|guard|measure|%s' % why.split(':')[0][:60])
    # value is not rebound before the guard
    rebinds = [n for n in own_nodes(init.node) if isinstance(n, ast.Assign) and any(norm(t) == 'value' for t in n.targets)]
    chk.ob('C13-M', 'BaseDataType.__init__ measures the value it was given', not rebinds,
           '`value` is rebound before the guard (line %s)' % [n.lineno for n in rebinds], init.loc, key='C13-M|guard|rebind')

    # constructors reach the guard
    n_ctor = 0
    for ci in sorted(scope, key=lambda c: c.qualname):
        fi = ci.methods.get('__init__') if hasattr(ci, 'methods') else None
        if fi is None or ci is bdt:
            continue
        n_ctor += 1
        sup = [n for n in own_nodes(fi.node) if isinstance(n, ast.Call) and isinstance(n.func, ast.Attribute) and
               n.func.attr == '__init__']
        construct = '%s.__init__ reaches the base length guard' % ci.qualname
        if not sup:
            chk.fail('C13-M', construct, 'no call of the base constructor: the length guard never runs for this datatype',
                     fi.loc, key='C13-M|ctor|%s|no-super' % ci.qualname)
            continue
        g = cfg_of(fi)
        ev = {g.node_for(x) for x in sup if g.node_for(x)}
        inc = g.reach_incomplete(ENTRY, ev, labels_ok=lambda a, b, lab: lab != 'exc')
        ok = EXIT not in inc
        chk.ob('C13-M', construct, ok, 'a normal path through the constructor returns without calling the base constructor',
               fi.loc, key='C13-M|ctor|%s|path' % ci.qualname)
        for x in sup:
            args = [norm(a) for a in x.args]
            if args and args[0] == 'self':
                args = args[1:]
            okv = bool(args) and args[0] == 'value' or any(k.arg == 'value' and norm(k.value) == 'value' for k in x.keywords)
            chk.ob('C13-M', '%s.__init__ hands its own value to the base constructor' % ci.qualname, okv,
                   'passes `%s`' % (args[:1] or ['nothing']), fi.loc, key='C13-M|ctor|%s|value' % ci.qualname)
        if ci.name in HL7_MAX and ci.module.name == 'base_datatypes':
            got = None
            for x in sup:
                if len(x.args) >= 2 and isinstance(x.args[1], ast.Constant):
                    got = x.args[1].value
                for k in x.keywords:
                    if k.arg == 'max_length' and isinstance(k.value, ast.Constant):
                        got = k.value.value
            if got is None:
                pi = ci.mro[1].find_method('__init__') if len(ci.mro) > 1 else None
                if pi is not None:
                    a = pi.node.args
                    names = [z.arg for z in a.args]
                    if 'max_length' in names:
                        i = names.index('max_length') - (len(names) - len(a.defaults))
                        if 0 <= i < len(a.defaults) and isinstance(a.defaults[i], ast.Constant):
                            got = a.defaults[i].value
            chk.ob('C13-M', '%s is limited to %d characters' % (ci.name, HL7_MAX[ci.name]), got == HL7_MAX[ci.name],
                   'the constructor passes max_length=%r' % (got,), fi.loc, key='C13-M|max|%s|%r' % (ci.name, got))
    chk.floor('datatype constructors checked for reaching the guard', n_ctor, 18)

