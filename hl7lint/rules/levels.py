"""Facts about validation-level tests, shared by C05 and C17."""
import ast

from ..cfg import cfg_of, ENTRY
from ..src import own_nodes, norm

LEVEL_TESTS = ('is_strict', 'is_tolerant', 'is_quiet')


def level_test_calls(c):
    """-> [(fn, call node, method name, arg expr)] for every Validator.is_*(x) call and VALIDATION_LEVEL comparison"""
    out = []
    for fn in c.te.funcs:
        if fn.qualname.startswith('validation.Validator.is_'):
            continue
        for n in own_nodes(fn.node):
            if isinstance(n, ast.Call) and isinstance(n.func, ast.Attribute) and n.func.attr in LEVEL_TESTS and n.args:
                ts = c.te.resolve_call(n, fn)
                if any(t.kind == 'func' and t.func.qualname.startswith('validation.Validator.') for t in ts):
                    out.append((fn, n, n.func.attr, n.args[0]))
            elif isinstance(n, ast.Compare) and any('VALIDATION_LEVEL.' in norm(x) for x in [n.left] + n.comparators):
                if fn.qualname.startswith('__init__.check_validation_level'):
                    continue
                other = [x for x in [n.left] + n.comparators if 'VALIDATION_LEVEL.' not in norm(x)]
                out.append((fn, n, 'compare', other[0] if other else n.left))
    return out


def assigns_name(stmt, name):
    for n in ast.walk(stmt):
        if isinstance(n, ast.Name) and n.id == name and isinstance(n.ctx, ast.Store):
            return True
    return False


def raw_param_level_tests(c):
    """level tests whose argument is a parameter defaulting to None that may still be unresolved:
    -> [(fn, call, arg name, path description)]"""
    out = []
    for fn, call, meth, arg in level_test_calls(c):
        if not isinstance(arg, ast.Name):
            continue
        p = arg.id
        d = fn.defaults.get(p)
        if p not in fn.params or not (isinstance(d, ast.Constant) and d.value is None):
            continue
        g = cfg_of(fn)
        target = g.node_for(call)
        if target is None:
            continue
        resolvers = [nid for nid, nd in g.nodes.items() if nd.kind in ('stmt',) and nd.ast is not fn.node and
                     isinstance(nd.ast, (ast.Assign, ast.AugAssign)) and assigns_name(nd.ast, p)]

        def may_still_be_none(n, d, lab, g=g, p=p):
            # leaving `if p is None` by its false edge (or `p is not None` by its true edge) means p was given
            nd = g.nodes[n]
            if nd.kind == 'test' and isinstance(nd.ast, ast.Compare) and len(nd.ast.ops) == 1 and \
                    isinstance(nd.ast.left, ast.Name) and nd.ast.left.id == p and \
                    isinstance(nd.ast.comparators[0], ast.Constant) and nd.ast.comparators[0].value is None:
                if isinstance(nd.ast.ops[0], ast.Is) and lab == 'false':
                    return False
                if isinstance(nd.ast.ops[0], ast.IsNot) and lab == 'true':
                    return False
            return True

        reach = g.reach(ENTRY, avoid=resolvers, labels_ok=may_still_be_none)
        if target in reach or target == ENTRY:
            path = g.path(ENTRY, target, avoid=resolvers, labels_ok=may_still_be_none) or []
            out.append((fn, call, p, g.describe(path[-4:])))
    return out


def enclosing_condition(node):
    """normalised text of the innermost if/while/boolean condition the node belongs to (or its statement)"""
    p = node
    top = node
    while p is not None and not isinstance(p, ast.stmt):
        top = p
        p = getattr(p, '_parent', None)
    if isinstance(p, (ast.If, ast.While)) and top is p.test:
        return norm(p.test)
    return norm(top)


# raw-parameter level tests that were confirmed to be unobservable (one line of reason each)
BENIGN_RAW = {
    ('core.Field.__init__',
     "datatype is not None and Validator.is_strict(validation_level) and (datatype != 'varies') and (datatype != self.datatype)"):
        'when the parameter is None but the resolved level is STRICT, the following `self.datatype = datatype` reaches '
        '_set_datatype, which tests the resolved self.validation_level and raises the same OperationNotAllowed',
}
