"""Facts about the element tree's storage (ElementList fields, parent pointers) shared by C05, C09, C10, C11, C12."""
import ast

from ..cfg import cfg_of, ENTRY, EXIT, RAISE
from ..src import own_nodes, norm

EL = 'core.ElementList'
ELEM = 'core.Element'
TREE_FIELDS = ('list', 'indexes', 'traversal_indexes', 'proxies')
ADD = ('mutate:append', 'mutate:insert', 'mutate:extend', 'store', 'mutate:setdefault', 'mutate:update')
REMOVE = ('mutate:remove', 'mutate:pop', 'del', 'mutate:clear')


def field_of(loc):
    """('root', 'attr') of a write location that is a field or an element of the container stored in a field"""
    while loc and loc[0] == 'elem':
        loc = loc[1]
    if loc and loc[0] == 'field':
        return loc[1], loc[2]
    return None


def polarity(w):
    if w.how in REMOVE:
        return 'remove'
    if w.how in ADD:
        return 'add'
    return 'other'


def is_reset(w):
    """attribute store that installs a fresh container (self.list = [])"""
    return w.how == 'store' and isinstance(w.node, ast.Attribute)


def class_write_summary(c, root=EL):
    """fq -> set((attr, polarity)) for methods of class `root`, closed over self-calls inside the class"""
    fx, cg, ix = c.fx, c.cg, c.index
    ci = ix.cls(root)
    own = {}
    for name, fi in ci.methods.items():
        evs = set()
        for w in fx.writes.get(fi.qualname, ()):
            f = field_of(w.loc)
            if f and f[0] == root and not is_reset(w):
                evs.add((f[1], polarity(w)))
        own[fi.qualname] = evs
        for sub in fi.nested.values():
            for w in fx.writes.get(sub.qualname, ()):
                f = field_of(w.loc)
                if f and f[0] == root:
                    own[fi.qualname].add((f[1], polarity(w)))
    changed = True
    while changed:
        changed = False
        for fq in own:
            for s in cg.sites.get(fq, ()):
                for t in s.targets:
                    if t.kind == 'func' and t.func.qualname in own and t.func.qualname != fq:
                        new = own[t.func.qualname] - own[fq]
                        if new:
                            own[fq] |= new
                            changed = True
    return own


def node_events(c, fi, summary, root=EL):
    """CFG node id -> set((attr, polarity)) for function fi: own writes + calls to methods of the class"""
    g = cfg_of(fi)
    ev = {}
    for w in c.fx.writes.get(fi.qualname, ()):
        f = field_of(w.loc)
        if f and f[0] == root and not is_reset(w):
            nid = g.node_for(w.node)
            if nid:
                ev.setdefault(nid, set()).add((f[1], polarity(w)))
    for s in c.cg.sites.get(fi.qualname, ()):
        for t in s.targets:
            if t.kind == 'func' and t.func.qualname in summary and t.func.qualname != fi.qualname:
                nid = g.node_for(s.node)
                if nid:
                    ev.setdefault(nid, set()).update(summary[t.func.qualname])
    return g, ev


def reach_without_event(g, start, b_nodes):
    """nodes reachable from start on paths where no event of B *completes*: a B node may be entered, but only its
    exceptional out-edges are followed (the statement raised, so its write did not happen)"""
    seen = set()
    work = [start]
    while work:
        n = work.pop()
        for d, lab in g.succ[n]:
            if n in b_nodes and n != start and lab != 'exc':
                continue
            if n == start and n in b_nodes and lab != 'exc':
                continue
            if d in seen:
                continue
            seen.add(d)
            work.append(d)
    return seen


def paired_on_all_paths(g, a_nodes, b_nodes):
    """every normal path (ENTRY..EXIT) on which an A event completes also completes a B event;
    -> offending A node or None"""
    before_free = reach_without_event(g, ENTRY, b_nodes)
    for a in sorted(a_nodes):
        if a in b_nodes:
            continue
        # continue after a completed normally
        after = set()
        for d, lab in g.succ[a]:
            if lab == 'exc':
                continue
            after.add(d)
            after |= reach_without_event(g, d, b_nodes) if d not in b_nodes else \
                {x for x in reach_without_event(g, d, b_nodes)}
        if EXIT in after and a in before_free:
            return a
    return None
