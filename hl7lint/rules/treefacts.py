"""Facts about the element tree's storage (ElementList fields, parent pointers) shared by C05, C09, C10, C11, C12."""
import ast

from ..cfg import cfg_of, ENTRY, EXIT, RAISE
from ..src import own_nodes, norm

EL = 'core.ElementList'
ELEM = 'core.Element'
TREE_FIELDS = ('list', 'indexes', 'traversal_indexes', 'proxies')
ADD = ('mutate:append', 'mutate:insert', 'mutate:extend', 'store', 'mutate:setdefault', 'mutate:update')
REMOVE = ('mutate:remove', 'mutate:pop', 'del', 'mutate:clear')


def field_of(loc):
    """('root', 'attr') of a write location that is a field or an element of the container stored in a field"""
    while loc and loc[0] == 'elem':
        loc = loc[1]
    if loc and loc[0] == 'field':
        return loc[1], loc[2]
    return None


def fields_of(fx, loc, limit=200):
    """set of ('root', 'attr') the write location may denote, following local aliases
    (`siblings = self.indexes[name]; siblings.append(x)` writes an element of ElementList.indexes)"""
    out = set()
    seen = set()
    work = [loc]
    while work and len(seen) < limit:
        k = work.pop()
        if k in seen or not isinstance(k, tuple) or not k:
            continue
        seen.add(k)
        f = field_of(k)
        if f:
            out.add(f)
            continue
        if k[0] == 'elem':
            for a in fx.edges.get(k[1], ()):
                if isinstance(a, tuple) and a:
                    work.append(('elem', a))
            continue
        if k[0] in ('var', 'local'):
            for a in fx.edges.get(('var',) + tuple(k[1:]), ()):
                work.append(a)
    return out


def polarity(w):
    if w.how in REMOVE:
        return 'remove'
    if w.how in ADD:
        return 'add'
    return 'other'


def is_reset(w):
    """attribute store that installs a fresh container (self.list = [])"""
    return w.how == 'store' and isinstance(w.node, ast.Attribute)


def class_write_summary(c, root=EL):
    """fq -> set((attr, polarity)) for methods of class `root`, closed over self-calls inside the class"""
    fx, cg, ix = c.fx, c.cg, c.index
    ci = ix.cls(root)
    own = {}
    for name, fi in ci.methods.items():
        evs = set()
        for w in fx.writes.get(fi.qualname, ()):
            for f in fields_of(fx, w.loc):
                if f[0] == root and not is_reset(w):
                    evs.add((f[1], polarity(w)))
        own[fi.qualname] = evs
        for sub in fi.nested.values():
            for w in fx.writes.get(sub.qualname, ()):
                f = field_of(w.loc)
                if f and f[0] == root:
                    own[fi.qualname].add((f[1], polarity(w)))
    changed = True
    while changed:
        changed = False
        for fq in own:
            for s in cg.sites.get(fq, ()):
                for t in s.targets:
                    if t.kind == 'func' and t.func.qualname in own and t.func.qualname != fq:
                        new = own[t.func.qualname] - own[fq]
                        if new:
                            own[fq] |= new
                            changed = True
    return own


def node_events(c, fi, summary, root=EL):
    """CFG node id -> set((attr, polarity)) for function fi: own writes + calls to methods of the class"""
    g = cfg_of(fi)
    ev = {}
    for w in c.fx.writes.get(fi.qualname, ()):
        for f in fields_of(c.fx, w.loc):
            if f[0] == root and not is_reset(w):
                nid = g.node_for(w.node)
                if nid:
                    ev.setdefault(nid, set()).add((f[1], polarity(w)))
    for s in c.cg.sites.get(fi.qualname, ()):
        for t in s.targets:
            if t.kind == 'func' and t.func.qualname in summary and t.func.qualname != fi.qualname:
                nid = g.node_for(s.node)
                if nid:
                    ev.setdefault(nid, set()).update(summary[t.func.qualname])
    return g, ev


def reach_without_event(g, start, b_nodes):
    """nodes reachable from start on paths where no event of B *completes*: a B node may be entered, but only its
    exceptional out-edges are followed (the statement raised, so its write did not happen)"""
    seen = set()
    work = [start]
    while work:
        n = work.pop()
        for d, lab in g.succ[n]:
            if n in b_nodes and n != start and lab != 'exc':
                continue
            if n == start and n in b_nodes and lab != 'exc':
                continue
            if d in seen:
                continue
            seen.add(d)
            work.append(d)
    return seen


def paired_on_all_paths(g, a_nodes, b_nodes):
    """every normal path (ENTRY..EXIT) on which an A event completes also completes a B event;
    -> offending A node or None"""
    before_free = reach_without_event(g, ENTRY, b_nodes)
    for a in sorted(a_nodes):
        if a in b_nodes:
            continue
        # continue after a completed normally
        after = set()
        for d, lab in g.succ[a]:
            if lab == 'exc':
                continue
            after.add(d)
            after |= reach_without_event(g, d, b_nodes) if d not in b_nodes else \
                {x for x in reach_without_event(g, d, b_nodes)}
        if EXIT in after and a in before_free:
            return a
    return None


ADMISSION_CALLS = ('add', 'append', 'insert', 'replace_child', '_can_add_child', 'set')


def exclusive_parents(chk, c, rule):
    """An element is attached either really (`_parent`) or for traversal (`_traversal_parent`), never both: remove(),
    replace_child() and append() decide between the real list and the traversal list by testing
    `child.traversal_parent == self.element`.  Rule: wherever a possibly non-None value is stored into `_parent`, every
    normal path clears traversal_parent before the element is handed to an admission call or the function returns,
    except along the branch on which the stored value is None."""
    import ast
    from ..cfg import cfg_of, EXIT
    from ..src import own_nodes, norm
    ix = c.index
    n_sites = 0
    for fq, fi in sorted(ix.functions.items()):
        if not fq.startswith('core.'):
            continue
        stores = [n for n in own_nodes(fi.node) if isinstance(n, ast.Assign) and
                  any(isinstance(t, ast.Attribute) and t.attr == '_parent' and norm(t.value) == 'self' for t in n.targets)]
        for st in stores:
            if isinstance(st.value, ast.Constant) and st.value.value is None:
                continue
            n_sites += 1
            v = norm(st.value)
            g = cfg_of(fi)
            a = g.node_for(st)
            clears = set()
            sinks = {EXIT}
            for n in own_nodes(fi.node):
                if isinstance(n, ast.Assign) and isinstance(n.value, ast.Constant) and n.value.value is None and \
                        any(isinstance(t, ast.Attribute) and t.attr in ('traversal_parent', '_traversal_parent') and
                            norm(t.value) == 'self' for t in n.targets):
                    clears.add(g.node_for(n))
                if isinstance(n, ast.Call) and isinstance(n.func, ast.Attribute) and n.func.attr in ADMISSION_CALLS:
                    sinks.add(g.node_for(n))
            sinks -= clears

            def labels_ok(src, dst, lab, g=g, v=v):
                if lab == 'exc':
                    return False
                nd = g.nodes[src]
                if nd.kind == 'test':
                    t = norm(nd.ast)
                    if t in ('%s is not None' % v, v) and lab == 'false':
                        return False
                    if t in ('%s is None' % v, 'not %s' % v) and lab == 'true':
                        return False
                return True
            reach = g.reach(a, avoid=clears, labels_ok=labels_ok)
            hit = sorted(x for x in reach if x in sinks)
            construct = '%s: `%s` clears traversal_parent' % (fq, norm(st)[:40])
            if hit:
                nd = g.nodes[hit[0]] if hit[0] != EXIT else None
                chk.fail(rule, construct,
                         'after the real parent is stored, %s is reached with traversal_parent still set: remove() / '
                         'replace_child() will treat the real child as a traversal placeholder' %
                         ('the end of the function' if nd is None else '`%s`' % nd.label[:50]),
                         '%s:%d' % (fi.module.relpath, st.lineno), key='%s|%s|%s' % (rule, fq, 'exit' if nd is None else nd.label[:40]))
            else:
                chk.ok(rule, construct, '%d clearing statement(s)' % len(clears), '%s:%d' % (fi.module.relpath, st.lineno),
                       key='%s|%s' % (rule, fq))
    chk.floor('stores of a real parent', n_sites, 1)
    # the readers that depend on the exclusivity
    n_readers = 0
    for fq in ('core.ElementList.remove', 'core.ElementList.replace_child', 'core.ElementList.append'):
        fi = ix.func(fq)
        if any(isinstance(n, ast.Compare) and 'traversal_parent' in norm(n) for n in own_nodes(fi.node)):
            n_readers += 1
    chk.count('functions that choose the traversal list by testing child.traversal_parent', n_readers)


ATTACH_METHODS = ('append', 'add', 'extend')


def attach_wrappers(ix, modname):
    """{function name: set(parameter positions)}: module-level functions of `modname` that attach the parameter (hand it
    to .append/.add/.extend, or to another wrapper) on every normal path from entry to return -- a call of such a
    function is as good as the attach itself (wrapper summary, Min et al.)."""
    import ast
    from ..cfg import cfg_of, ENTRY, EXIT
    from ..src import own_nodes, norm
    mod = ix.module(modname)
    out = {}
    changed = True
    rounds = 0
    while changed and rounds < 4:
        changed = False
        rounds += 1
        for name, fi in sorted(mod.functions.items()):
            if fi.cls is not None or fi.outer is not None:
                continue
            params = [a.arg for a in fi.node.args.args]
            g = None
            for i, p in enumerate(params):
                if i in out.get(name, ()):
                    continue
                events = set()
                for n in own_nodes(fi.node):
                    if not isinstance(n, ast.Call):
                        continue
                    direct = isinstance(n.func, ast.Attribute) and n.func.attr in ATTACH_METHODS and \
                        any(norm(a) == p for a in n.args) and norm(n.func.value) != p
                    via = isinstance(n.func, ast.Name) and n.func.id in out and \
                        any(k < len(n.args) and norm(n.args[k]) == p for k in out[n.func.id])
                    if direct or via:
                        g = g or cfg_of(fi)
                        nid = g.node_for(n)
                        if nid:
                            events.add(nid)
                if not events:
                    continue
                rebound = any(isinstance(n, ast.Assign) and any(norm(t) == p for t in n.targets) for n in own_nodes(fi.node))
                if rebound:
                    continue
                reach = g.reach(ENTRY, avoid=events, labels_ok=lambda a, b, lab: lab != 'exc')
                if EXIT not in reach:
                    out.setdefault(name, set()).add(i)
                    changed = True
    return out


def is_attach_call(call, wrappers, value_names):
    """the call attaches one of `value_names` (normal texts): x.append(v) / x.add(v) / wrapper(.., v, ..)"""
    import ast
    from ..src import norm
    if isinstance(call.func, ast.Attribute) and call.func.attr in ATTACH_METHODS:
        return any(norm(a) in value_names for a in call.args) and norm(call.func.value) not in value_names
    if isinstance(call.func, ast.Name) and call.func.id in wrappers:
        return any(k < len(call.args) and norm(call.args[k]) in value_names for k in wrappers[call.func.id])
    return False


def lazy_creators(c):
    """qualnames of 'the lazy-creation code': functions every create_element call of which passes the constant
    traversal_parent=True (the new child goes to the shadow channel), wherever they are defined"""
    import ast
    ix, cg, te = c.index, c.cg, c.te
    ce = ix.func('core.ElementList.create_element')
    good, bad = set(), set()
    for fq, sites in cg.sites.items():
        for s in sites:
            if s.kind == 'call' and any(t.kind == 'func' and t.func is ce for t in s.targets):
                t = [t for t in s.targets if t.func is ce][0]
                b, _, _, _ = te.bind(s.node, t)
                a = b.get('traversal_parent')
                if isinstance(a, ast.Constant) and a.value is True:
                    good.add(fq)
                else:
                    bad.add(fq)
    return good - bad
