"""C15 -- bad input fails with the library's exceptions, never with a crash (partial: explicit-raise typing,
header indexing discipline, definite initialisation of conditionally-set attributes, server mapping)."""
import ast

from .. import ctx as ctxmod
from ..cfg import cfg_of
from ..src import own_nodes, norm
from ..report import AnalysisError
from .forwarding import branch_context

ENTRIES = ['parser.parse_message', 'parser.get_message_type', 'parser.get_message_info', 'core.Element.to_er7',
           'core.Field.to_er7', 'core.Segment.to_er7', 'core.SubComponent.to_er7', 'core.Element.validate']
HEADER_FUNCS = ['parser._split_msh', 'parser.get_message_type', 'parser.get_message_info']

# explicit raises of non-library classes that are reachable in the call graph but not by any message *string*
RAISE_EXEMPT = {
    ('core.ElementFinder.get_structure', 'Exception'):
        'needs a reference that is not a sequence, i.e. a malformed message *profile* entry; references from the tables are '
        'always tuples/lists (checked by C02-T1) and the property quantifies over message strings',
    ('core.Element.__getattr__', 'AttributeError'):
        'attribute protocol: raised for names in cls_attrs that are not set yet; every reader on the entry paths is guarded '
        '(rule C15-A)',
    ('core.Element._handle_empty_children', 'NotImplementedError'):
        'template method; both encoders catch it (try/except NotImplementedError around the call)',
    ('mllp.AbstractHandler.reply', 'NotImplementedError'): 'abstract handler of the MLLP server, not on the parse/encode paths',
}


# reads of conditionally initialised attributes that cannot be reached with the attribute missing from a message string
READ_EXEMPT = {
    ('core.SupportComplexDataType._set_datatype', 'self.reference'):
        'needs a datatype assignment on an element that has a datatype but no structure (Field(datatype="CX").datatype = "CE"): '
        'an API call, not a message string; on the parse paths _set_datatype runs with datatype None or on named elements',
    ('parser.parse_segments', 'current_parent.reference'):
        'the cursor only ever holds groups this function created with a name and a reference',
}


def subscript_guard(fi, n, var, need, g=None):
    """why the constant-index subscript `n` of `var` cannot raise IndexError (needs len(var) > need), or None:
    an enclosing handler, an earlier operand of the same and/or that forces the length, a strptime on var[1:] earlier in
    the same try (empty text already raised ValueError), or a length test on every CFG path to the subscript"""
    from ..cfg import ENTRY, len_implied
    guarded = None
    p = n
    while p is not None and p is not fi.node and guarded is None:
        par = getattr(p, '_parent', None)
        if isinstance(par, ast.Try) and any(p is b for b in par.body):
            for h in par.handlers:
                if h.type is None or any(x in norm(h.type) for x in ('IndexError', 'LookupError', 'Exception')):
                    guarded = 'handler for IndexError'
            idx = [i for i, b in enumerate(par.body) if b is p][0]
            before = list(par.body[:idx]) + [p]
            for b in before:
                for x in ast.walk(b):
                    if x is n:
                        break
                    if isinstance(x, ast.Call) and norm(x.func).endswith('strptime') and len(x.args) == 2 and \
                            norm(x.args[0]) in ('%s[1:]' % var,) and isinstance(x.args[1], ast.Constant) and \
                            x.args[1].value and need == 0 and getattr(x, 'lineno', 0) < n.lineno and \
                            any(h.type is not None and 'ValueError' in norm(h.type) for h in par.handlers):
                        guarded = 'strptime(%s[1:], %r) runs first and raises ValueError for an empty text' % (var, x.args[1].value)
        if isinstance(par, ast.BoolOp) and isinstance(par.op, ast.And) and guarded is None:
            idx = [i for i, v_ in enumerate(par.values) if v_ is p]
            for v_ in (par.values[:idx[0]] if idx else []):
                if len_implied(v_, 'true', var, need):
                    guarded = 'earlier operand `%s`' % norm(v_)[:40]
        if isinstance(par, ast.BoolOp) and isinstance(par.op, ast.Or) and guarded is None:
            idx = [i for i, v_ in enumerate(par.values) if v_ is p]
            for v_ in (par.values[:idx[0]] if idx else []):
                if len_implied(v_, 'false', var, need):
                    guarded = 'earlier operand `%s`' % norm(v_)[:40]
        p = par
    if guarded is None:
        g = g or cfg_of(fi)
        nid = g.node_for(n)

        def labels_ok(src, dst, lab, g=g, var=var, need=need):
            nd = g.nodes[src]
            return not (nd.kind == 'test' and len_implied(nd.ast, lab, var, need))
        reach = g.reach(ENTRY, labels_ok=labels_ok)
        rebind = any(isinstance(x, ast.Assign) and any(norm(t) == var for t in x.targets) for x in own_nodes(fi.node))
        if nid is not None and nid not in reach and not (rebind and var in fi.params):
            guarded = 'length test on every path'
    return guarded


def run(chk):
    c = ctxmod.get()
    ix, cg, te, esc = c.index, c.cg, c.te, c.esc
    chk.rule('C15-T', 'every explicit raise that can leave parse_message / get_message_type / get_message_info / to_er7 / '
                      'validate raises a subclass of HL7apyException or ValueError')
    chk.rule('C15-I', 'in the MSH header code every constant-index subscript of a split result is guarded (try/except '
                      'IndexError or a length test), except index 1 after the regex forced one separator')
    chk.rule('C15-A', 'attributes that only _find_structure sets are read behind try/except AttributeError or getattr default '
                      'in everything reachable from the entry points')
    chk.rule('C15-M', 'the MLLP router maps ParserError to InvalidHL7Message and hands every other exception to the ERR handler')

    # ---- T
    allowed_root = 'HL7apyException'
    entries = [e for e in ENTRIES if e in ix.functions]
    chk.floor('entry points', len(entries), 7)
    seen = set()
    for e in entries:
        for cls in sorted(esc.escape.get(e, ())):
            if cls in seen:
                continue
            seen.add(cls)
            ok = cls == 'ValueError' or esc.is_sub(cls, allowed_root)
            # where is it raised?
            origins = []
            for fq, items in esc._own.items():
                for r in items:
                    if cls in esc._raise_classes(r, ix.functions[fq]):
                        origins.append((fq, r))
            if cls == '<unknown>':
                origins = [(fq, r) for fq, items in esc._own.items() for r in items
                           if '<unknown>' in esc._raise_classes(r, ix.functions[fq])]
            if ok:
                chk.ok('C15-T', 'explicit raise of %s' % cls, '%d site(s)' % len(origins), key='C15-T|%s' % cls)
                continue
            for fq, r in origins:
                fi = ix.functions[fq]
                where = '%s:%d' % (fi.module.relpath, r.lineno)
                if (fq, cls) in RAISE_EXEMPT:
                    chk.ok('C15-T', '%s raises %s' % (fq, cls), 'exempt: ' + RAISE_EXEMPT[(fq, cls)], where,
                           key='C15-T|%s|%s' % (fq, cls))
                elif cls == '<unknown>' and norm(r.exc).endswith('[0]'):
                    # raise errors[0]: the list is filled with ValidationError objects only (C04-R checks the class)
                    chk.ok('C15-T', '%s re-raises a collected ValidationError' % fq, '', where, key='C15-T|%s|collected' % fq)
                else:
                    chk.fail('C15-T', '%s raises %s' % (fq, cls),
                             '`%s` can leave an entry point (%s) as a non-library exception' % (norm(r)[:60], e), where,
                             key='C15-T|%s|%s' % (fq, cls))
    chk.count('exception classes escaping the entry points', len(seen))

    # ---- I
    nsub = 0
    for fq in HEADER_FUNCS:
        fi = ix.func(fq)
        # names bound to split results (directly, or by tuple-unpacking the return of _split_msh)
        split_vars = set()
        for n in own_nodes(fi.node):
            if isinstance(n, ast.Assign):
                v = n.value
                if isinstance(v, ast.Call) and isinstance(v.func, ast.Attribute) and v.func.attr == 'split':
                    for t in n.targets:
                        if isinstance(t, ast.Name):
                            split_vars.add(t.id)
                if isinstance(v, ast.Call) and norm(v.func) == '_split_msh' and isinstance(n.targets[0], ast.Tuple):
                    split_vars.add(norm(n.targets[0].elts[0]))
        for n in own_nodes(fi.node):
            if isinstance(n, ast.Subscript) and isinstance(n.ctx, ast.Load) and isinstance(n.value, ast.Name) and \
                    n.value.id in split_vars and isinstance(n.slice, ast.Constant) and isinstance(n.slice.value, int) \
                    and n.slice.value >= 1:
                nsub += 1
                k = n.slice.value
                bctx = branch_context(n)
                guarded = subscript_guard(fi, n, n.value.id, k) is not None
                exempt = False
                if k == 1 and fq == 'parser._split_msh':
                    # fields = msh.split(field_sep) after ^MSH(?P<field_sep>\S) matched: the separator occurs at least once
                    # the separator that the line is split on was captured right after the literal MSH by re.match (anchored at 0):
                    # it occurs in the line at least once, so the split yields at least two pieces
                    pats = [a.value.args[0].value for a in own_nodes(fi.node) if isinstance(a, ast.Assign) and
                            isinstance(a.value, ast.Call) and norm(a.value.func) == 're.match' and a.value.args and
                            isinstance(a.value.args[0], ast.Constant) and isinstance(a.value.args[0].value, str)]
                    grp = [norm(a.targets[0]) for a in own_nodes(fi.node) if isinstance(a, ast.Assign) and isinstance(a.value, ast.Call) and
                           isinstance(a.value.func, ast.Attribute) and a.value.func.attr == 'group']
                    splits = [norm(a.value.args[0]) for a in own_nodes(fi.node) if isinstance(a, ast.Assign) and
                              norm(a.targets[0]) == n.value.id and isinstance(a.value, ast.Call) and
                              isinstance(a.value.func, ast.Attribute) and a.value.func.attr == 'split' and a.value.args]
                    exempt = any(p_.lstrip('^').startswith('MSH(?P<') and '\\S)' in p_ for p_ in pats) and \
                        any(sp in grp for sp in splits)
                construct = '%s: %s[%d]' % (fq, n.value.id, k)
                chk.ob('C15-I', construct, guarded or exempt,
                       '' if (guarded or exempt) else '`%s` is evaluated without an IndexError guard: a header with fewer than %d '
                       'fields leaks IndexError (condition: `%s`)' % (norm(n), k + 1, bctx or 'none'),
                       '%s:%d' % (fi.module.relpath, n.lineno), key='C15-I|%s|%s[%d]|%s' % (fq, n.value.id, k, bctx[:60]))
    chk.floor('constant-index header subscripts', nsub, 5)

    # ---- U: definite assignment
    chk.rule('C15-U', 'no local variable is read on a path on which it was not bound (an UnboundLocalError is a crash, whatever '
                      'the input that takes that path)')
    from . import codelemmas
    codelemmas.definite_assignment(chk, c, 'C15-U')

    # ---- P: definition / use protocol
    chk.rule('C15-P', 'definitions agree with their uses: no unbound one-argument super(), tuple-returning functions return the '
                      'arity their callers unpack, accessor pairs are bound to their property')
    codelemmas.call_protocol(chk, c, 'C15-P')

    # ---- D: None dereference under its own test
    chk.rule('C15-D', 'no branch that has just established `x is None` subscripts x or reads an attribute of it')
    codelemmas.none_dereference(chk, c, 'C15-D')

    # ---- R: regular-expression results
    chk.rule('C15-R', 'the result of re.match / re.search is dereferenced (.group / .groups ...) only where it was found to be a match')
    codelemmas.match_dereference(chk, c, 'C15-R')
    chk.rule('C15-Z', 'a name that is compared case-normalised is not measured in its raw form (upper-casing can change the length)')
    codelemmas.case_measure(chk, c, 'C15-Z')

    # ---- X: constant-index subscripts of the value text on the datatype path
    chk.rule('C15-X', 'on the datatype path (utils, factories, the date/time constructors) every constant-index subscript of '
                      'a text parameter is protected: a length test that forces len > index on every path to it (also as an '
                      'earlier operand of the same `and`), or an enclosing handler for IndexError')
    from ..cfg import ENTRY, len_implied
    nx = 0
    text_funcs = [fi for fq, fi in sorted(ix.functions.items())
                  if fi.module.name in ('utils', 'factories') or
                  (fi.module.name == 'base_datatypes' and fi.cls is not None and fi.cls.name in ('DT', 'TM', 'DTM', 'DateTimeDataType'))]
    # module-level helpers that those constructors hand (a piece of) their text to
    for fi in list(text_funcs):
        if fi.module.name != 'base_datatypes':
            continue
        for n in own_nodes(fi.node):
            if isinstance(n, ast.Call) and isinstance(n.func, ast.Name) and n.func.id in fi.module.functions:
                h = fi.module.functions[n.func.id]
                if h.cls is None and h.outer is None and h not in text_funcs:
                    text_funcs.append(h)
    for fi in text_funcs:
        params = set(fi.params)
        # locals cut out of a parameter (slices, tuple results of the offset splitter) are text as well
        changed = True
        while changed:
            changed = False
            for n in own_nodes(fi.node):
                if isinstance(n, ast.Assign):
                    srcs = {x.id for x in ast.walk(n.value) if isinstance(x, ast.Name)}
                    if srcs & params and (isinstance(n.value, ast.Subscript) or
                                          (isinstance(n.value, ast.Call) and norm(n.value.func) == '_split_offset')):
                        for t in n.targets:
                            for x in ast.walk(t):
                                if isinstance(x, ast.Name) and x.id not in params:
                                    params.add(x.id)
                                    changed = True
        g = None
        for n in own_nodes(fi.node):
            if not (isinstance(n, ast.Subscript) and isinstance(n.ctx, ast.Load) and isinstance(n.value, ast.Name) and
                    n.value.id in params and not isinstance(n.slice, ast.Slice)):
                continue
            try:
                k = ast.literal_eval(n.slice)
            except Exception:
                continue
            if not isinstance(k, int) or isinstance(k, bool):
                continue
            nx += 1
            need = k if k >= 0 else -k - 1
            var = n.value.id
            guarded = subscript_guard(fi, n, var, need)
            construct = '%s: %s' % (fi.qualname, norm(n))
            if guarded is not None:
                chk.ok('C15-X', construct, 'protected by: ' + guarded, '%s:%d' % (fi.module.relpath, n.lineno),
                       key='C15-X|%s|%s' % (fi.qualname, norm(n)))
                continue
            chk.ob('C15-X', construct, False,
                   '`%s` can be evaluated for a text of %d character(s) or fewer: IndexError is not a ValueError, so it passes the '
                   'TOLERANT fallback of datatype_factory and leaves parse_message as a crash' % (norm(n), need),
                   '%s:%d' % (fi.module.relpath, n.lineno), key='C15-X|%s|%s' % (fi.qualname, norm(n)))
    chk.floor('constant-index subscripts of value text on the datatype path', nx, 4)

    # ---- K: structure lookups keyed by names computed from the input are guarded
    chk.rule('C15-K', 'in the parser, every lookup of a structure dictionary (references / message profile) by a name computed from '
                      'the input is guarded (try/except KeyError, `in` test or .get): a position the structure does not define must '
                      'not leak KeyError')
    nlook = 0
    for fq in sorted(ix.functions):
        if not fq.startswith('parser.'):
            continue
        fi = ix.functions[fq]
        dict_params = {p_ for p_ in fi.params if p_ in ('references', 'reference', 'message_profile')}
        for n in own_nodes(fi.node):
            if isinstance(n, ast.Subscript) and isinstance(n.ctx, ast.Load) and isinstance(n.value, ast.Name) and \
                    n.value.id in dict_params and not isinstance(n.slice, ast.Constant):
                nlook += 1
                guarded = False
                p_ = n
                while p_ is not None and p_ is not fi.node:
                    par = getattr(p_, '_parent', None)
                    if isinstance(par, ast.Try) and any(p_ is b for b in par.body) and any(
                            h.type is None or any(x in norm(h.type) for x in ('KeyError', 'LookupError', 'Exception'))
                            for h in par.handlers):
                        guarded = True
                    p_ = par
                bctx = branch_context(n)
                if (' in %s' % n.value.id) in bctx and 'not in' not in bctx:
                    guarded = True
                if not guarded:
                    # the identical lookup was already made earlier under a KeyError guard that leaves the function
                    for m_ in own_nodes(fi.node):
                        if isinstance(m_, ast.Subscript) and m_ is not n and norm(m_) == norm(n) and m_.lineno < n.lineno:
                            q_ = m_
                            while q_ is not None and q_ is not fi.node:
                                par = getattr(q_, '_parent', None)
                                if isinstance(par, ast.Try) and any(q_ is b for b in par.body) and any(
                                        h.type is not None and 'KeyError' in norm(h.type) and
                                        any(isinstance(x, ast.Raise) for x in ast.walk(h)) for h in par.handlers):
                                    guarded = True
                                q_ = par
                chk.ob('C15-K', '%s: `%s`' % (fq, norm(n)[:50]), guarded,
                       '' if guarded else 'lookup by a computed name without KeyError guard (its siblings catch KeyError and fall back to '
                       'no reference): input with more pieces than the structure defines leaks KeyError', '%s:%d' % (fi.module.relpath, n.lineno),
                       key='C15-K|%s|%s' % (fq, norm(n)[:50]))
    chk.floor('guarded structure lookups in the parser', nlook, 4)

    # ---- N: a variable that a failed lookup leaves None is not dereferenced
    chk.rule('C15-N', 'when a guarded lookup fails (except-handler that neither assigns the variable nor leaves the function), the '
                      'variable it should have set is not subscripted afterwards')
    nn = 0
    for fn in te.funcs:
        if not (fn.module.name in ('validation', 'parser') or fn.qualname.startswith('core.')):
            continue
        for n in own_nodes(fn.node):
            if not (isinstance(n, ast.If) and isinstance(n.test, ast.Compare) and len(n.test.ops) == 1 and
                    isinstance(n.test.ops[0], ast.Is) and isinstance(n.test.left, ast.Name) and
                    isinstance(n.test.comparators[0], ast.Constant) and n.test.comparators[0].value is None):
                continue
            var = n.test.left.id
            for st in n.body:
                if not isinstance(st, ast.Try):
                    continue
                assigns = any(isinstance(x, ast.Assign) and norm(x.targets[0]) == var for b in st.body for x in ast.walk(b))
                if not assigns:
                    continue
                for h in st.handlers:
                    leaves = any(isinstance(x, (ast.Raise, ast.Return, ast.Continue, ast.Break)) for x in ast.walk(h))
                    sets = any(isinstance(x, ast.Assign) and norm(x.targets[0]) == var for x in ast.walk(h))
                    if leaves or sets:
                        continue
                    nn += 1
                    # is the variable subscripted after the if-statement on the fall-through path?
                    g = cfg_of(fn)
                    hn = g.handler_entry.get(id(h))
                    after = g.reach(hn, labels_ok=lambda a, b, lab: lab != 'exc') if hn else set()
                    deref = None
                    for nid in after:
                        nd = g.nodes[nid]
                        for x in ast.walk(nd.ast) if nd.kind in ('stmt', 'test') else ():
                            if isinstance(x, ast.Subscript) and isinstance(x.value, ast.Name) and x.value.id == var and \
                                    isinstance(x.ctx, ast.Load):
                                # not re-tested in between
                                deref = deref or (nd.lineno, norm(x))
                    chk.ob('C15-N', '%s: `%s` after the failed lookup' % (fn.qualname, var), deref is None,
                           '' if deref is None else 'the handler `except %s` leaves %s as None and execution continues to `%s` '
                           '(line %d): TypeError instead of a report' % (norm(h.type) if h.type else '', var, deref[1], deref[0]),
                           '%s:%d' % (fn.module.relpath, h.lineno), key='C15-N|%s|%s' % (fn.qualname, var))
    chk.count('failed-lookup handlers examined', nn)

    # ---- L: the validator looks a datatype structure up only where the element has a datatype
    chk.rule('C15-L', 'in the validator a structure lookup by `X.datatype` is made only under a test that established '
                      '`X.datatype is not None` (the tolerant parser resets the datatype of a base-datatype field with several '
                      'components to None; load_reference(None, ...) raises ChildNotFound out of validate(return_errors=True))')

    def _helper_body(fn, call):
        """the returned expression of a one-return local/module helper called by `call`, with the arguments substituted"""
        if not isinstance(call.func, ast.Name):
            return None
        cands = [x for x in ast.walk(fn.module.tree) if isinstance(x, ast.FunctionDef) and x.name == call.func.id]
        if len(cands) != 1:
            return None
        h = cands[0]
        rets = [x for x in ast.walk(h) if isinstance(x, ast.Return)]
        body = [b for b in h.body if not (isinstance(b, ast.Expr) and isinstance(b.value, ast.Constant))]
        if len(rets) != 1 or len(body) != 1 or body[0] is not rets[0] or rets[0].value is None:
            return None
        params = [a.arg for a in h.args.args]
        if len(call.args) != len(params) or call.keywords:
            return None
        sub = {p_: norm(a) for p_, a in zip(params, call.args)}
        return rets[0].value, sub

    def _implies_not_none(test, target, truth, sub=None, depth=0):
        """`test` evaluating to `truth` implies `target is not None` (target: normalised text of X.datatype)"""
        sub = sub or {}

        def txt(e):
            t = norm(e)
            if isinstance(e, ast.Attribute) and isinstance(e.value, ast.Name) and e.value.id in sub:
                t = '%s.%s' % (sub[e.value.id], e.attr)
            elif isinstance(e, ast.Name) and e.id in sub:
                t = sub[e.id]
            return t
        if isinstance(test, ast.UnaryOp) and isinstance(test.op, ast.Not):
            return _implies_not_none(test.operand, target, not truth, sub, depth)
        if isinstance(test, ast.BoolOp):
            conj = isinstance(test.op, ast.And)
            if conj == truth:       # (a and b) true / (a or b) false: every operand has that value
                return any(_implies_not_none(v, target, truth, sub, depth) for v in test.values)
            return all(_implies_not_none(v, target, truth, sub, depth) for v in test.values)
        if isinstance(test, ast.Compare) and len(test.ops) == 1 and isinstance(test.comparators[0], ast.Constant) and \
                test.comparators[0].value is None and txt(test.left) == target:
            return isinstance(test.ops[0], ast.IsNot) if truth else isinstance(test.ops[0], ast.Is)
        if isinstance(test, ast.Call) and depth < 2:
            hb = _helper_body(_cur[0], test)
            if hb:
                e, sub2 = hb
                sub2 = {k_: (sub.get(v_, v_)) for k_, v_ in sub2.items()}
                return _implies_not_none(e, target, truth, sub2, depth + 1)
        return False

    _cur = [None]
    nl = 0
    for fn in te.funcs:
        if fn.module.name != 'validation':
            continue
        _cur[0] = fn
        for n in own_nodes(fn.node):
            if not (isinstance(n, ast.Call) and norm(n.func).endswith('load_reference') and n.args and
                    isinstance(n.args[0], ast.Attribute) and n.args[0].attr == 'datatype'):
                continue
            nl += 1
            target = norm(n.args[0])
            ok = False
            child, par = n, getattr(n, '_parent', None)
            while par is not None and not isinstance(par, (ast.FunctionDef, ast.AsyncFunctionDef)):
                if isinstance(par, ast.If):
                    if any(child is b for b in par.body) and _implies_not_none(par.test, target, True):
                        ok = True
                    if any(child is b for b in par.orelse) and _implies_not_none(par.test, target, False):
                        ok = True
                child, par = par, getattr(par, '_parent', None)
            chk.ob('C15-L', '%s: `%s`' % (fn.qualname, norm(n)[:70]), ok,
                   '' if ok else 'no enclosing test establishes `%s is not None`: an element whose datatype the tolerant parser '
                   'reset to None makes validate() raise ChildNotFound instead of returning its report' % target,
                   '%s:%d' % (fn.module.relpath, n.lineno), key='C15-L|%s|%s' % (fn.qualname, target))
    chk.floor('datatype structure lookups in the validator (C15-L)', nl, 2)

    # ---- A
    fs = ix.func('core.ElementFinder._parse_structure')
    keys = set(te.returned_dict_items(fs))
    init = ix.func('core.Element.__init__')
    inited = {n.attr for n in own_nodes(init.node) if isinstance(n, ast.Attribute) and isinstance(n.ctx, ast.Store)
              and norm(n.value) == 'self'}
    elem = ix.cls('core.Element')
    props = set()
    for s in te.subs(elem):
        for cc in s.mro:
            props |= set(cc.properties)
    cond = sorted(k for k in keys if k not in inited and k not in props)
    chk.sample({'conditionally initialised attributes': cond})
    if 'reference' not in cond:
        chk.info('C15-A: `reference` is now initialised unconditionally (or no longer set by _find_structure)')
    reach = cg.reachable_cs(entries)
    nread = 0
    for fq in sorted(reach):
        fi = ix.functions[fq]
        for n in own_nodes(fi.node):
            if isinstance(n, ast.Attribute) and isinstance(n.ctx, ast.Load) and n.attr in cond:
                rt = te.type_of(n.value, fi)
                if not any(t.startswith('C:') and elem in ix.classes[t[2:]].mro for t in rt if t[2:] in ix.classes):
                    continue
                nread += 1
                guarded = False
                p = n
                while p is not None and p is not fi.node:
                    par = getattr(p, '_parent', None)
                    if isinstance(par, ast.Try) and any(p is b for b in par.body):
                        for h in par.handlers:
                            if h.type is None or any(x in norm(h.type) for x in ('AttributeError', 'Exception')):
                                guarded = True
                    p = par
                if not guarded and (fq, norm(n)) not in READ_EXEMPT and fi.cls is None:
                    # the read stands in a helper that only exempt functions call, handing their element on
                    callers = {cfq for cfq, sites in cg.sites.items() for s_ in sites if s_.kind == 'call' and
                               any(t.kind == 'func' and t.func is fi for t in s_.targets)}
                    ex = [k for k in READ_EXEMPT if k[0] in callers and k[1].split('.')[-1] == n.attr]
                    if callers and len(ex) == len(callers):
                        chk.ok('C15-A', '%s reads .%s' % (fq, n.attr), 'exempt through its only caller(s) %s: %s' % (
                            sorted(callers), READ_EXEMPT[ex[0]]), '%s:%d' % (fi.module.relpath, n.lineno),
                            key='C15-A|%s|%s' % (fq, norm(n)))
                        continue
                if not guarded and (fq, norm(n)) in READ_EXEMPT:
                    chk.ok('C15-A', '%s reads .%s' % (fq, n.attr), 'exempt: ' + READ_EXEMPT[(fq, norm(n))],
                           '%s:%d' % (fi.module.relpath, n.lineno), key='C15-A|%s|%s' % (fq, norm(n)))
                    continue
                chk.ob('C15-A', '%s reads .%s' % (fq, n.attr), guarded,
                       '' if guarded else '`%s` is read unguarded, but the attribute exists only when the element has a known '
                       'structure: an element without one (unknown MSH-9) raises AttributeError' % norm(n),
                       '%s:%d' % (fi.module.relpath, n.lineno), key='C15-A|%s|%s' % (fq, norm(n)))
    chk.floor('reads of conditionally initialised attributes on the entry paths', nread, 3)

    # ---- M
    rm = ix.func('mllp.MLLPRequestHandler._route_message')
    ok_map = False
    ok_outer = False
    for n in own_nodes(rm.node):
        if isinstance(n, ast.Try):
            calls = [norm(x.func) for b in n.body for x in ast.walk(b) if isinstance(x, ast.Call)]
            if 'get_message_type' in calls and len(n.body) == 1:
                for h in n.handlers:
                    if h.type is not None and 'ParserError' in norm(h.type) and any(
                            isinstance(x, ast.Raise) and 'InvalidHL7Message' in norm(x) for x in ast.walk(h)):
                        ok_map = True
            for h in n.handlers:
                if h.type is not None and norm(h.type) == 'Exception' and any('ERR' in norm(x) for x in ast.walk(h)):
                    if 'get_message_type' in calls:
                        ok_outer = True
    chk.ob('C15-M', '_route_message maps ParserError to InvalidHL7Message', ok_map, '', rm.loc, key='C15-M|map')
    chk.ob('C15-M', '_route_message hands any other exception of get_message_type to the ERR handler', ok_outer, '', rm.loc,
           key='C15-M|outer')
    chk.assume('implicit exceptions (arbitrary subscripts, None dereferences, library calls) outside the header code are not '
               'modelled: an untyped whole-program analysis of implicit raisers would drown in false reports')
