"""C19 -- concurrent use gives the same results as sequential use.

Sufficient condition decided statically: no function of the parse / build /
encode / validate / factory corpus writes process-wide state (module variables,
class-level attributes, structure tables, default dicts, BASE_DATATYPES), neither
directly nor through an alias; the only writers are the three set_default_*
functions, which the property itself excludes."""
import ast

from .. import ctx as ctxmod
from ..src import own_nodes

EXCLUDED = {
    '__init__.set_default_encoding_chars': 'process-wide setter (outside the corpus by the wording of the property)',
    '__init__.set_default_validation_level': 'process-wide setter',
    '__init__.set_default_version': 'process-wide setter',
}
ENTRY_HINTS = ('parser.parse_message', 'parser.parse_segment', 'parser.parse_field', 'parser.parse_component',
               'core.Message.__init__', 'core.Element.to_er7', 'core.Message.to_mllp', 'core.Element.validate',
               'validation.Validator.validate', 'factories.datatype_factory')


def run(chk):
    c = ctxmod.get()
    fx, cg, ix = c.fx, c.cg, c.index
    chk.rule('C19-W', 'no function outside the three set_default_* setters writes a module variable, a class-level '
                      'attribute or an object that may alias one (alias graph over variables, returns, fields, '
                      'parameters; elements of shared containers are shared)')
    chk.rule('C19-D', 'no function mutates a parameter whose default value is a mutable literal (shared across calls)')
    chk.rule('C19-S', 'positive control: the three process-wide setters are recognised as writers of shared state')
    chk.rule('C19-L', 'modules are loaded lazily only through importlib.import_module (CPython import lock)')

    # shared roots (enumerated from the source, for the evidence)
    roots = []
    for mn, mod in sorted(ix.modules.items()):
        for name in sorted(mod.assigns):
            k = ('global', mn, name)
            if fx.is_mutable_root(k):
                roots.append('%s.%s' % (mn, name))
    for qn, ci in sorted(ix.classes.items()):
        for name in sorted(ci.attrs):
            k = ('clsattr', qn, name)
            if fx.is_mutable_root(k) and not isinstance(ci.attrs[name], ast.Call):
                roots.append('%s.%s' % (qn, name))
    chk.count('mutable shared roots enumerated', len(roots))
    chk.sample({'shared_roots': roots[:25]})

    reach = cg.reachable([e for e in ENTRY_HINTS if e in ix.functions])
    chk.count('functions reachable from the named entry points', len(reach))
    chk.floor('entry points found', len([e for e in ENTRY_HINTS if e in ix.functions]), 8)

    setters_seen = 0
    n_sites = 0
    for fq in sorted(fx.writes):
        fi = ix.functions[fq]
        for w in fx.writes[fq]:
            n_sites += 1
            shared = fx.resolve_shared(w)
            if fq in EXCLUDED:
                if shared:
                    setters_seen += 1
                continue
            construct = '%s writes %s' % (fq, '/'.join(sorted('%s.%s' % (r[1], r[2]) for r in shared)) or w.loc)
            if shared:
                chk.fail('C19-W', construct,
                         '%s `%s` changes process-wide state %s (%s)' % (w.how, w.text, sorted(shared)[:3],
                                                                        'reachable from the corpus entry points'
                                                                        if fq in reach else 'library function'),
                         w.where(), key='C19-W|%s|%s' % (fq, ','.join(sorted('%s.%s' % (r[1], r[2]) for r in shared))))
            else:
                chk.ok('C19-W', '%s:%s %s' % (fq, w.how, w.text[:40]), '', w.where(),
                       key='C19-W|%s|%s|%s' % (fq, w.how, w.text[:60]))
            if w.loc[0] == 'param':
                d = fi.defaults.get(w.loc[2])
                if isinstance(d, (ast.List, ast.Dict, ast.Set, ast.ListComp, ast.DictComp)) or \
                        (isinstance(d, ast.Call) and isinstance(d.func, ast.Name) and d.func.id in ('list', 'dict', 'set')):
                    chk.fail('C19-D', '%s(%s=<mutable default>)' % (fq, w.loc[2]),
                             '`%s` mutates the default object shared by every call' % w.text, w.where(),
                             key='C19-D|%s|%s' % (fq, w.loc[2]))
    chk.count('write sites classified', n_sites)
    chk.ob('C19-S', 'set_default_* recognised', setters_seen >= 3,
           'only %d of the 3 setter writes were recognised as shared writes: the detector is blind' % setters_seen,
           key='C19-S')
    if setters_seen < 3:
        from ..report import AnalysisError
        raise AnalysisError('positive control failed: shared-write detector sees %d/3 set_default_* writes' % setters_seen)

    # `global` declarations anywhere else
    for fq, fi in sorted(ix.functions.items()):
        for n in own_nodes(fi.node):
            if isinstance(n, ast.Global) and fq not in EXCLUDED:
                chk.fail('C19-W', '%s declares global %s' % (fq, ','.join(n.names)),
                         'rebinding of a module variable outside the setters', '%s:%d' % (fi.module.relpath, n.lineno),
                         key='C19-W|%s|global %s' % (fq, ','.join(n.names)))

    # lazy loading
    n_dyn = 0
    for fq, sites in sorted(cg.sites.items()):
        for s in sites:
            if s.kind == 'call' and isinstance(s.node.func, (ast.Name, ast.Attribute)):
                name = s.node.func.id if isinstance(s.node.func, ast.Name) else s.node.func.attr
                if name in ('__import__', 'exec', 'eval', 'reload', 'execfile'):
                    chk.fail('C19-L', '%s calls %s' % (fq, name), 'dynamic code loading outside importlib',
                             '%s:%d' % (s.fn.module.relpath, s.lineno), key='C19-L|%s|%s' % (fq, name))
                if name == 'import_module':
                    n_dyn += 1
                    chk.ok('C19-L', '%s:%s' % (fq, 'import_module'), '', '%s:%d' % (s.fn.module.relpath, s.lineno),
                           key='C19-L|%s|%d' % (fq, n_dyn))
    chk.floor('importlib.import_module sites', n_dyn, 3)

    chk.assume('CPython library calls used by the corpus (re, datetime.strptime, Decimal, importlib) are thread-safe')
    chk.assume('callers do not share one element or datatype object between threads')
    chk.assume('alias analysis does not follow objects stored into and later read back from run-time containers '
               '(holds relation); direct aliases through variables, returns, fields, parameters and elements of '
               'shared containers are followed')
    chk.exhaustive = True
    from . import memo as _memo
    _memo.wire(chk, c, 'C19-M', None, 'the package')
