"""Canonical form of the repository's syntax trees.

Every rule of hl7lint reads the trees produced here, so that edits which cannot change behaviour do not change what the
rules see.  Each rewrite is semantics-preserving for the code it is applied to (the conditions are checked on the node):

  C1  if / conditional-expression with an else branch and a negative test (`not X`, `!=`, `is not`, `not in`) is turned
      into the positive test with the branches exchanged;
  C2  `d.update({k: v, ...})` as a statement becomes `d[k] = v; ...`;
  C3  `for t in it: xs.append(e)` (optionally under one `if c:` without else) becomes `xs.extend([e for t in it if c])`,
      `xs = []` directly followed by `xs.extend([...])` becomes `xs = [...]`, and `x = E` directly followed by
      `return x` becomes `return E`;
  C4  `'..{0}..{1}..'.format(a, b)`, `'..{}..'.format(a)`, `'..%s..%d..' % (a, b)` and `'..%s..' % a` with plain fields
      become the f-string `f'..{a}..{b}..'` (a tuple-valued single `%` operand is the one case where the originals differ
      from each other; the repository formats names, numbers and delimiters);

  C6  negations are pushed inwards (negation normal form): `not (a or b)` -> `not a and not b`, `not (x in T)` -> `x not in T`
      (ordering comparisons are left alone: `not (a <= b)` is not `a > b` for sets);
  C7  `x = A if c else B` and `return A if c else B` become if statements with one assignment / return per branch.

  C8  a counting loop `i = A; while i < B: ...; i += 1` (nothing else writes i or B, no jump in the body, i not used
      afterwards) becomes `for i in range(A, B): ...`.

  C9  `if a: if b: S` without else branches becomes `if a and b: S` (same short-circuit order).

Line numbers are kept (ast.copy_location), so reports still point into the source file.
"""
import ast
import copy
import re

NEG = {ast.NotEq: ast.Eq, ast.IsNot: ast.Is, ast.NotIn: ast.In}
_FIELD = re.compile(r'\{(\d*|[A-Za-z_]\w*)\}')


def _positive(test):
    """(positive test, flipped?)"""
    if isinstance(test, ast.UnaryOp) and isinstance(test.op, ast.Not):
        return test.operand, True
    if isinstance(test, ast.Compare) and len(test.ops) == 1 and type(test.ops[0]) in NEG:
        t = ast.copy_location(ast.Compare(left=test.left, ops=[NEG[type(test.ops[0])]()], comparators=test.comparators), test)
        return t, True
    return test, False


def _leaves(stmts):
    """the block always ends by leaving (return / raise / continue / break)"""
    if not stmts:
        return False
    last = stmts[-1]
    if isinstance(last, (ast.Return, ast.Raise, ast.Continue, ast.Break)):
        return True
    if isinstance(last, ast.If) and last.orelse:
        return _leaves(last.body) and _leaves(last.orelse)
    return False


def _names(node):
    return {n.id for n in ast.walk(node) if isinstance(n, ast.Name)}


def _fstring(parts, at):
    vals = []
    for p in parts:
        if isinstance(p, str):
            if p:
                vals.append(ast.Constant(value=p))
        else:
            vals.append(ast.FormattedValue(value=p, conversion=-1, format_spec=None))
    node = ast.JoinedStr(values=vals)
    ast.copy_location(node, at)
    for v in vals:
        ast.copy_location(v, at)
    return node


def _from_format(call):
    """'..{0}..'.format(a, ...) -> parts, or None"""
    f = call.func
    if not (isinstance(f, ast.Attribute) and f.attr == 'format' and isinstance(f.value, ast.Constant) and
            isinstance(f.value.value, str)) or any(isinstance(a, ast.Starred) for a in call.args) or \
            any(k.arg is None for k in call.keywords):
        return None
    s = f.value.value
    if '{{' in s or '}}' in s or s.count('{') != len(_FIELD.findall(s)) or s.count('{') != s.count('}'):
        return None
    kw = {k.arg: k.value for k in call.keywords}
    parts = []
    pos = 0
    auto = 0
    for m in _FIELD.finditer(s):
        parts.append(s[pos:m.start()])
        key = m.group(1)
        if key == '':
            idx = auto
            auto += 1
            if idx >= len(call.args):
                return None
            parts.append(call.args[idx])
        elif key.isdigit():
            if int(key) >= len(call.args):
                return None
            parts.append(call.args[int(key)])
        else:
            if key not in kw:
                return None
            parts.append(kw[key])
        pos = m.end()
    parts.append(s[pos:])
    return parts


def _from_percent(binop):
    if not (isinstance(binop.op, ast.Mod) and isinstance(binop.left, ast.Constant) and isinstance(binop.left.value, str)):
        return None
    s = binop.left.value
    specs = re.findall(r'%(.)', s)
    if not specs or any(c not in 'sd' for c in specs):
        return None
    if isinstance(binop.right, ast.Tuple):
        args = list(binop.right.elts)
    else:
        args = [binop.right]
    if len(args) != len(specs) or any(isinstance(a, ast.Starred) for a in args):
        return None
    parts = []
    pos = 0
    for i, m in enumerate(re.finditer(r'%[sd]', s)):
        parts.append(s[pos:m.start()])
        parts.append(args[i])
        pos = m.end()
    parts.append(s[pos:])
    if any('{' in p or '}' in p for p in parts if isinstance(p, str)):
        return None
    return parts


# ordering operators are NOT inverted: `not (a <= b)` is not `a > b` for sets (the validator compares sets of child names)
INV = {ast.Eq: ast.NotEq, ast.NotEq: ast.Eq, ast.Is: ast.IsNot, ast.IsNot: ast.Is, ast.In: ast.NotIn, ast.NotIn: ast.In}


def _negate(e):
    """negation of a Boolean expression with `not` pushed inwards through and / or / not and the (in)equality, identity and
    membership operators"""
    if isinstance(e, ast.UnaryOp) and isinstance(e.op, ast.Not):
        return e.operand
    if isinstance(e, ast.BoolOp):
        op = ast.Or() if isinstance(e.op, ast.And) else ast.And()
        return ast.copy_location(ast.BoolOp(op=op, values=[_negate(v) for v in e.values]), e)
    if isinstance(e, ast.Compare) and len(e.ops) == 1 and type(e.ops[0]) in INV:
        return ast.copy_location(ast.Compare(left=e.left, ops=[INV[type(e.ops[0])]()], comparators=e.comparators), e)
    return ast.copy_location(ast.UnaryOp(op=ast.Not(), operand=e), e)


class Canon(ast.NodeTransformer):
    # ---- expressions
    def visit_UnaryOp(self, node):
        self.generic_visit(node)
        if isinstance(node.op, ast.Not) and isinstance(node.operand, (ast.BoolOp, ast.UnaryOp)) or \
                (isinstance(node.op, ast.Not) and isinstance(node.operand, ast.Compare) and len(node.operand.ops) == 1 and
                 type(node.operand.ops[0]) in INV):
            if isinstance(node.operand, ast.UnaryOp) and not isinstance(node.operand.op, ast.Not):
                return node
            return _negate(node.operand)     # C6: negation normal form
        return node

    def visit_Call(self, node):
        self.generic_visit(node)
        parts = _from_format(node)
        if parts is not None and not any('{' in p or '}' in p for p in parts if isinstance(p, str)):
            return _fstring(parts, node)
        return node

    def visit_BinOp(self, node):
        self.generic_visit(node)
        parts = _from_percent(node)
        if parts is not None:
            return _fstring(parts, node)
        return node

    def visit_IfExp(self, node):
        self.generic_visit(node)
        t, flipped = _positive(node.test)
        if flipped:
            node.test, node.body, node.orelse = t, node.orelse, node.body
        return node

    # ---- statements
    def visit_If(self, node):
        self.generic_visit(node)
        if node.orelse:
            t, flipped = _positive(node.test)
            if flipped:
                node.test, node.body, node.orelse = t, node.orelse, node.body
        # C9: `if a: if b: S` (no else on either, nothing else in the outer body) is `if a and b: S`
        while not node.orelse and len(node.body) == 1 and isinstance(node.body[0], ast.If) and not node.body[0].orelse:
            inner = node.body[0]
            parts = []
            for t in (node.test, inner.test):
                parts.extend(t.values if isinstance(t, ast.BoolOp) and isinstance(t.op, ast.And) else [t])
            node.test = ast.copy_location(ast.BoolOp(op=ast.And(), values=parts), node.test)
            node.body = inner.body
        return node

    def _expand_choice(self, node, make):
        """C7: a statement whose whole value is a conditional expression becomes an if statement with one such statement
        per branch (`x = A if c else B` -> `if c: x = A else: x = B`), so that branch-sensitive rules see one form only"""
        v = node.value
        if not isinstance(v, ast.IfExp):
            return node
        body = make(v.body)
        orelse = make(v.orelse)
        for n_ in (body, orelse):
            ast.copy_location(n_, node)
        new = ast.If(test=v.test, body=[self._expand_choice(body, make)] if isinstance(v.body, ast.IfExp) else [body],
                     orelse=[self._expand_choice(orelse, make)] if isinstance(v.orelse, ast.IfExp) else [orelse])
        ast.copy_location(new, node)
        return new

    def visit_Assign(self, node):
        self.generic_visit(node)
        if isinstance(node.value, ast.IfExp):
            tg = node.targets
            return self._expand_choice(node, lambda val: ast.Assign(targets=[copy.deepcopy(t) for t in tg], value=val,
                                                                    type_comment=None))
        return node

    def visit_Return(self, node):
        self.generic_visit(node)
        if isinstance(node.value, ast.IfExp):
            return self._expand_choice(node, lambda val: ast.Return(value=val))
        return node

    def visit_Expr(self, node):
        self.generic_visit(node)
        v = node.value
        if isinstance(v, ast.Call) and isinstance(v.func, ast.Attribute) and v.func.attr == 'update' and \
                len(v.args) == 1 and not v.keywords and isinstance(v.args[0], ast.Dict) and v.args[0].keys and \
                all(k is not None for k in v.args[0].keys) and isinstance(v.func.value, (ast.Name, ast.Attribute)):
            out = []
            for k, val in zip(v.args[0].keys, v.args[0].values):
                tgt = ast.Subscript(value=copy.deepcopy(v.func.value), slice=k, ctx=ast.Store())
                a = ast.Assign(targets=[tgt], value=val, type_comment=None)
                ast.copy_location(a, node)
                ast.copy_location(tgt, node)
                out.append(a)
            return out
        return node

    def visit_For(self, node):
        self.generic_visit(node)
        if node.orelse or len(node.body) != 1:
            return node
        st = node.body[0]
        ifs = []
        if isinstance(st, ast.If) and not st.orelse and len(st.body) == 1:
            ifs = [st.test]
            st = st.body[0]
        if isinstance(st, ast.Expr) and isinstance(st.value, ast.Call) and isinstance(st.value.func, ast.Attribute) and \
                st.value.func.attr == 'append' and isinstance(st.value.func.value, ast.Name) and \
                len(st.value.args) == 1 and not st.value.keywords:
            xs = st.value.func.value.id
            used = _names(st.value.args[0]) | _names(node.iter)
            for i_ in ifs:
                used |= _names(i_)
            if xs in used or xs in _names(node.target):
                return node
            comp = ast.ListComp(elt=st.value.args[0],
                                generators=[ast.comprehension(target=node.target, iter=node.iter, ifs=ifs, is_async=0)])
            call = ast.Call(func=ast.Attribute(value=ast.Name(id=xs, ctx=ast.Load()), attr='extend', ctx=ast.Load()),
                            args=[comp], keywords=[])
            ex = ast.Expr(value=call)
            for n in (comp, call, call.func, call.func.value, ex):
                ast.copy_location(n, node)
            return ex
        return node

    @staticmethod
    def _counting_while(stmts):
        """C8: `i = A; ...; while i < B: body; i += 1` with nothing else touching i or B  ->  `for i in range(A, B): body`"""
        out = list(stmts)
        for k, st in enumerate(out):
            if not (isinstance(st, ast.While) and not st.orelse and isinstance(st.test, ast.Compare) and
                    len(st.test.ops) == 1 and isinstance(st.test.ops[0], (ast.Lt, ast.LtE)) and
                    isinstance(st.test.left, ast.Name) and len(st.body) >= 2):
                continue
            i = st.test.left.id
            bound = st.test.comparators[0]
            last = st.body[-1]
            if not (isinstance(last, ast.AugAssign) and isinstance(last.op, ast.Add) and isinstance(last.target, ast.Name) and
                    last.target.id == i and isinstance(last.value, ast.Constant) and last.value.value == 1):
                continue
            body = st.body[:-1]
            touched = set()
            jumps = False
            for b in body:
                for x in ast.walk(b):
                    if isinstance(x, ast.Name) and isinstance(x.ctx, (ast.Store, ast.Del)):
                        touched.add(x.id)
                    if isinstance(x, (ast.Continue, ast.Break, ast.Return)):
                        jumps = True
            if jumps or i in touched or (_names(bound) & touched) or \
                    any(isinstance(x, ast.Call) for x in ast.walk(bound)):
                continue
            # the initialisation: the closest earlier statement of the block assigning i, nothing in between reading or writing i
            init = None
            for j in range(k - 1, -1, -1):
                p_ = out[j]
                if isinstance(p_, ast.Assign) and len(p_.targets) == 1 and isinstance(p_.targets[0], ast.Name) and \
                        p_.targets[0].id == i:
                    init = j
                    break
                if not isinstance(p_, ast.Assign) or i in _names(p_):
                    break
            if init is None:
                continue
            used_after = any(i in _names(x) for x in out[k + 1:])
            if used_after:
                continue
            stop = bound if isinstance(st.test.ops[0], ast.Lt) else ast.BinOp(left=bound, op=ast.Add(), right=ast.Constant(value=1))
            rng = ast.Call(func=ast.Name(id='range', ctx=ast.Load()), args=[out[init].value, stop], keywords=[])
            loop = ast.For(target=ast.Name(id=i, ctx=ast.Store()), iter=rng, body=body, orelse=[], type_comment=None)
            for n_ in (stop, rng, rng.func, loop, loop.target):
                ast.copy_location(n_, st)
            loop._from_while = True
            out[k] = loop
            del out[init]
            return Canon._counting_while(out)
        return out

    def _block(self, stmts):
        """pairwise clean-ups on a statement list (after the children were rewritten)"""
        stmts = self._counting_while(stmts)
        redo = []
        for st in stmts:
            r = self.visit_For(st) if isinstance(st, ast.For) and getattr(st, '_from_while', False) else st
            redo.append(r)
        stmts = redo
        out = []
        for st in stmts:
            prev = out[-1] if out else None
            # xs = [] ; xs.extend([comp])  ->  xs = [comp]
            if prev is not None and isinstance(prev, ast.Assign) and len(prev.targets) == 1 and \
                    isinstance(prev.targets[0], ast.Name) and isinstance(prev.value, ast.List) and not prev.value.elts and \
                    isinstance(st, ast.Expr) and isinstance(st.value, ast.Call) and \
                    isinstance(st.value.func, ast.Attribute) and st.value.func.attr == 'extend' and \
                    isinstance(st.value.func.value, ast.Name) and st.value.func.value.id == prev.targets[0].id and \
                    len(st.value.args) == 1 and isinstance(st.value.args[0], ast.ListComp) and \
                    prev.targets[0].id not in _names(st.value.args[0]):
                new = ast.Assign(targets=prev.targets, value=st.value.args[0], type_comment=None)
                ast.copy_location(new, st)
                out[-1] = new
                continue
            # x = E ; return x  ->  return E
            if prev is not None and isinstance(prev, ast.Assign) and len(prev.targets) == 1 and \
                    isinstance(prev.targets[0], ast.Name) and isinstance(st, ast.Return) and \
                    isinstance(st.value, ast.Name) and st.value.id == prev.targets[0].id:
                new = ast.Return(value=prev.value)
                ast.copy_location(new, st)
                out[-1] = new
                continue
            out.append(st)
        return out

    def generic_visit(self, node):
        node = super().generic_visit(node)
        for field in ('body', 'orelse', 'finalbody'):
            v = getattr(node, field, None)
            if isinstance(v, list) and v and isinstance(v[0], ast.stmt):
                setattr(node, field, self._block(v))
        return node


def canonicalize(tree):
    tree = Canon().visit(tree)
    ast.fix_missing_locations(tree)
    return tree
