"""Canonical form of the repository's syntax trees.

Every rule of hl7lint reads the trees produced here, so that edits which cannot change behaviour do not change what the
rules see.  Each rewrite is semantics-preserving for the code it is applied to (the conditions are checked on the node):

  C1  if / conditional-expression with an else branch and a negative test (`not X`, `!=`, `is not`, `not in`) is turned
      into the positive test with the branches exchanged;
  C2  `d.update({k: v, ...})` as a statement becomes `d[k] = v; ...`;
  C3  `for t in it: xs.append(e)` (optionally under one `if c:` without else) becomes `xs.extend([e for t in it if c])`,
      `xs = []` directly followed by `xs.extend([...])` becomes `xs = [...]`, and `x = E` directly followed by
      `return x` becomes `return E`;
  C4  `'..{0}..{1}..'.format(a, b)`, `'..{}..'.format(a)`, `'..%s..%d..' % (a, b)` and `'..%s..' % a` with plain fields
      become the f-string `f'..{a}..{b}..'` (a tuple-valued single `%` operand is the one case where the originals differ
      from each other; the repository formats names, numbers and delimiters);

Line numbers are kept (ast.copy_location), so reports still point into the source file.
"""
import ast
import copy
import re

NEG = {ast.NotEq: ast.Eq, ast.IsNot: ast.Is, ast.NotIn: ast.In}
_FIELD = re.compile(r'\{(\d*|[A-Za-z_]\w*)\}')


def _positive(test):
    """(positive test, flipped?)"""
    if isinstance(test, ast.UnaryOp) and isinstance(test.op, ast.Not):
        return test.operand, True
    if isinstance(test, ast.Compare) and len(test.ops) == 1 and type(test.ops[0]) in NEG:
        t = ast.copy_location(ast.Compare(left=test.left, ops=[NEG[type(test.ops[0])]()], comparators=test.comparators), test)
        return t, True
    return test, False


def _leaves(stmts):
    """the block always ends by leaving (return / raise / continue / break)"""
    if not stmts:
        return False
    last = stmts[-1]
    if isinstance(last, (ast.Return, ast.Raise, ast.Continue, ast.Break)):
        return True
    if isinstance(last, ast.If) and last.orelse:
        return _leaves(last.body) and _leaves(last.orelse)
    return False


def _names(node):
    return {n.id for n in ast.walk(node) if isinstance(n, ast.Name)}


def _fstring(parts, at):
    vals = []
    for p in parts:
        if isinstance(p, str):
            if p:
                vals.append(ast.Constant(value=p))
        else:
            vals.append(ast.FormattedValue(value=p, conversion=-1, format_spec=None))
    node = ast.JoinedStr(values=vals)
    ast.copy_location(node, at)
    for v in vals:
        ast.copy_location(v, at)
    return node


def _from_format(call):
    """'..{0}..'.format(a, ...) -> parts, or None"""
    f = call.func
    if not (isinstance(f, ast.Attribute) and f.attr == 'format' and isinstance(f.value, ast.Constant) and
            isinstance(f.value.value, str)) or any(isinstance(a, ast.Starred) for a in call.args) or \
            any(k.arg is None for k in call.keywords):
        return None
    s = f.value.value
    if '{{' in s or '}}' in s or s.count('{') != len(_FIELD.findall(s)) or s.count('{') != s.count('}'):
        return None
    kw = {k.arg: k.value for k in call.keywords}
    parts = []
    pos = 0
    auto = 0
    for m in _FIELD.finditer(s):
        parts.append(s[pos:m.start()])
        key = m.group(1)
        if key == '':
            idx = auto
            auto += 1
            if idx >= len(call.args):
                return None
            parts.append(call.args[idx])
        elif key.isdigit():
            if int(key) >= len(call.args):
                return None
            parts.append(call.args[int(key)])
        else:
            if key not in kw:
                return None
            parts.append(kw[key])
        pos = m.end()
    parts.append(s[pos:])
    return parts


def _from_percent(binop):
    if not (isinstance(binop.op, ast.Mod) and isinstance(binop.left, ast.Constant) and isinstance(binop.left.value, str)):
        return None
    s = binop.left.value
    specs = re.findall(r'%(.)', s)
    if not specs or any(c not in 'sd' for c in specs):
        return None
    if isinstance(binop.right, ast.Tuple):
        args = list(binop.right.elts)
    else:
        args = [binop.right]
    if len(args) != len(specs) or any(isinstance(a, ast.Starred) for a in args):
        return None
    parts = []
    pos = 0
    for i, m in enumerate(re.finditer(r'%[sd]', s)):
        parts.append(s[pos:m.start()])
        parts.append(args[i])
        pos = m.end()
    parts.append(s[pos:])
    if any('{' in p or '}' in p for p in parts if isinstance(p, str)):
        return None
    return parts


class Canon(ast.NodeTransformer):
    # ---- expressions
    def visit_Call(self, node):
        self.generic_visit(node)
        parts = _from_format(node)
        if parts is not None and not any('{' in p or '}' in p for p in parts if isinstance(p, str)):
            return _fstring(parts, node)
        return node

    def visit_BinOp(self, node):
        self.generic_visit(node)
        parts = _from_percent(node)
        if parts is not None:
            return _fstring(parts, node)
        return node

    def visit_IfExp(self, node):
        self.generic_visit(node)
        t, flipped = _positive(node.test)
        if flipped:
            node.test, node.body, node.orelse = t, node.orelse, node.body
        return node

    # ---- statements
    def visit_If(self, node):
        self.generic_visit(node)
        if node.orelse:
            t, flipped = _positive(node.test)
            if flipped:
                node.test, node.body, node.orelse = t, node.orelse, node.body
        return node

    def visit_Expr(self, node):
        self.generic_visit(node)
        v = node.value
        if isinstance(v, ast.Call) and isinstance(v.func, ast.Attribute) and v.func.attr == 'update' and \
                len(v.args) == 1 and not v.keywords and isinstance(v.args[0], ast.Dict) and v.args[0].keys and \
                all(k is not None for k in v.args[0].keys) and isinstance(v.func.value, (ast.Name, ast.Attribute)):
            out = []
            for k, val in zip(v.args[0].keys, v.args[0].values):
                tgt = ast.Subscript(value=copy.deepcopy(v.func.value), slice=k, ctx=ast.Store())
                a = ast.Assign(targets=[tgt], value=val, type_comment=None)
                ast.copy_location(a, node)
                ast.copy_location(tgt, node)
                out.append(a)
            return out
        return node

    def visit_For(self, node):
        self.generic_visit(node)
        if node.orelse or len(node.body) != 1:
            return node
        st = node.body[0]
        ifs = []
        if isinstance(st, ast.If) and not st.orelse and len(st.body) == 1:
            ifs = [st.test]
            st = st.body[0]
        if isinstance(st, ast.Expr) and isinstance(st.value, ast.Call) and isinstance(st.value.func, ast.Attribute) and \
                st.value.func.attr == 'append' and isinstance(st.value.func.value, ast.Name) and \
                len(st.value.args) == 1 and not st.value.keywords:
            xs = st.value.func.value.id
            used = _names(st.value.args[0]) | _names(node.iter)
            for i_ in ifs:
                used |= _names(i_)
            if xs in used or xs in _names(node.target):
                return node
            comp = ast.ListComp(elt=st.value.args[0],
                                generators=[ast.comprehension(target=node.target, iter=node.iter, ifs=ifs, is_async=0)])
            call = ast.Call(func=ast.Attribute(value=ast.Name(id=xs, ctx=ast.Load()), attr='extend', ctx=ast.Load()),
                            args=[comp], keywords=[])
            ex = ast.Expr(value=call)
            for n in (comp, call, call.func, call.func.value, ex):
                ast.copy_location(n, node)
            return ex
        return node

    def _block(self, stmts):
        """pairwise clean-ups on a statement list (after the children were rewritten)"""
        out = []
        for st in stmts:
            prev = out[-1] if out else None
            # xs = [] ; xs.extend([comp])  ->  xs = [comp]
            if prev is not None and isinstance(prev, ast.Assign) and len(prev.targets) == 1 and \
                    isinstance(prev.targets[0], ast.Name) and isinstance(prev.value, ast.List) and not prev.value.elts and \
                    isinstance(st, ast.Expr) and isinstance(st.value, ast.Call) and \
                    isinstance(st.value.func, ast.Attribute) and st.value.func.attr == 'extend' and \
                    isinstance(st.value.func.value, ast.Name) and st.value.func.value.id == prev.targets[0].id and \
                    len(st.value.args) == 1 and isinstance(st.value.args[0], ast.ListComp) and \
                    prev.targets[0].id not in _names(st.value.args[0]):
                new = ast.Assign(targets=prev.targets, value=st.value.args[0], type_comment=None)
                ast.copy_location(new, st)
                out[-1] = new
                continue
            # x = E ; return x  ->  return E
            if prev is not None and isinstance(prev, ast.Assign) and len(prev.targets) == 1 and \
                    isinstance(prev.targets[0], ast.Name) and isinstance(st, ast.Return) and \
                    isinstance(st.value, ast.Name) and st.value.id == prev.targets[0].id:
                new = ast.Return(value=prev.value)
                ast.copy_location(new, st)
                out[-1] = new
                continue
            out.append(st)
        return out

    def generic_visit(self, node):
        node = super().generic_visit(node)
        for field in ('body', 'orelse', 'finalbody'):
            v = getattr(node, field, None)
            if isinstance(v, list) and v and isinstance(v[0], ast.stmt):
                setattr(node, field, self._block(v))
        return node


def canonicalize(tree):
    tree = Canon().visit(tree)
    ast.fix_missing_locations(tree)
    return tree
