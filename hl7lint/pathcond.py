"""Path conditions of a statement and their evaluation on a finite grid.

`conditions(g, target)` lists, for every acyclic CFG path from the function entry to the node `target`, the tests passed
and the outcome taken: [(test expression, True/False), ...].  The disjunction over the paths of the conjunction of the
outcomes is the condition under which the statement runs (for the loop-free guard code this is used on, exactly).

`holds(paths, env, atoms)` evaluates that condition for one assignment of integers to the symbols.  Expressions are
interpreted structurally (comparisons, and/or/not, + and -, int(), constants); a sub-expression whose normal text is a key
of `env` takes that value; anything else must be listed in `atoms` (free Boolean facts, enumerated by the caller) or the
evaluation raises Unknown.  Nothing of the repository is executed: the interpreter walks the syntax tree of the tests.
"""
import ast

from .src import norm
from .cfg import ENTRY


class Unknown(Exception):
    pass


def conditions(g, target, limit=5000):
    out = []
    stack = [(ENTRY, [], {ENTRY})]
    n = 0
    while stack:
        node, conds, seen = stack.pop()
        n += 1
        if n > limit:
            raise Unknown('too many paths')
        if node == target:
            out.append(conds)
            continue
        nd = g.nodes.get(node)
        for d, lab in g.succ[node]:
            if d in seen:
                continue
            if lab == 'exc' and getattr(g.nodes.get(d), 'kind', '') != 'handler':
                continue          # exceptions that leave the function; those caught by a handler of the function are followed
            c2 = conds
            if nd is not None and nd.kind == 'test' and lab in ('true', 'false'):
                c2 = conds + [(nd.ast, lab == 'true')]
            stack.append((d, c2, seen | {d}))
    return out


def evaluate(e, env, atoms=None, subst=None):
    """value of expression e; env: norm text -> value; atoms: norm text -> bool; subst: callable giving a replacement node"""
    if subst is not None:
        r = subst(e)
        if r is not None:
            e = r
    t = norm(e)
    if t in env:
        return env[t]
    if atoms is not None and t in atoms:
        return atoms[t]
    if isinstance(e, ast.Constant):
        return e.value
    if isinstance(e, ast.UnaryOp):
        v = evaluate(e.operand, env, atoms, subst)
        if isinstance(e.op, ast.Not):
            return not v
        if isinstance(e.op, ast.USub):
            return -v
        if isinstance(e.op, ast.UAdd):
            return +v
    if isinstance(e, ast.BoolOp):
        if isinstance(e.op, ast.And):
            r = True
            for v in e.values:
                r = evaluate(v, env, atoms, subst)
                if not r:
                    return r
            return r
        r = False
        for v in e.values:
            r = evaluate(v, env, atoms, subst)
            if r:
                return r
        return r
    if isinstance(e, ast.BinOp) and isinstance(e.op, (ast.Add, ast.Sub)):
        a, b = evaluate(e.left, env, atoms, subst), evaluate(e.right, env, atoms, subst)
        return a + b if isinstance(e.op, ast.Add) else a - b
    if isinstance(e, ast.Call) and isinstance(e.func, ast.Name) and e.func.id == 'int' and len(e.args) == 1:
        return int(evaluate(e.args[0], env, atoms, subst))
    if isinstance(e, ast.Compare):
        left = evaluate(e.left, env, atoms, subst)
        for op, c in zip(e.ops, e.comparators):
            right = evaluate(c, env, atoms, subst)
            r = {ast.Eq: lambda a, b: a == b, ast.NotEq: lambda a, b: a != b, ast.Lt: lambda a, b: a < b,
                 ast.LtE: lambda a, b: a <= b, ast.Gt: lambda a, b: a > b, ast.GtE: lambda a, b: a >= b,
                 ast.Is: lambda a, b: a is b, ast.IsNot: lambda a, b: a is not b}.get(type(op))
            if r is None:
                raise Unknown('operator in `%s`' % t[:60])
            if not r(left, right):
                return False
            left = right
        return True
    raise Unknown('`%s`' % t[:60])


def holds(paths, env, atoms=None, subst=None):
    for conds in paths:
        ok = True
        for test, outcome in conds:
            if bool(evaluate(test, env, atoms, subst)) != outcome:
                ok = False
                break
        if ok:
            return True
    return False


def free_atoms(paths, env, subst=None, candidates=()):
    """normal texts of the sub-tests that cannot be evaluated from env (they become free Boolean atoms)"""
    found = []

    def visit(e):
        if subst is not None:
            r = subst(e)
            if r is not None:
                e = r
        try:
            evaluate(e, env, None, subst)
            return
        except Unknown:
            pass
        except Exception:
            pass
        if isinstance(e, ast.BoolOp):
            for v in e.values:
                visit(v)
        elif isinstance(e, ast.UnaryOp) and isinstance(e.op, ast.Not):
            visit(e.operand)
        else:
            t = norm(e)
            if t not in found:
                found.append(t)
    for conds in paths:
        for test, _ in conds:
            visit(test)
    return found


def outcome_implies(test, outcome, pred):
    """pred(atom expression, polarity) holds for some atom that the outcome of `test` forces: conjunct of a true `and`,
    disjunct of a false `or`, operand of `not` with the polarity swapped"""
    if isinstance(test, ast.UnaryOp) and isinstance(test.op, ast.Not):
        return outcome_implies(test.operand, not outcome, pred)
    if isinstance(test, ast.BoolOp):
        if isinstance(test.op, ast.And) and outcome:
            return any(outcome_implies(v, True, pred) for v in test.values)
        if isinstance(test.op, ast.Or) and not outcome:
            return any(outcome_implies(v, False, pred) for v in test.values)
        return False
    return bool(pred(test, outcome))


def every_path_requires(paths, pred):
    """on every path some passed test forces pred"""
    return bool(paths) and all(any(outcome_implies(t, o, pred) for t, o in conds) for conds in paths)


def returns_on_paths(g, limit=5000):
    """[(conditions, returned expression)] for every acyclic path from the entry to a `return`: the expression is the return
    value with the local names that were bound by plain assignments on that path replaced by what they were bound to
    (`x = E` and same-length tuple assignments; anything else that binds a name leaves it symbolic).  So `fmt = '%H'; ...;
    return fmt, microsec` and `return '%H', 4` give the same expression."""
    def clone(e):
        return ast.parse(ast.unparse(e), mode='eval').body

    def subst(e, env):
        class S(ast.NodeTransformer):
            def visit_Name(self, n):
                if isinstance(n.ctx, ast.Load) and n.id in env and env[n.id] is not None:
                    return clone(env[n.id])
                return n
        return S().visit(clone(e))
    out = []
    stack = [(ENTRY, [], {ENTRY}, {})]
    steps = 0
    while stack:
        node, conds, seen, env = stack.pop()
        steps += 1
        if steps > limit:
            raise Unknown('too many paths')
        nd = g.nodes.get(node)
        a = getattr(nd, 'ast', None) if nd is not None else None
        if nd is not None and nd.kind != 'test' and isinstance(a, ast.Return):
            out.append((conds, subst(a.value, env) if a.value is not None else None))
            continue
        if nd is not None and nd.kind != 'test' and isinstance(a, ast.Assign) and len(a.targets) == 1:
            t = a.targets[0]
            env = dict(env)
            if isinstance(t, ast.Name):
                env[t.id] = subst(a.value, env)
            elif isinstance(t, ast.Tuple) and isinstance(a.value, ast.Tuple) and len(t.elts) == len(a.value.elts) and \
                    all(isinstance(x, ast.Name) for x in t.elts):
                vals = [subst(v, env) for v in a.value.elts]
                for x, v in zip(t.elts, vals):
                    env[x.id] = v
            else:
                for x in ast.walk(t):
                    if isinstance(x, ast.Name):
                        env[x.id] = None
        elif nd is not None and nd.kind != 'test' and isinstance(a, (ast.AugAssign, ast.For, ast.With)):
            env = dict(env)
            for x in ast.walk(getattr(a, 'target', a)):
                if isinstance(x, ast.Name) and isinstance(x.ctx, ast.Store):
                    env[x.id] = None
        for d, lab in g.succ[node]:
            if d in seen:
                continue
            if lab == 'exc' and getattr(g.nodes.get(d), 'kind', '') != 'handler':
                continue
            c2 = conds
            if nd is not None and nd.kind == 'test' and lab in ('true', 'false'):
                c2 = conds + [(nd.ast, lab == 'true')]
            stack.append((d, c2, seen | {d}, env))
    return out
