import sys
from .run import main
sys.exit(main(sys.argv[1:]))
