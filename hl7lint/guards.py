"""Refusal predicates: under which combination of elementary tests a function raises a given exception.

For a function and an exception class E, `predicate(fi, E)` is the disjunction over all `raise E(...)` statements (and, for
the pseudo-class 'return False', all `return False` statements) of their CFG path conditions, expressed over *atoms*: the
elementary tests of the function (and / or / not are taken apart; local single-assignment temporaries are inlined), in
canonical spelling.  The predicate is returned as (sorted atoms, set of satisfying rows), a row being a tuple of
Booleans, one per atom.  Only syntax trees are interpreted.
"""
import ast
import itertools

from .src import own_nodes, norm
from .cfg import cfg_of
from . import pathcond

MAX_ATOMS = 16


def _atoms_of(test, sub):
    """elementary tests of an expression, after substitution of temporaries"""
    t = sub(test)
    if isinstance(t, ast.UnaryOp) and isinstance(t.op, ast.Not):
        return _atoms_of(t.operand, lambda e: e)
    if isinstance(t, ast.BoolOp):
        out = []
        for v in t.values:
            out += _atoms_of(v, lambda e: e)
        return out
    return [t]


def _canon_atom(a):
    """(text, polarity): negative comparisons are stored in their positive form"""
    from .canon import _positive
    p, flipped = _positive(a)
    return norm(p), not flipped


def _eval(test, row, sub):
    t = sub(test)

    def ev(e):
        if isinstance(e, ast.UnaryOp) and isinstance(e.op, ast.Not):
            return not ev(e.operand)
        if isinstance(e, ast.BoolOp):
            vals = [ev(v) for v in e.values]
            return all(vals) if isinstance(e.op, ast.And) else any(vals)
        txt, pol = _canon_atom(e)
        v = row[txt]
        return v if pol else not v
    return ev(t)


def _predicate_like(fi):
    """the function returns True somewhere (its result is a verdict): then False, None and a bare return all mean `no`"""
    if fi.name.lstrip('_').startswith(('is_', 'valid', 'can_', 'check_')):
        return True
    return any(isinstance(n, ast.Return) and isinstance(n.value, ast.Constant) and n.value.value is True for n in own_nodes(fi.node)) or \
        any(isinstance(n, ast.Return) and isinstance(n.value, ast.Constant) and n.value.value is False for n in own_nodes(fi.node))


def refusal_nodes(fi):
    """{class name: [statement nodes]} -- raises by exception class, plus 'return False'"""
    out = {}
    for n in own_nodes(fi.node):
        if isinstance(n, ast.Raise):
            exc = n.exc
            if isinstance(exc, ast.Call):
                exc = exc.func
            name = norm(exc).split('.')[-1] if exc is not None else '<re-raise>'
            if name[:1].islower():
                name = '<dynamic>'
            out.setdefault(name, []).append(n)
        if isinstance(n, ast.Return) and (n.value is None or (isinstance(n.value, ast.Constant) and n.value.value in (False, None))) \
                and _predicate_like(fi):
            out.setdefault('return False', []).append(n)      # False / None / bare return: the callers test truthiness
    return out


_NN = {}


def never_none(index, fi, depth=0):
    """every normal return of the function carries a value that is not None: a non-None literal, a container display, or the
    result of a call of functions with the same property; and control cannot fall off the end"""
    k = fi.qualname
    if k in _NN:
        return _NN[k]
    _NN[k] = False            # recursion guard
    from .rules.pat import inline_locals
    body = fi.node.body
    rets = [n for n in own_nodes(fi.node) if isinstance(n, ast.Return)]
    last = body[-1] if body else None
    ends = isinstance(last, (ast.Return, ast.Raise)) or (isinstance(last, ast.Try) and all(
        isinstance(b[-1], (ast.Return, ast.Raise)) for b in [last.body] + [h.body for h in last.handlers] if b))
    ok = bool(rets) and ends and depth < 4
    for r in rets if ok else ():
        v = inline_locals(r.value, fi.node) if r.value is not None else None
        if v is None or (isinstance(v, ast.Constant) and v.value is None):
            ok = False
        elif isinstance(v, (ast.Dict, ast.List, ast.Tuple, ast.Set, ast.JoinedStr)) or (isinstance(v, ast.Constant)):
            continue
        elif isinstance(v, ast.Call):
            if not call_never_none(index, fi, v, depth + 1):
                ok = False
        else:
            ok = False
        if not ok:
            break
    _NN[k] = ok
    return ok


def call_never_none(index, fi, call, depth=0):
    f = call.func
    cands = []
    if isinstance(f, ast.Name):
        t = fi.module.functions.get(f.id) or index.resolve_function_name(fi.module, f.id)
        if t is not None:
            cands = [t]
    elif isinstance(f, ast.Attribute) and norm(f.value) not in ('self', 'cls'):
        # a function of a dynamically chosen module (lib.find): every module-level function of that name
        cands = [m.functions[f.attr] for m in index.modules.values() if f.attr in m.functions and m.functions[f.attr].cls is None]
    if not cands:
        return False
    return all(never_none(index, t, depth) for t in cands)


def predicate(fi, nodes, index=None, keep_calls=()):
    """-> (atoms, rows) or None when there are too many atoms.  For every assignment of truth values to the atoms, the
    statement is reached iff a walk from the function entry that takes, at every test, the edge the assignment selects
    (and every edge at loops / handlers) arrives at one of `nodes`."""
    from .rules.pat import inline_locals
    from .cfg import ENTRY
    g = cfg_of(fi)
    cache = {}

    helpers = {}
    for name, f in fi.module.functions.items():
        if f.cls is None and f.outer is None:
            body = [b for b in f.node.body if not (isinstance(b, ast.Expr) and isinstance(b.value, ast.Constant))]
            if len(body) == 1 and isinstance(body[0], ast.Return) and body[0].value is not None and \
                    isinstance(body[0].value, (ast.BoolOp, ast.Compare, ast.UnaryOp)) and not f.node.args.defaults:
                helpers[name] = ([a.arg for a in f.node.args.args], body[0].value)

    class Expand(ast.NodeTransformer):
        # a call of a one-expression Boolean helper of the same module stands for that expression
        def visit_Call(self, node):
            self.generic_visit(node)
            if isinstance(node.func, ast.Name) and node.func.id in helpers and not node.keywords and \
                    node.func.id not in keep_calls:
                params, body = helpers[node.func.id]
                if len(params) == len(node.args):
                    env = dict(zip(params, node.args))

                    class Subst(ast.NodeTransformer):
                        def visit_Name(self, n2):
                            if isinstance(n2.ctx, ast.Load) and n2.id in env:
                                return ast.parse(ast.unparse(env[n2.id]), mode='eval').body
                            return n2
                    return Subst().visit(ast.parse(ast.unparse(body), mode='eval').body)
            return node

    def sub(e):
        k = id(e)
        if k not in cache:
            cache[k] = Expand().visit(inline_locals(e, fi.node)) if helpers else inline_locals(e, fi.node)
        return cache[k]
    targets = set()
    for n in nodes:
        nid = g.node_for(n)
        if nid is None:
            return None
        targets.add(nid)
    back = set(targets) | g.reach(list(targets), forward=False)      # nodes that lie on some path to a target
    tests = [nid for nid in back if g.nodes[nid].kind == 'test']
    atom_cache = {}
    atoms = set()
    for nid in tests:
        for a in _atoms_of(g.nodes[nid].ast, sub):
            atoms.add(_canon_atom(a)[0])
    # a statement of a try body that can hand control to a handler of this function: whether it raises is an atom of its own
    raisers = {}
    OPERATOR_EXC = ('IndexError', 'KeyError', 'ValueError', 'TypeError', 'AttributeError', 'LookupError', 'ArithmeticError',
                    'ZeroDivisionError', 'Exception', 'BaseException', 'UnboundLocalError', 'NameError', 'AssertionError')

    def can_raise_into(nid, hid):
        # a handler for library / I/O exceptions is only entered from statements that call something; handlers for the
        # exceptions that operators raise (subscripts, attribute access, arithmetic) from any statement
        h = g.nodes[hid].ast
        names = None
        if isinstance(h, ast.ExceptHandler) and h.type is not None:
            t = h.type.elts if isinstance(h.type, ast.Tuple) else [h.type]
            names = [norm(x).split('.')[-1] for x in t]
        if names is None or any(x in OPERATOR_EXC for x in names):
            return True
        return any(isinstance(x, (ast.Call, ast.Raise)) for x in ast.walk(g.nodes[nid].ast))
    for nid in back:
        nd = g.nodes[nid]
        if nd.kind == 'stmt' and nd.ast is not None and any(lab == 'exc' and g.nodes[d].kind == 'handler' and d in back and
                                                            can_raise_into(nid, d) for d, lab in g.succ[nid]):
            from .rules.c12 import sig_of as _sig
            raisers[nid] = 'raises: ' + _sig(nd.ast)
    atoms |= set(raisers.values())
    # `E is None` where E is the result of a call that never returns None cannot hold: the atom is fixed to False
    forced = {}
    if index is not None:
        for a in list(atoms):
            try:
                e = ast.parse(a, mode='eval').body
            except SyntaxError:
                continue
            if isinstance(e, ast.Compare) and len(e.ops) == 1 and isinstance(e.ops[0], ast.Is) and \
                    isinstance(e.comparators[0], ast.Constant) and e.comparators[0].value is None and \
                    isinstance(e.left, ast.Call) and call_never_none(index, fi, e.left):
                forced[a] = False
                atoms.discard(a)
    # a test `x is None` placed right after `x = <call that never returns None>` is false at that point
    local_false = {}
    if index is not None:
        for nid in tests:
            preds = [p_ for p_, lab in g.pred[nid] if lab != 'exc']
            if len(preds) != 1:
                continue
            pa = g.nodes[preds[0]].ast
            if g.nodes[preds[0]].kind == 'stmt' and isinstance(pa, ast.Assign) and len(pa.targets) == 1 and \
                    isinstance(pa.targets[0], ast.Name) and isinstance(pa.value, ast.Call) and \
                    call_never_none(index, fi, pa.value):
                local_false[nid] = '%s is None' % pa.targets[0].id
    # `self.m()` where the class's own m is `return <constant>`: the test has that value for instances of this very class
    # (a subclass that overrides m has its own entry in the reference, or inherits and is then not compared)
    if fi.cls is not None:
        for a in list(atoms):
            try:
                e = ast.parse(a, mode='eval').body
            except SyntaxError:
                continue
            if isinstance(e, ast.Call) and not e.args and not e.keywords and isinstance(e.func, ast.Attribute) and \
                    norm(e.func.value) == 'self':
                m = fi.cls.find_method(e.func.attr)
                if m is not None:
                    body = [b for b in m.node.body if not (isinstance(b, ast.Expr) and isinstance(b.value, ast.Constant))]
                    if len(body) == 1 and isinstance(body[0], ast.Return) and isinstance(body[0].value, ast.Constant) and \
                            isinstance(body[0].value.value, bool):
                        forced[a] = body[0].value.value
                        atoms.discard(a)
    atoms = sorted(atoms)
    if len(atoms) > MAX_ATOMS:
        return None
    rows = set()
    for vals in itertools.product((False, True), repeat=len(atoms)):
        row = dict(zip(atoms, vals))
        row.update(forced)
        seen = {(ENTRY, frozenset())}
        work = [(ENTRY, frozenset())]
        hit = ENTRY in targets
        while work and not hit:
            k, empty = work.pop()
            nd = g.nodes[k]
            choose = None
            if nd.kind == 'test' and k in back:
                if k in local_false and local_false[k] in row:
                    r2 = dict(row)
                    r2[local_false[k]] = False
                    choose = 'true' if _eval(nd.ast, r2, sub) else 'false'
                else:
                    choose = 'true' if _eval(nd.ast, row, sub) else 'false'
            raising = row[raisers[k]] if k in raisers else None
            # locals known to hold the empty list literal on this walk: a loop over one of them does not iterate
            a_ = nd.ast
            if nd.kind == 'stmt' and isinstance(a_, ast.Assign) and len(a_.targets) == 1 and isinstance(a_.targets[0], ast.Name):
                if isinstance(a_.value, (ast.List, ast.Tuple)) and not a_.value.elts:
                    empty = empty | {a_.targets[0].id}
                else:
                    empty = empty - {a_.targets[0].id}
            elif nd.kind == 'stmt' and a_ is not None and empty:
                touched = {x.id for x in ast.walk(a_) if isinstance(x, ast.Name)}
                empty = empty - touched if not isinstance(a_, ast.For) else empty
            dead_loop = isinstance(a_, ast.For) and isinstance(a_.iter, ast.Name) and a_.iter.id in empty
            for d, lab in g.succ[k]:
                if d not in back or (d, empty) in seen:
                    continue
                if dead_loop and lab == 'iter':
                    continue
                if choose is not None and lab in ('true', 'false') and lab != choose:
                    continue
                if lab == 'exc' and g.nodes[d].kind != 'handler':
                    continue
                if lab == 'exc' and k not in raisers:
                    continue              # tests and statements without a raise atom are taken not to raise
                if raising is True and lab != 'exc':
                    continue
                if raising is False and lab == 'exc':
                    continue
                if d in targets:
                    hit = True
                    break
                seen.add((d, empty))
                work.append((d, empty))
        if hit:
            rows.add(vals)
    return atoms, rows


def _kept_calls(ref_entry):
    """names of the functions that occur as calls in the atoms of a reference table: a helper predicate that the reviewed tree
    did not take apart (it was not a one-expression function then) is not taken apart now either, so that turning
    `r = <expr>; return r` into `return <expr>` inside a helper does not change the vocabulary of its callers' tables"""
    out = set()
    for e in (ref_entry or {}).values():
        for a in (e or {}).get('atoms', ()):
            try:
                t = ast.parse(a[len('raises: '):] if a.startswith('raises: ') else a, mode='eval')
            except SyntaxError:
                continue
            for x in ast.walk(t):
                if isinstance(x, ast.Call) and isinstance(x.func, ast.Name):
                    out.add(x.func.id)
    return out


def extract(index, modules=('core', 'parser', 'validation', '__init__', 'base_datatypes', 'utils', 'factories'), ref=None):
    """{function qualname: {class: {'atoms': [...], 'rows': [[0/1,...], ...]}}}; ref: the reference tables (see _kept_calls)"""
    out = {}
    for fq, fi in sorted(index.functions.items()):
        if fi.module.name not in modules and not fi.module.name.endswith('base_datatypes'):
            continue
        rn = refusal_nodes(fi)
        for cls, nodes in sorted(rn.items()):
            if cls in ('<re-raise>', '<dynamic>', 'NotImplementedError', 'AttributeError'):
                continue
            pr = predicate(fi, nodes, index, keep_calls=_kept_calls(ref.get(fq)) if ref else ())
            if pr is None:
                out.setdefault(fq, {})[cls] = None
                continue
            atoms, rows = pr
            out.setdefault(fq, {})[cls] = {'atoms': atoms, 'rows': sorted(sum((1 << i) for i, b in enumerate(r) if b) for r in rows)}
    return out


OTHER = '<other>'


def _infeasible(brow, val, none_false):
    """the combination makes a predicate `h(.., v, ..)` true for a v that is None although h returns False for None there"""
    nones = {v for (kind, v), x in val.items() if kind == 'sym' and x is None}
    if not nones:
        return False
    for a, truth in brow.items():
        if not truth or a.startswith('raises: '):
            continue
        try:
            e = ast.parse(a, mode='eval').body
        except SyntaxError:
            continue
        if isinstance(e, ast.Call) and isinstance(e.func, ast.Name):
            for i, arg in enumerate(e.args):
                if (e.func.id, i) in none_false and norm(arg) in nones:
                    return True
    return False


def _classify(text):
    """atom text -> ('num', var, fn) | ('sym', var, fn) | ('truth', var) | ('bool', text); fn maps a value of var to the atom's truth"""
    try:
        e = ast.parse(text, mode='eval').body
    except SyntaxError:
        return ('bool', text)
    if text.startswith('raises: '):
        return ('bool', text)

    def const(n):
        try:
            return True, ast.literal_eval(n)
        except Exception:
            return False, None
    if isinstance(e, ast.Compare):
        terms = [e.left] + list(e.comparators)
        consts = [const(t) for t in terms]
        nonconst = [t for t, (ok, _) in zip(terms, consts) if not ok]
        if len(nonconst) == 1 and not (any(isinstance(o, (ast.In, ast.NotIn)) for o in e.ops) and nonconst[0] is not e.left):
            var = norm(nonconst[0])
            vals = [v for ok, v in consts if ok]
            code = compile(ast.Expression(body=_replace(e, nonconst[0])), '<atom>', 'eval')
            if all(isinstance(v, int) and not isinstance(v, bool) for v in vals) and \
                    all(isinstance(o, (ast.Eq, ast.NotEq, ast.Lt, ast.LtE, ast.Gt, ast.GtE)) for o in e.ops):
                return ('num', var, lambda x, code=code: bool(eval(code, {'__builtins__': {}}, {'_x': x})), [v for v in vals])
            flat = []
            for v in vals:
                flat.extend(v if isinstance(v, (tuple, list, set, frozenset)) else [v])
            if all(v is None or isinstance(v, str) for v in flat) and \
                    all(isinstance(o, (ast.Eq, ast.NotEq, ast.In, ast.NotIn, ast.Is, ast.IsNot)) for o in e.ops):
                return ('sym', var, lambda x, code=code: bool(eval(code, {'__builtins__': {}}, {'_x': x})), flat)
    if isinstance(e, (ast.Name, ast.Attribute)):
        return ('truth', norm(e))
    return ('bool', text)


def _replace(expr, target):
    class R(ast.NodeTransformer):
        def visit(self, node):
            if node is target:
                return ast.copy_location(ast.Name(id='_x', ctx=ast.Load()), node)
            return super().visit(node)
    import copy
    out = R().visit(expr)
    return ast.fix_missing_locations(out)


def compare(ref, cur, cap=300000, none_false=()):
    """ref / cur: {'atoms', 'rows'} -> (lost, gained, note).  Atoms that compare one expression with integer or string constants
    are not opaque: the expression becomes a variable ranging over the constants mentioned on either side (plus neighbours /
    an `other` value), so `len(x) >= 1` and `len(x) > 1`, or `v == 4` and `v == 5`, are compared by meaning.  Opaque atoms
    that exist on one side only are quantified; opaque atoms changed on both sides make the tables incomparable (note)."""
    ra, ca = ref['atoms'], cur['atoms']
    if ra == ca and ref['rows'] == cur['rows']:
        return [], [], ''                      # identical tables: nothing to enumerate
    cls = {a: _classify(a) for a in set(ra) | set(ca)}
    numvars, symvars = {}, {}
    for a, k in cls.items():
        if k[0] == 'num':
            numvars.setdefault(k[1], set()).update(k[3])
        if k[0] == 'sym':
            symvars.setdefault(k[1], set()).update(k[3])
    opaque = lambda a: cls[a][0] == 'bool' or (cls[a][0] == 'truth' and cls[a][1] not in symvars and cls[a][1] not in numvars)
    vars_of = lambda atoms: {cls[a][1] for a in atoms if cls[a][0] in ('num', 'sym')}
    v_ref, v_cur = vars_of(ra), vars_of(ca)
    if (v_ref - v_cur) and (v_cur - v_ref):
        return None, None, 'compared expressions renamed / rewritten: reference-only %s, current-only %s' % (
            sorted(v_ref - v_cur)[:3], sorted(v_cur - v_ref)[:3])
    only_ref = [a for a in ra if a not in ca and opaque(a)]
    only_cur = [a for a in ca if a not in ra and opaque(a)]
    def folded(vanished, remaining):
        # `x is not None and f(x, ..)` -> `f(x, ..)`: the None test may have moved into the callee; the tables cannot tell
        for a in vanished:
            k = cls[a]
            if not (k[0] == 'sym' and set(k[3]) == {None}):
                return False
            var = k[1]
            if not any(cls[b][0] == 'bool' and ('(%s,' % var in b or '(%s)' % var in b or ', %s)' % var in b or ', %s,' % var in b)
                       for b in remaining):
                return False
        return bool(vanished)
    if only_ref and only_cur:
        return None, None, 'elementary tests rewritten on both sides: reference-only %s, current-only %s' % (
            [x[:40] for x in only_ref[:3]], [x[:40] for x in only_cur[:3]])
    sym_only_ref = [a for a in ra if a not in ca and cls[a][0] == 'sym']
    if sym_only_ref and not [a for a in ca if a not in ra] and folded(sym_only_ref, ca):
        return None, None, 'a None test next to a call on the same value was dropped (%s): it may have moved into the callee' % sym_only_ref[:2]
    rrows, crows = set(ref['rows']), set(cur['rows'])
    bools = sorted(a for a in set(ra) | set(ca) if opaque(a))
    doms = []
    names = []
    for v, cs in sorted(numvars.items()):
        d = set()
        for c_ in cs:
            d |= {c_ - 1, c_, c_ + 1}
        names.append(('num', v))
        doms.append(sorted(d))
    for v, cs in sorted(symvars.items()):
        names.append(('sym', v))
        doms.append(sorted(cs, key=lambda x: (x is None, str(x))) + [OTHER] + ([''] if '' not in cs else []))
    total = 2 ** len(bools)
    for d in doms:
        total *= len(d)
    if total > cap:
        return None, None, 'too many combinations to compare (%d)' % total
    lost, gained = [], []

    def truth(a, val, brow):
        k = cls[a]
        if k[0] == 'num' or k[0] == 'sym':
            try:
                return k[2](val[(k[0], k[1])])
            except Exception:
                return False
        if k[0] == 'truth' and (('sym', k[1]) in val or ('num', k[1]) in val):
            x = val.get(('sym', k[1]), val.get(('num', k[1])))
            return bool(x) if x != OTHER else True
        return brow[a]
    for bvals in itertools.product((False, True), repeat=len(bools)):
        brow = dict(zip(bools, bvals))
        for dvals in itertools.product(*doms) if doms else [()]:
            val = dict(zip(names, dvals))
            rbits = sum((1 << i) for i, a in enumerate(ra) if truth(a, val, brow))
            cbits = sum((1 << i) for i, a in enumerate(ca) if truth(a, val, brow))
            r_ref, r_cur = rbits in rrows, cbits in crows
            if r_ref != r_cur and none_false and _infeasible(brow, val, none_false):
                continue
            if r_ref != r_cur:
                desc = dict(brow)
                desc.update({'%s = %r' % (v, x): True for (_, v), x in val.items()})
                (lost if r_ref else gained).append(desc)
    return lost, gained, ''


# ------------------------------------------------------------------------------------------------------------------
# decision tables: every effect statement of a function, by signature, with the predicate under which it runs

def _ret_sig(v):
    if v is None:
        return 'return <falsy>'
    if isinstance(v, ast.Constant):
        return 'return <falsy>' if v.value in (False, None) else 'return %r' % (v.value,)
    if isinstance(v, ast.Tuple):
        return 'return (%s)' % ', '.join(_ret_sig(e)[7:] for e in v.elts)
    if isinstance(v, ast.Call):
        from .rules.c12 import _call_name
        return 'return ' + _call_name(v)
    if isinstance(v, ast.Name):
        return 'return <name>'
    return 'return <expr>'


def event_nodes(fi):
    """{signature: [statement nodes]} for the effect statements of the function: stores to attributes / items, calls,
    deletions, raises and returns (by kind of value).  Signatures abstract local names and argument spelling (rules/c12.sig_of)."""
    from .rules.c12 import sig_of
    out = {}
    for n in own_nodes(fi.node):
        sig = None
        if isinstance(n, ast.Raise):
            if n.exc is None:
                continue          # bare re-raise: a handler that only re-raises changes nothing
            exc = n.exc.func if isinstance(n.exc, ast.Call) else n.exc
            sig = 'raise ' + norm(exc).split('.')[-1]
        elif isinstance(n, ast.Return):
            sig = _ret_sig(n.value)
        elif isinstance(n, (ast.Assign, ast.AugAssign)):
            sig = sig_of(n)
            if sig == 'assign':
                continue          # a local computed without a call: no effect of its own
            if sig.startswith('call _.') or (sig.startswith('call ') and sig[5:].split('(')[0] in BUILTIN_PURE):
                continue          # a local computed from a method of another local / a pure builtin (text.split(..), len(..))
        elif isinstance(n, ast.Expr) and isinstance(n.value, ast.Call):
            sig = sig_of(n)
        elif isinstance(n, ast.Delete):
            sig = sig_of(n)
        elif isinstance(n, (ast.Break, ast.Continue)):
            sig = type(n).__name__.lower()
        if sig:
            out.setdefault(sig, []).append(n)
    return out


SKIP_FUNCS = ('__repr__', '__str__', '_sort_highlights')
BUILTIN_PURE = ('len', 'int', 'str', 'list', 'tuple', 'dict', 'set', 'sorted', 'reversed', 'enumerate', 'zip', 'min', 'max', 'sum',
                'isinstance', 'getattr', 'hasattr', 'repr', 'format', 'bool', 'float', 'range', 'xrange', 'iter', 'next', 'type')


def extract_events(index, modules=('core', 'parser', 'validation', '__init__', 'base_datatypes', 'utils', 'factories', 'mllp'), ref=None):
    out = {}
    for fq, fi in sorted(index.functions.items()):
        mn = fi.module.name
        if mn not in modules and not mn.endswith('base_datatypes'):
            continue
        if fi.name in SKIP_FUNCS:
            continue
        ev = event_nodes(fi)
        for sig, nodes in sorted(ev.items()):
            pr = predicate(fi, nodes, index, keep_calls=_kept_calls(ref.get(fq)) if ref else ())
            if pr is None:
                out.setdefault(fq, {})[sig] = None
                continue
            atoms, rows = pr
            out.setdefault(fq, {})[sig] = {'atoms': atoms, 'n': len(nodes),
                                           'rows': sorted(sum((1 << i) for i, b in enumerate(r) if b) for r in rows),
                                           'argc': _argc(nodes), 'consts': _consts(nodes)}
    return out


def _argc(nodes):
    """sorted numbers of arguments (positional + keyword) of the calls made by the statements: converting positional to keyword
    arguments keeps them, dropping an argument does not"""
    out = []
    for n in nodes:
        for x in ast.walk(n):
            if not isinstance(x, ast.Call):
                continue
            if any(isinstance(a, ast.Starred) for a in x.args) or any(k.arg is None for k in x.keywords):
                return None       # *args / **kwargs: the number of arguments is not visible
            f = x.func
            direct = (isinstance(f, ast.Name) and (f.id[:1].isupper() or f.id.startswith(('parse_', '_', 'load_', 'find_', 'get_', 'check_',
                                                                                             'is_', 'datatype_')))) or \
                (isinstance(f, ast.Attribute) and (norm(f.value) in ('self', 'cls') or norm(f.value).startswith('super(') or
                                                   (isinstance(f.value, ast.Name) and f.value.id[:1].isupper())))
            if direct and not (isinstance(f, ast.Name) and f.id in BUILTIN_PURE):
                out.append(len(x.args) + len(x.keywords))
    return sorted(out)


def _consts(nodes):
    """sorted integer constants used as subscripts, slice bounds or call arguments in the statements (positions in tuples,
    strings and lists: `reference[2]`, `text[:3]`, `fields[11]`)"""
    out = []
    for n in nodes:
        for x in ast.walk(n):
            if isinstance(x, ast.Subscript):
                for y in ast.walk(x.slice):
                    if isinstance(y, ast.Constant) and isinstance(y.value, int) and not isinstance(y.value, bool):
                        out.append(y.value)
            if isinstance(x, ast.Call):
                for a in list(x.args) + [k.value for k in x.keywords]:
                    if isinstance(a, ast.Constant) and isinstance(a.value, int) and not isinstance(a.value, bool):
                        out.append(a.value)
                    if isinstance(a, ast.UnaryOp) and isinstance(a.op, ast.USub) and isinstance(a.operand, ast.Constant) and \
                            isinstance(a.operand.value, int):
                        out.append(-a.operand.value)
    return sorted(out)


def false_on_none(index):
    """{(function name, parameter position)}: module-level predicates that return False when that argument is None -- the first
    statement of the function dereferences the parameter (`p.method(...)`) inside a try whose handler for AttributeError
    returns False / None"""
    out = set()
    for fq, fi in index.functions.items():
        if fi.cls is not None or fi.outer is not None or not fi.node.body:
            continue
        body = [b for b in fi.node.body if not (isinstance(b, ast.Expr) and isinstance(b.value, ast.Constant))]
        if not body or not isinstance(body[0], ast.Try) or not body[0].body:
            continue
        tr = body[0]
        handled = False
        for h in tr.handlers:
            names = [] if h.type is None else [norm(x).split('.')[-1] for x in (h.type.elts if isinstance(h.type, ast.Tuple) else [h.type])]
            if (h.type is None or 'AttributeError' in names or 'Exception' in names) and len(h.body) == 1 and \
                    isinstance(h.body[0], ast.Return) and (h.body[0].value is None or (
                        isinstance(h.body[0].value, ast.Constant) and h.body[0].value.value in (False, None))):
                handled = True
        if not handled:
            continue
        first = tr.body[0]
        for i, a in enumerate(fi.node.args.args):
            for x in ast.walk(first):
                if isinstance(x, ast.Attribute) and isinstance(x.value, ast.Name) and x.value.id == a.arg and \
                        isinstance(getattr(x, '_parent', None), ast.Call):
                    out.add((fi.name, i))
    return out
