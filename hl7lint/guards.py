"""Refusal predicates: under which combination of elementary tests a function raises a given exception.

For a function and an exception class E, `predicate(fi, E)` is the disjunction over all `raise E(...)` statements (and, for
the pseudo-class 'return False', all `return False` statements) of their CFG path conditions, expressed over *atoms*: the
elementary tests of the function (and / or / not are taken apart; local single-assignment temporaries are inlined), in
canonical spelling.  The predicate is returned as (sorted atoms, set of satisfying rows), a row being a tuple of
Booleans, one per atom.  Only syntax trees are interpreted.
"""
import ast
import itertools

from .src import own_nodes, norm
from .cfg import cfg_of
from . import pathcond

MAX_ATOMS = 16


def _atoms_of(test, sub):
    """elementary tests of an expression, after substitution of temporaries"""
    t = sub(test)
    if isinstance(t, ast.UnaryOp) and isinstance(t.op, ast.Not):
        return _atoms_of(t.operand, lambda e: e)
    if isinstance(t, ast.BoolOp):
        out = []
        for v in t.values:
            out += _atoms_of(v, lambda e: e)
        return out
    return [t]


def _canon_atom(a):
    """(text, polarity): negative comparisons are stored in their positive form"""
    from .canon import _positive
    p, flipped = _positive(a)
    return norm(p), not flipped


def _eval(test, row, sub):
    t = sub(test)

    def ev(e):
        if isinstance(e, ast.UnaryOp) and isinstance(e.op, ast.Not):
            return not ev(e.operand)
        if isinstance(e, ast.BoolOp):
            vals = [ev(v) for v in e.values]
            return all(vals) if isinstance(e.op, ast.And) else any(vals)
        txt, pol = _canon_atom(e)
        v = row[txt]
        return v if pol else not v
    return ev(t)


def refusal_nodes(fi):
    """{class name: [statement nodes]} -- raises by exception class, plus 'return False'"""
    out = {}
    for n in own_nodes(fi.node):
        if isinstance(n, ast.Raise):
            exc = n.exc
            if isinstance(exc, ast.Call):
                exc = exc.func
            name = norm(exc).split('.')[-1] if exc is not None else '<re-raise>'
            if name[:1].islower():
                name = '<dynamic>'
            out.setdefault(name, []).append(n)
        if isinstance(n, ast.Return) and isinstance(n.value, ast.Constant) and n.value.value is False:
            out.setdefault('return False', []).append(n)
    return out


def predicate(fi, nodes):
    """-> (atoms, rows) or None when there are too many atoms.  For every assignment of truth values to the atoms, the
    statement is reached iff a walk from the function entry that takes, at every test, the edge the assignment selects
    (and every edge at loops / handlers) arrives at one of `nodes`."""
    from .rules.pat import inline_locals
    from .cfg import ENTRY
    g = cfg_of(fi)
    cache = {}

    helpers = {}
    for name, f in fi.module.functions.items():
        if f.cls is None and f.outer is None:
            body = [b for b in f.node.body if not (isinstance(b, ast.Expr) and isinstance(b.value, ast.Constant))]
            if len(body) == 1 and isinstance(body[0], ast.Return) and body[0].value is not None and \
                    isinstance(body[0].value, (ast.BoolOp, ast.Compare, ast.UnaryOp)) and not f.node.args.defaults:
                helpers[name] = ([a.arg for a in f.node.args.args], body[0].value)

    class Expand(ast.NodeTransformer):
        # a call of a one-expression Boolean helper of the same module stands for that expression
        def visit_Call(self, node):
            self.generic_visit(node)
            if isinstance(node.func, ast.Name) and node.func.id in helpers and not node.keywords:
                params, body = helpers[node.func.id]
                if len(params) == len(node.args):
                    env = dict(zip(params, node.args))

                    class Subst(ast.NodeTransformer):
                        def visit_Name(self, n2):
                            if isinstance(n2.ctx, ast.Load) and n2.id in env:
                                return ast.parse(ast.unparse(env[n2.id]), mode='eval').body
                            return n2
                    return Subst().visit(ast.parse(ast.unparse(body), mode='eval').body)
            return node

    def sub(e):
        k = id(e)
        if k not in cache:
            cache[k] = Expand().visit(inline_locals(e, fi.node)) if helpers else inline_locals(e, fi.node)
        return cache[k]
    targets = set()
    for n in nodes:
        nid = g.node_for(n)
        if nid is None:
            return None
        targets.add(nid)
    back = set(targets) | g.reach(list(targets), forward=False)      # nodes that lie on some path to a target
    tests = [nid for nid in back if g.nodes[nid].kind == 'test']
    atom_cache = {}
    atoms = set()
    for nid in tests:
        for a in _atoms_of(g.nodes[nid].ast, sub):
            atoms.add(_canon_atom(a)[0])
    # a statement of a try body that can hand control to a handler of this function: whether it raises is an atom of its own
    raisers = {}
    for nid in back:
        nd = g.nodes[nid]
        if nd.kind == 'stmt' and nd.ast is not None and any(lab == 'exc' and g.nodes[d].kind == 'handler' and d in back
                                                            for d, lab in g.succ[nid]):
            raisers[nid] = 'raises: ' + ' '.join(norm(sub(nd.ast.value) if isinstance(nd.ast, ast.Expr) else nd.ast).split())[:90]
    atoms |= set(raisers.values())
    atoms = sorted(atoms)
    if len(atoms) > MAX_ATOMS:
        return None
    rows = set()
    for vals in itertools.product((False, True), repeat=len(atoms)):
        row = dict(zip(atoms, vals))
        seen = {ENTRY}
        work = [ENTRY]
        hit = ENTRY in targets
        while work and not hit:
            k = work.pop()
            nd = g.nodes[k]
            choose = None
            if nd.kind == 'test' and k in back:
                choose = 'true' if _eval(nd.ast, row, sub) else 'false'
            raising = row[raisers[k]] if k in raisers else None
            for d, lab in g.succ[k]:
                if d not in back or d in seen:
                    continue
                if choose is not None and lab in ('true', 'false') and lab != choose:
                    continue
                if lab == 'exc' and g.nodes[d].kind != 'handler':
                    continue
                if lab == 'exc' and k not in raisers:
                    continue              # tests and statements without a raise atom are taken not to raise
                if raising is True and lab != 'exc':
                    continue
                if raising is False and lab == 'exc':
                    continue
                if d in targets:
                    hit = True
                    break
                seen.add(d)
                work.append(d)
        if hit:
            rows.add(vals)
    return atoms, rows


def extract(index, modules=('core', 'parser', 'validation', '__init__', 'base_datatypes', 'utils', 'factories')):
    """{function qualname: {class: {'atoms': [...], 'rows': [[0/1,...], ...]}}}"""
    out = {}
    for fq, fi in sorted(index.functions.items()):
        if fi.module.name not in modules and not fi.module.name.endswith('base_datatypes'):
            continue
        rn = refusal_nodes(fi)
        for cls, nodes in sorted(rn.items()):
            if cls in ('<re-raise>', '<dynamic>', 'NotImplementedError', 'AttributeError'):
                continue
            pr = predicate(fi, nodes)
            if pr is None:
                out.setdefault(fq, {})[cls] = None
                continue
            atoms, rows = pr
            out.setdefault(fq, {})[cls] = {'atoms': atoms, 'rows': sorted(sum((1 << i) for i, b in enumerate(r) if b) for r in rows)}
    return out


OTHER = '<other>'


def _classify(text):
    """atom text -> ('num', var, fn) | ('sym', var, fn) | ('truth', var) | ('bool', text); fn maps a value of var to the atom's truth"""
    try:
        e = ast.parse(text, mode='eval').body
    except SyntaxError:
        return ('bool', text)
    if text.startswith('raises: '):
        return ('bool', text)

    def const(n):
        try:
            return True, ast.literal_eval(n)
        except Exception:
            return False, None
    if isinstance(e, ast.Compare):
        terms = [e.left] + list(e.comparators)
        consts = [const(t) for t in terms]
        nonconst = [t for t, (ok, _) in zip(terms, consts) if not ok]
        if len(nonconst) == 1 and not (any(isinstance(o, (ast.In, ast.NotIn)) for o in e.ops) and nonconst[0] is not e.left):
            var = norm(nonconst[0])
            vals = [v for ok, v in consts if ok]
            code = compile(ast.Expression(body=_replace(e, nonconst[0])), '<atom>', 'eval')
            if all(isinstance(v, int) and not isinstance(v, bool) for v in vals) and \
                    all(isinstance(o, (ast.Eq, ast.NotEq, ast.Lt, ast.LtE, ast.Gt, ast.GtE)) for o in e.ops):
                return ('num', var, lambda x, code=code: bool(eval(code, {'__builtins__': {}}, {'_x': x})), [v for v in vals])
            flat = []
            for v in vals:
                flat.extend(v if isinstance(v, (tuple, list, set, frozenset)) else [v])
            if all(v is None or isinstance(v, str) for v in flat) and \
                    all(isinstance(o, (ast.Eq, ast.NotEq, ast.In, ast.NotIn, ast.Is, ast.IsNot)) for o in e.ops):
                return ('sym', var, lambda x, code=code: bool(eval(code, {'__builtins__': {}}, {'_x': x})), flat)
    if isinstance(e, (ast.Name, ast.Attribute)):
        return ('truth', norm(e))
    return ('bool', text)


def _replace(expr, target):
    class R(ast.NodeTransformer):
        def visit(self, node):
            if node is target:
                return ast.copy_location(ast.Name(id='_x', ctx=ast.Load()), node)
            return super().visit(node)
    import copy
    out = R().visit(expr)
    return ast.fix_missing_locations(out)


def compare(ref, cur, cap=300000):
    """ref / cur: {'atoms', 'rows'} -> (lost, gained, note).  Atoms that compare one expression with integer or string constants
    are not opaque: the expression becomes a variable ranging over the constants mentioned on either side (plus neighbours /
    an `other` value), so `len(x) >= 1` and `len(x) > 1`, or `v == 4` and `v == 5`, are compared by meaning.  Opaque atoms
    that exist on one side only are quantified; opaque atoms changed on both sides make the tables incomparable (note)."""
    ra, ca = ref['atoms'], cur['atoms']
    cls = {a: _classify(a) for a in set(ra) | set(ca)}
    numvars, symvars = {}, {}
    for a, k in cls.items():
        if k[0] == 'num':
            numvars.setdefault(k[1], set()).update(k[3])
        if k[0] == 'sym':
            symvars.setdefault(k[1], set()).update(k[3])
    opaque = lambda a: cls[a][0] == 'bool' or (cls[a][0] == 'truth' and cls[a][1] not in symvars and cls[a][1] not in numvars)
    only_ref = [a for a in ra if a not in ca and opaque(a)]
    only_cur = [a for a in ca if a not in ra and opaque(a)]
    if only_ref and only_cur:
        return None, None, 'elementary tests rewritten on both sides: reference-only %s, current-only %s' % (
            [x[:40] for x in only_ref[:3]], [x[:40] for x in only_cur[:3]])
    rrows, crows = set(ref['rows']), set(cur['rows'])
    bools = sorted(a for a in set(ra) | set(ca) if opaque(a))
    doms = []
    names = []
    for v, cs in sorted(numvars.items()):
        d = set()
        for c_ in cs:
            d |= {c_ - 1, c_, c_ + 1}
        names.append(('num', v))
        doms.append(sorted(d))
    for v, cs in sorted(symvars.items()):
        names.append(('sym', v))
        doms.append(sorted(cs, key=lambda x: (x is None, str(x))) + [OTHER] + ([''] if '' not in cs else []))
    total = 2 ** len(bools)
    for d in doms:
        total *= len(d)
    if total > cap:
        return None, None, 'too many combinations to compare (%d)' % total
    lost, gained = [], []

    def truth(a, val, brow):
        k = cls[a]
        if k[0] == 'num' or k[0] == 'sym':
            try:
                return k[2](val[(k[0], k[1])])
            except Exception:
                return False
        if k[0] == 'truth' and (('sym', k[1]) in val or ('num', k[1]) in val):
            x = val.get(('sym', k[1]), val.get(('num', k[1])))
            return bool(x) if x != OTHER else True
        return brow[a]
    for bvals in itertools.product((False, True), repeat=len(bools)):
        brow = dict(zip(bools, bvals))
        for dvals in itertools.product(*doms) if doms else [()]:
            val = dict(zip(names, dvals))
            rbits = sum((1 << i) for i, a in enumerate(ra) if truth(a, val, brow))
            cbits = sum((1 << i) for i, a in enumerate(ca) if truth(a, val, brow))
            r_ref, r_cur = rbits in rrows, cbits in crows
            if r_ref != r_cur:
                desc = dict(brow)
                desc.update({'%s = %r' % (v, x): True for (_, v), x in val.items()})
                (lost if r_ref else gained).append(desc)
    return lost, gained, ''
