"""CLI: python -m hl7lint <Cxx> [--tier quick|thorough] [--replay path]"""
import argparse
import importlib
import os
import sys
import traceback

from .report import Check, AnalysisError

ALL = ['C%02d' % i for i in range(1, 20)]


def run_one(pid, tier):
    chk = Check(pid, tier)
    try:
        try:
            mod = importlib.import_module('hl7lint.rules.%s' % pid.lower())
        except ImportError as e:
            raise AnalysisError('no rules implemented for %s (%s)' % (pid, e))
        mod.run(chk)
        return chk.finish()
    except AnalysisError as e:
        print('ANALYSIS-ERROR property=%s %s' % (pid, e))
        chk.write_evidence(0, 0, [], error=str(e))
        return 2
    except Exception as e:  # never let a traceback look like a violation
        tb = traceback.format_exc()
        sys.stderr.write(tb)
        print('ANALYSIS-ERROR property=%s internal error: %r' % (pid, e))
        chk.write_evidence(0, 0, [], error=tb[-1500:])
        return 2


def main(argv):
    ap = argparse.ArgumentParser(prog='hl7lint')
    ap.add_argument('property', help='C01..C19, or "all"')
    ap.add_argument('--tier', default=os.environ.get('VERIF_TIER') or 'quick', choices=['quick', 'thorough'])
    ap.add_argument('--replay', default=None, help='violation file written by an earlier run (re-runs the property)')
    ap.add_argument('--repo', default=None)
    a = ap.parse_args(argv)
    if a.repo:
        os.environ['HL7LINT_REPO'] = a.repo
    if a.replay:
        import json
        with open(a.replay) as f:
            d = json.load(f)
        print('replaying %s: %d recorded violation(s)' % (d.get('property'), len(d.get('violations', []))))
        for v in d.get('violations', []):
            print('  recorded: %s %s at %s' % (v['rule'], v['construct'], v['loc']))
    pids = ALL if a.property.lower() == 'all' else [a.property.upper()]
    worst = 0
    for pid in pids:
        worst = max(worst, run_one(pid, a.tier))
    return worst
