"""hl7lint -- repository-specific static checkers for crs4/hl7apy (see /verif/DESIGN.md)."""
