"""E6 ExceptionEscape: for each function, the exception classes that can leave
it through *explicit* raise statements (own ones and those of resolved callees),
minus what enclosing handlers catch.  Implicit raisers (subscripts, None
dereferences, library calls) are modelled only where a rule names them."""
import ast

from .src import own_nodes, norm

BUILTIN_BASES = {
    'Exception': 'BaseException', 'ValueError': 'Exception', 'KeyError': 'LookupError', 'IndexError': 'LookupError',
    'LookupError': 'Exception', 'TypeError': 'Exception', 'AttributeError': 'Exception',
    'NotImplementedError': 'RuntimeError', 'RuntimeError': 'Exception', 'AssertionError': 'Exception',
    'ImportError': 'Exception', 'NameError': 'Exception', 'OSError': 'Exception', 'IOError': 'Exception',
    'StopIteration': 'Exception', 'UnicodeDecodeError': 'ValueError', 'InvalidOperation': 'ArithmeticError',
    'ArithmeticError': 'Exception', 'timeout': 'OSError', 'BaseException': None,
}


class Escapes(object):
    def __init__(self, ctx, pred=None):
        self.ctx = ctx
        self.pred = pred      # pred(site, target) -> follow this call edge?
        self.index = ctx.index
        self.te = ctx.te
        self.cg = ctx.cg
        self.bases = dict(BUILTIN_BASES)
        for ci in self.index.classes.values():
            b = None
            if ci.bases:
                b = ci.bases[0].name
            elif ci.external_bases:
                b = ci.external_bases[0].split('.')[-1]
            if any('Exception' in (c.name + ' '.join(c.external_bases)) for c in ci.mro):
                self.bases[ci.name] = b
        self.escape = {f.qualname: set() for f in self.te.funcs}   # fq -> set(class name)
        self.origin = {}    # (fq, cls) -> (site description)
        self._own = {}
        for f in self.te.funcs:
            self._own[f.qualname] = self._own_raises(f)
        self._solve()

    # ------------------------------------------------------------------ hierarchy
    def is_sub(self, cls, base):
        seen = 0
        while cls is not None and seen < 20:
            if cls == base:
                return True
            cls = self.bases.get(cls)
            seen += 1
        return False

    def caught_by(self, cls, handler):
        if handler.type is None:
            return True
        t = handler.type
        names = [norm(e).split('.')[-1] for e in (t.elts if isinstance(t, ast.Tuple) else [t])]
        return any(self.is_sub(cls, n) for n in names)

    # ------------------------------------------------------------------ per function
    def _raise_classes(self, r, fn):
        """classes a Raise statement raises; bare raise / raise <handler var> -> ('reraise', handler)"""
        if r.exc is None:
            return ['<reraise>']
        e = r.exc
        if isinstance(e, ast.Call):
            e = e.func
        name = norm(e).split('.')[-1]
        if name in self.bases:
            return [name]
        # raise e  where e is bound by an enclosing `except X as e`
        p = getattr(r, '_parent', None)
        while p is not None:
            if isinstance(p, ast.ExceptHandler) and p.name == name:
                return ['<reraise>']
            p = getattr(p, '_parent', None)
        # raise errors[0] etc: look at the contents type
        out = []
        for tag in self.te.type_of(r.exc, fn):
            if tag.startswith('C:'):
                out.append(tag.split('.')[-1])
        return out or ['<unknown>']

    def _enclosing_handlers(self, node, fnode):
        """[(try node, in_body: bool, handler or None)] from innermost to outermost"""
        out = []
        child = node
        p = getattr(node, '_parent', None)
        while p is not None and p is not fnode:
            if isinstance(p, ast.Try):
                if any(child is b for b in p.body):
                    out.append((p, 'body', None))
                elif any(child is b for b in p.orelse):
                    out.append((p, 'else', None))
            if isinstance(p, ast.ExceptHandler):
                out.append((getattr(p, '_parent', None), 'handler', p))
            child = p
            p = getattr(p, '_parent', None)
        return out

    def _filter(self, classes, node, fn):
        """classes that still leave fn when raised at node"""
        out = set()
        ctxs = self._enclosing_handlers(node, fn.node)
        for cls in classes:
            cur = cls
            escaped = True
            for tr, where, h in ctxs:
                if where != 'body' or tr is None:
                    continue
                for hd in tr.handlers:
                    if cur in ('<unknown>',) or self.caught_by(cur, hd):
                        # caught: does the handler re-raise (bare raise / raise same var / raise Other)?
                        escaped = False
                        break
                if not escaped:
                    break
            if escaped:
                out.add(cur)
        return out

    def _own_raises(self, fn):
        items = []
        for n in own_nodes(fn.node):
            if isinstance(n, ast.Raise):
                items.append(n)
        return items

    def _handler_classes(self, h):
        if h.type is None:
            return ['Exception']
        t = h.type
        return [norm(e).split('.')[-1] for e in (t.elts if isinstance(t, ast.Tuple) else [t])]

    def node_raises(self, fn, node_pred=None):
        """-> list of (ast node, set(classes escaping fn)) for raise statements and call sites of fn"""
        out = []
        fq = fn.qualname
        for r in self._own.get(fq, ()):
            classes = set()
            for c in self._raise_classes(r, fn):
                if c == '<reraise>':
                    # what the enclosing handler caught
                    p = getattr(r, '_parent', None)
                    while p is not None and not isinstance(p, ast.ExceptHandler):
                        p = getattr(p, '_parent', None)
                    if p is not None:
                        tr = getattr(p, '_parent', None)
                        caught = set()
                        hc = self._handler_classes(p)
                        for st in tr.body:
                            for (nd, cl) in self._sites_in(fn, st):
                                for c2 in cl:
                                    if any(self.is_sub(c2, h) for h in hc):
                                        caught.add(c2)
                        classes |= caught or set(hc)
                else:
                    classes.add(c)
            out.append((r, self._filter(classes, r, fn)))
        for s in self.cg.sites.get(fq, ()):
            cl = set()
            for t in s.targets:
                if t.kind == 'func' and (self.pred is None or self.pred(s, t)):
                    cl |= self.escape.get(t.func.qualname, set())
            if cl:
                out.append((s.node, self._filter(cl, s.node, fn)))
        return out

    def _sites_in(self, fn, stmt):
        """(node, classes raised there before filtering) for raise statements / call sites inside stmt"""
        inside = {id(n) for n in ast.walk(stmt)}
        out = []
        for r in self._own.get(fn.qualname, ()):
            if id(r) in inside:
                out.append((r, {c for c in self._raise_classes(r, fn) if not c.startswith('<')}))
        for s in self.cg.sites.get(fn.qualname, ()):
            if id(s.node) in inside:
                cl = set()
                for t in s.targets:
                    if t.kind == 'func' and (self.pred is None or self.pred(s, t)):
                        cl |= self.escape.get(t.func.qualname, set())
                if cl:
                    out.append((s.node, cl))
        return out

    def _solve(self):
        changed = True
        rounds = 0
        while changed and rounds < 40:
            changed = False
            rounds += 1
            for fn in self.te.funcs:
                fq = fn.qualname
                new = set()
                for node, cl in self.node_raises(fn):
                    for c in cl:
                        new.add(c)
                        self.origin.setdefault((fq, c), '%s:%d' % (fn.module.relpath, getattr(node, 'lineno', 0)))
                if not new <= self.escape[fq]:
                    self.escape[fq] |= new
                    changed = True
        self.rounds = rounds
