"""E5 effects / ownership.

Every write site (attribute store/delete, subscript store/delete, mutating
container method, global rebinding) is attributed to the abstract location it
changes:

  ('field', <root class>, <attr>)   instance attribute, or the container stored in it
  ('global', <module>, <name>)      module variable (rebinding or mutation of the object it names)
  ('clsattr', <class>, <name>)      class-level attribute object
  ('param', <fq>, <name>)           object reached through a parameter (resolved at call sites by alias graph)
  ('local', <fq>, <name>)           container created in this function
  ('unknown', text)

An alias graph over abstract keys (variables, attributes, returns, module
variables) says which process-wide objects a receiver may name.
"""
import ast

from .src import own_nodes, norm
from .types import MUTATORS, CONTAINER_TAGS

FRESH, IMM, EXT = ('fresh',), ('imm',), ('ext',)
FRESH_CALLS = {'list', 'dict', 'set', 'tuple', 'sorted', 'reversed', 'frozenset', 'str', 'int', 'repr', 'len',
               'enumerate', 'zip', 'range', 'xrange', 'bool', 'float', 'min', 'max', 'sum', 'any', 'all',
               'isinstance', 'hasattr', 'iter', 'next', 'type', 'open', 'iteritems'}


class Write(object):
    __slots__ = ('node', 'fn', 'loc', 'how', 'text')

    def __init__(self, node, fn, loc, how):
        self.node = node
        self.fn = fn
        self.loc = loc
        self.how = how          # store | del | mutate:<method> | rebind
        self.text = norm(node)[:90].split('\n')[0]

    @property
    def lineno(self):
        return getattr(self.node, 'lineno', 0)

    def where(self):
        return '%s:%d' % (self.fn.module.relpath, self.lineno)

    def __repr__(self):
        return '<write %s %s @%s:%d>' % (self.how, self.loc, self.fn.qualname, self.lineno)


class Effects(object):
    def __init__(self, ctx):
        self.ctx = ctx
        self.index = ctx.index
        self.te = ctx.te
        self.cg = ctx.cg
        self.edges = {}       # key -> set(source keys / base origins): key may BE one of these objects
        self.holds = {}       # container key -> set(sources of the elements stored in it)
        self.writes = {}      # fq -> [Write]
        self._build_alias_graph()
        for f in self.te.funcs:
            self.writes[f.qualname] = self._scan_writes(f)
        self._closure_cache = {}

    # ------------------------------------------------------------------ alias graph
    def _edge(self, key, srcs):
        if key is None:
            return
        self.edges.setdefault(key, set()).update(srcs)

    def _hold(self, key, srcs):
        if key is None or key in (FRESH, IMM, EXT, ('self',)):
            return
        self.holds.setdefault(key, set()).update(srcs)

    @staticmethod
    def elem(srcs):
        out = set()
        for s in srcs:
            if s in (IMM, EXT):
                out.add(s)
            elif s == FRESH or s == ('self',):
                out.add(EXT)
            else:
                out.add(('elem', s))
        return out

    def literal_elements(self, e, fn):
        """sources of the elements a container literal / comprehension is built from"""
        out = set()
        if isinstance(e, ast.Dict):
            for v in e.values:
                if v is not None:
                    out |= self.sources(v, fn)
        elif isinstance(e, (ast.List, ast.Tuple, ast.Set)):
            for v in e.elts:
                out |= self.sources(v, fn)
        elif isinstance(e, (ast.ListComp, ast.SetComp, ast.GeneratorExp)):
            out |= self.sources(e.elt, fn)
        elif isinstance(e, ast.DictComp):
            out |= self.sources(e.value, fn)
        return out

    def sources(self, e, fn):
        """abstract keys / base origins an expression's value may alias"""
        te = self.te
        if e is None or isinstance(e, ast.Constant) or isinstance(e, ast.JoinedStr):
            return {IMM}
        if isinstance(e, (ast.List, ast.Dict, ast.Set, ast.Tuple, ast.ListComp, ast.DictComp, ast.SetComp,
                          ast.GeneratorExp)):
            return {FRESH}
        if isinstance(e, ast.Name):
            if e.id == 'self':
                return {('self',)}
            owner = te.var_owner(fn, e.id)
            if owner is not None:
                raw = te.lookup_name(fn, e.id)
                nar = te.narrow(e, raw, fn) if hasattr(e, '_parent') else raw
                if nar != raw and nar and all(t.startswith('C:') for t in nar):
                    # inside `if isinstance(x, <hl7apy class>)`: x cannot be a plain shared container
                    return {('typed', ('var', owner.qualname, e.id))}
                return {('var', owner.qualname, e.id)}
            mod = fn.module if fn is not None else None
            if mod is None:
                return {EXT}
            imp = mod.imports.get(e.id)
            if imp and imp[1] and imp[0] in self.index.modules:
                m = self.index.modules[imp[0]]
                if imp[1] in m.assigns:
                    return {('global', imp[0], imp[1])}
                return {IMM}     # function / class object
            if e.id in mod.assigns:
                return {('global', mod.name, e.id)}
            return {IMM}
        if isinstance(e, ast.Attribute):
            t = te.type_of(e.value, fn)
            out = set()
            for tag in t:
                if tag.startswith('M:'):
                    mods = self.index.versions if tag == 'M:lib' else [tag[2:]]
                    for m in mods:
                        if m in self.index.modules and e.attr in self.index.modules[m].assigns:
                            out.add(('global', m, e.attr))
                elif tag.startswith('K:'):
                    ci = self.index.classes.get(tag[2:])
                    if ci is not None and ci.find_attr(e.attr) is not None and not self._is_descriptor(ci.find_attr(e.attr)):
                        owner = [c for c in ci.mro if e.attr in c.attrs][0]
                        out.add(('clsattr', owner.qualname, e.attr))
                elif tag.startswith('C:'):
                    ci = self.index.classes.get(tag[2:])
                    if ci is None:
                        continue
                    prop = False
                    for s in te.subs(ci):
                        p = s.find_property(e.attr)
                        if p is not None:
                            prop = True
                            if p[0] is not None:
                                out.add(('ret', p[0].qualname))
                    if not prop:
                        root = te.root_of(ci)
                        if (root, e.attr) in te.iattr:
                            out.add(('field', root, e.attr))
                        for s in te.subs(ci):
                            if s.find_attr(e.attr) is not None and not self._is_descriptor(s.find_attr(e.attr)):
                                owner = [c for c in s.mro if e.attr in c.attrs][0]
                                out.add(('clsattr', owner.qualname, e.attr))
                        ga = [s.find_method('__getattr__') for s in te.subs(ci)]
                        if not out and any(ga):
                            for g in ga:
                                if g is not None:
                                    out.add(('ret', g.qualname))
            if not out:
                for r in te.attr_roots(t, e.attr):
                    if r != '?':
                        out.add(('field', r, e.attr))
            return out or {EXT}
        if isinstance(e, ast.Subscript):
            if isinstance(e.slice, ast.Slice):
                return {FRESH}
            return self.elem(self.sources(e.value, fn))
        if isinstance(e, ast.Starred):
            return self.sources(e.value, fn)
        if isinstance(e, ast.BoolOp):
            out = set()
            for v in e.values:
                out |= self.sources(v, fn)
            return out
        if isinstance(e, ast.IfExp):
            return self.sources(e.body, fn) | self.sources(e.orelse, fn)
        if isinstance(e, (ast.Compare, ast.UnaryOp, ast.BinOp)):
            return {FRESH}
        if isinstance(e, ast.Call):
            f = e.func
            if isinstance(f, ast.Name) and f.id in FRESH_CALLS and te._is_builtin_name(fn, f.id):
                return {FRESH}
            if isinstance(f, ast.Name) and f.id == 'getattr' and len(e.args) >= 2 and te._is_builtin_name(fn, 'getattr'):
                names = te.const_strings(e.args[1], fn)
                out = set()
                if names:
                    for n in names:
                        out |= self.sources(ast.Attribute(value=e.args[0], attr=n, ctx=ast.Load()), fn)
                    return out
                return {EXT}
            if isinstance(f, ast.Attribute):
                rt = te.type_of(f.value, fn)
                plain = not any(t.startswith(('C:', 'K:', 'M:')) for t in rt)
                if plain:
                    if f.attr in ('copy', 'keys', 'items', 'format', 'join', 'split', 'strip', 'upper', 'lower',
                                  'replace', 'rsplit', 'lstrip', 'rstrip', 'encode', 'decode', 'index', 'count',
                                  'startswith', 'endswith', 'find', 'strftime', 'groups', 'group', 'match',
                                  'search', 'sub', 'compile', 'strptime', 'now', 'read', 'recv', 'isdigit'):
                        return {FRESH}
                    if f.attr in ('get', 'pop', 'setdefault'):
                        out = self.elem(self.sources(f.value, fn))
                        for a in e.args[1:]:
                            out |= self.sources(a, fn)
                        return out
                    if f.attr == 'values':
                        return {FRESH}
            out = set()
            for t in te.resolve_call(e, fn):
                if t.ctor is not None:
                    out.add(FRESH)
                elif t.kind == 'func':
                    out.add(('ret', t.func.qualname))
                else:
                    out.add(EXT)
            return out or {EXT}
        if isinstance(e, ast.Lambda):
            return {IMM}
        return {EXT}

    @staticmethod
    def _is_descriptor(val):
        return isinstance(val, ast.Call) and isinstance(val.func, ast.Name) and val.func.id in ('property', 'staticmethod', 'classmethod')

    def _build_alias_graph(self):
        te = self.te
        for fn in te.funcs:
            fq = fn.qualname
            for n in own_nodes(fn.node):
                if isinstance(n, ast.Assign):
                    src = self.sources(n.value, fn)
                    for t in n.targets:
                        self._bind_target(t, src, n.value, fn)
                        le = self.literal_elements(n.value, fn)
                        if le:
                            for key in self._target_keys(t, fn):
                                self._hold(key, le)
                elif isinstance(n, ast.AugAssign):
                    self._bind_target(n.target, self.sources(n.value, fn), n.value, fn)
                elif isinstance(n, (ast.For, ast.comprehension)):
                    it = n.iter
                    if isinstance(it, ast.Call) and isinstance(it.func, ast.Name) and \
                            it.func.id in ('enumerate', 'iteritems', 'reversed', 'sorted', 'list') and it.args:
                        it = it.args[0]
                    if isinstance(it, ast.Call) and isinstance(it.func, ast.Attribute) and \
                            it.func.attr in ('items', 'values'):
                        it = it.func.value
                    self._bind_target(n.target, self.elem(self.sources(it, fn)), None, fn)
                elif isinstance(n, ast.Return) and n.value is not None:
                    self._edge(('ret', fq), self.sources(n.value, fn))
                    self._hold(('ret', fq), self.literal_elements(n.value, fn))
                elif isinstance(n, ast.Call):
                    f = n.func
                    # container mutation stores the argument inside the receiver
                    if isinstance(f, ast.Attribute) and f.attr in ('append', 'insert', 'extend', 'update', 'add',
                                                                   'setdefault') and n.args:
                        rt = te.type_of(f.value, fn)
                        if not any(t.startswith(('C:', 'K:', 'M:')) for t in rt):
                            for key in self._loc_keys(f.value, fn):
                                if f.attr in ('extend', 'update'):
                                    self._hold(key, self.elem(self.sources(n.args[-1], fn)) |
                                               self.literal_elements(n.args[-1], fn))
                                else:
                                    self._hold(key, self.sources(n.args[-1], fn))
            for s in self.cg.sites.get(fq, ()):
                for t in s.targets:
                    if t.kind != 'func':
                        continue
                    if s.kind == 'call':
                        b, extra, stars, kwstars = te.bind(s.node, t)
                        for p, a in b.items():
                            if p in t.func.params or p in t.func.kwonly:
                                self._edge(('var', t.func.qualname, p), self.sources(a, fn))
                            elif t.func.kwarg:
                                # a keyword that no parameter takes becomes an *element* of the fresh **kwargs dict
                                self._hold(('var', t.func.qualname, t.func.kwarg), self.sources(a, fn))
                        for kx in kwstars:
                            srcs = self.sources(kx, fn)
                            for p in t.func.params + t.func.kwonly:
                                self._edge(('var', t.func.qualname, p), srcs)
                            if t.func.kwarg:
                                self._edge(('var', t.func.qualname, t.func.kwarg), srcs)
                    elif s.kind == 'setprop' and s.args.get('value') is not None and len(t.func.params) >= 2:
                        p = t.func.params[-1] if t.func.name == '__setattr__' else t.func.params[1]
                        self._edge(('var', t.func.qualname, p), self.sources(s.args['value'], fn))
        # dynamic setattr(self, k, v) over a dict built with constant keys
        for fn in te.funcs:
            for n in own_nodes(fn.node):
                if isinstance(n, ast.Call) and isinstance(n.func, ast.Name) and n.func.id == 'setattr' and len(n.args) == 3:
                    dyn = te.dynamic_setattr_names(n, fn)
                    if dyn:
                        rt = te.type_of(n.args[0], fn)
                        for name, (ts, exprs) in dyn.items():
                            for v, prod in exprs:
                                for r in te.attr_roots(rt, name):
                                    self._edge(('field', r, name), self.sources(v, prod))

    def _loc_keys(self, e, fn):
        """alias-graph keys of the storage an expression denotes (for stores)"""
        out = []
        for s in self.sources(e, fn):
            if s not in (FRESH, IMM, EXT, ('self',)):
                out.append(s[1] if s[0] == 'typed' else s)
        return out

    def _bind_target(self, t, src, value_expr, fn):
        te = self.te
        if isinstance(t, ast.Name):
            owner = te.var_owner(fn, t.id) or fn
            self._edge(('var', owner.qualname, t.id), src)
        elif isinstance(t, ast.Attribute):
            rt = te.type_of(t.value, fn)
            for tag in rt:
                if tag.startswith('M:') and tag[2:] in self.index.modules:
                    self._edge(('global', tag[2:], t.attr), src)
                elif tag.startswith('K:'):
                    self._edge(('clsattr', tag[2:], t.attr), src)
            for r in te.attr_roots(rt, t.attr):
                if r != '?':
                    self._edge(('field', r, t.attr), src)
        elif isinstance(t, ast.Subscript):
            for key in self._loc_keys(t.value, fn):
                self._hold(key, src)
        elif isinstance(t, (ast.Tuple, ast.List)):
            if isinstance(value_expr, (ast.Tuple, ast.List)) and len(value_expr.elts) == len(t.elts):
                for tt, v in zip(t.elts, value_expr.elts):
                    self._bind_target(tt, self.sources(v, fn), v, fn)
            else:
                for tt in t.elts:
                    self._bind_target(tt, self.elem(src), None, fn)

    def _target_keys(self, t, fn):
        te = self.te
        if isinstance(t, ast.Name):
            owner = te.var_owner(fn, t.id) or fn
            return [('var', owner.qualname, t.id)]
        if isinstance(t, ast.Attribute):
            rt = te.type_of(t.value, fn)
            return [('field', r, t.attr) for r in te.attr_roots(rt, t.attr) if r != '?']
        if isinstance(t, ast.Subscript):
            return self._loc_keys(t.value, fn)
        return []

    def origins(self, keys, limit=4000, _guard=frozenset(), through_holds=False):
        """transitive closure of alias sources -> set of terminal origins reachable from keys"""
        seen = set()
        work = list(keys)
        out = set()
        while work and len(seen) < limit:
            k = work.pop()
            if k in seen:
                continue
            seen.add(k)
            if k in (FRESH, IMM, EXT, ('self',)):
                out.add(k)
                continue
            if k[0] == 'typed':
                if k in _guard or len(_guard) > 6:
                    continue
                for o in self.origins({k[1]}, limit, _guard | {k}):
                    if o[0] in ('global', 'clsattr'):
                        key = ('mod', o[1], o[2]) if o[0] == 'global' else None
                        ts = self.te.modvar.get((o[1], o[2]), set()) if o[0] == 'global' else set()
                        if not any(t.startswith('C:') for t in ts):
                            continue
                    out.add(o)
                continue
            if k[0] == 'elem':
                inner = k[1]
                if inner[0] in ('global', 'clsattr') and self.holds_containers(inner):
                    out.add(inner)        # a (container) element of a shared container is shared
                if inner[0] in ('elem', 'typed') and k not in _guard and len(_guard) < 6:
                    for r in self.origins({inner}, limit, _guard | {k}):
                        if r[0] in ('global', 'clsattr') and self.holds_containers(r):
                            out.add(r)
                if through_holds:   # objects stored into a container at run time (imprecise: informational only)
                    work.extend(self.holds.get(inner, ()))
                for a in self.edges.get(inner, ()):
                    if a not in (FRESH, IMM, EXT, ('self',)):
                        work.append(('elem', a))
                continue
            if k[0] in ('global', 'clsattr') and self.is_mutable_root(k):
                out.add(k)
            nxt = self.edges.get(k)
            if nxt:
                work.extend(nxt)
            elif k[0] == 'var':
                out.add(('param?', k[1], k[2]))
        return out

    def is_mutable_root(self, k):
        """the module variable / class attribute names an object that can be mutated in place"""
        te = self.te
        if k[0] == 'global':
            ts = te.modvar.get((k[1], k[2]), set())
            m = self.index.modules.get(k[1])
            val = m.assigns.get(k[2]) if m is not None else None
            if isinstance(val, ast.Constant):
                return False
            return not ts or bool(ts - {'str', 'int', 'bool', 'none', 'tuple'}) or \
                (('tuple' in ts) and self.holds_containers(k))
        if k[0] == 'clsattr':
            ci = self.index.classes.get(k[1])
            val = ci.find_attr(k[2]) if ci is not None else None
            if isinstance(val, ast.Constant):
                return False
            if isinstance(val, ast.Tuple) and all(isinstance(e, ast.Constant) for e in val.elts):
                return False
            return True
        return False

    def holds_containers(self, k):
        te = self.te
        key = ('mod', k[1], k[2]) if k[0] == 'global' else ('clsattr', k[1], k[2])
        c = te.c_get(key)
        return bool(c & CONTAINER_TAGS) or not c and k[0] == 'global' and k[2] in (
            'ELEMENTS', 'MESSAGES', 'SEGMENTS', 'FIELDS', 'DATATYPES', 'DATATYPES_STRUCTS', 'GROUPS', 'TABLES')

    def shared_roots(self, expr, fn):
        """process-wide objects (module variables / class attributes) the value of expr may be"""
        return {o for o in self.origins(self.sources(expr, fn)) if o[0] in ('global', 'clsattr')}

    # ------------------------------------------------------------------ write sites
    def _receiver_loc(self, recv, fn, attr=None):
        """abstract locations written when `recv` (an object expression) is mutated / has attr stored"""
        te = self.te
        locs = []
        if attr is not None:
            rt = te.type_of(recv, fn)
            for tag in rt:
                if tag.startswith('M:') and tag[2:] in self.index.modules:
                    locs.append(('global', tag[2:], attr))
                elif tag.startswith('K:'):
                    locs.append(('clsattr', tag[2:], attr))
            if not locs:
                for r in sorted(te.attr_roots(rt, attr)):
                    locs.append(('field', r, attr))
            return locs
        for s in self.sources(recv, fn):
            if s == FRESH or s == IMM:
                continue
            if s == EXT:
                locs.append(('unknown', norm(recv)[:40]))
            elif s[0] == 'typed':
                locs.append(('local', s[1][1], s[1][2]))
            elif s[0] == 'var':
                f = self.index.functions.get(s[1])
                if f is not None and (s[2] in f.params or s[2] in f.kwonly or s[2] in (f.vararg, f.kwarg)):
                    locs.append(('param', s[1], s[2]))
                else:
                    locs.append(('local', s[1], s[2]))
            elif s[0] in ('field', 'global', 'clsattr', 'ret', 'elem'):
                locs.append(s)
        return locs

    def _scan_writes(self, fn):
        te = self.te
        out = []
        globals_declared = set()
        for n in own_nodes(fn.node):
            if isinstance(n, ast.Global):
                globals_declared.update(n.names)
        implicit = {id(s.node) for s in self.cg.sites.get(fn.qualname, ()) if s.kind in ('setprop', 'delattr')
                    and any(t.kind == 'func' for t in s.targets)}

        def attr_store(node, how):
            # a store intercepted by a property setter / __setattr__ is a call, not a raw write
            if id(node) in implicit:
                return
            for loc in self._receiver_loc(node.value, fn, node.attr):
                out.append(Write(node, fn, loc, how))

        def target_store(t, how):
            if isinstance(t, ast.Name):
                if t.id in globals_declared:
                    out.append(Write(t, fn, ('global', fn.module.name, t.id), 'rebind'))
            elif isinstance(t, ast.Attribute):
                attr_store(t, how)
            elif isinstance(t, ast.Subscript):
                rt = te.type_of(t.value, fn)
                if any(x.startswith('C:') for x in rt) and not (rt & CONTAINER_TAGS):
                    return    # __setitem__/__delitem__ of an hl7apy object: a call site
                for loc in self._receiver_loc(t.value, fn):
                    out.append(Write(t, fn, loc, how))
            elif isinstance(t, (ast.Tuple, ast.List)):
                for tt in t.elts:
                    target_store(tt, how)

        for n in own_nodes(fn.node):
            if isinstance(n, ast.Assign):
                for t in n.targets:
                    target_store(t, 'store')
            elif isinstance(n, (ast.AugAssign, ast.AnnAssign)):
                target_store(n.target, 'store')
            elif isinstance(n, ast.Delete):
                for t in n.targets:
                    target_store(t, 'del')
            elif isinstance(n, ast.Call):
                f = n.func
                if isinstance(f, ast.Attribute) and f.attr in MUTATORS:
                    ts = te.resolve_call(n, fn)
                    if any(t.kind == 'builtin' for t in ts):
                        rt = te.type_of(f.value, fn)
                        guess_only = not (rt & CONTAINER_TAGS) and any(t.kind == 'func' for t in ts)
                        if guess_only:
                            continue     # e.g. x.add(y) on an untyped receiver: Element.add, handled as a call
                        if rt & (CONTAINER_TAGS | {'?'}) or not any(x.startswith('C:') for x in rt):
                            for loc in self._receiver_loc(f.value, fn):
                                out.append(Write(n, fn, loc, 'mutate:' + f.attr))
                if isinstance(f, ast.Name) and f.id in ('setattr', 'delattr') and len(n.args) >= 2 and \
                        te._is_builtin_name(fn, f.id):
                    names = te.const_strings(n.args[1], fn)
                    if names is None:
                        dyn = te.dynamic_setattr_names(n, fn) if f.id == 'setattr' else None
                        names = set(dyn) if dyn else None
                    sites = [s for s in self.cg.sites[fn.qualname] if s.node is n and s.kind in ('setprop', 'delattr')]
                    handled = {s.args.get('name') for s in sites if any(t.kind == 'func' for t in s.targets)}
                    if names:
                        for an in sorted(names):
                            if an in handled and self._intercepted(n.args[0], an, fn):
                                continue
                            for loc in self._receiver_loc(n.args[0], fn, an):
                                out.append(Write(n, fn, loc, 'store' if f.id == 'setattr' else 'del'))
                    elif not sites:
                        out.append(Write(n, fn, ('unknown', norm(n)[:50]), 'store'))
        return out

    def _intercepted(self, obj, name, fn):
        """attribute `name` of obj is a property with a setter on every candidate class"""
        te = self.te
        cl = [self.index.classes[t[2:]] for t in te.type_of(obj, fn) if t.startswith('C:') and t[2:] in self.index.classes]
        if not cl:
            return False
        for ci in cl:
            for s in te.subs(ci):
                p = s.find_property(name)
                if p is None or p[1] is None:
                    return False
        return True

    # ------------------------------------------------------------------ summaries
    def writes_closure(self, roots, pred=None, stop=None):
        """all Write records of functions reachable from roots"""
        reach = self.cg.reachable(roots, pred=pred, stop=stop)
        out = []
        for fq in sorted(reach):
            out.extend(self.writes.get(fq, ()))
        return out, reach

    def writers_of(self, loc_pred):
        """-> [Write] over the whole program whose location satisfies loc_pred"""
        out = []
        for fq in sorted(self.writes):
            for w in self.writes[fq]:
                if loc_pred(w.loc):
                    out.append(w)
        return out

    def resolve_shared(self, w):
        """process-wide roots a write may touch (through aliasing), as a set of ('global'|'clsattr', ...)"""
        loc = w.loc
        if loc[0] in ('global', 'clsattr'):
            return {loc} if (w.how == 'rebind' or self.is_mutable_root(loc) or w.how in ('store', 'del') and
                             isinstance(w.node, ast.Attribute)) else set()
        if loc[0] in ('param', 'local'):
            return {o for o in self.origins({('var', loc[1], loc[2])}) if o[0] in ('global', 'clsattr')}
        if loc[0] in ('field', 'ret', 'elem'):
            if w.how.startswith('mutate') or isinstance(w.node, ast.Subscript):
                return {o for o in self.origins({loc}) if o[0] in ('global', 'clsattr')}
        return set()
