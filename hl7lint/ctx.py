"""Shared analysis context (built once per process)."""
from .src import SourceIndex
from . import versions
from .types import TypeEngine
from .callgraph import CallGraph
from .effects import Effects

_CTX = {}


class Ctx(object):
    def __init__(self, root=None):
        self.index = SourceIndex(root)
        self.base_datatypes = versions.all_base_datatypes(self.index)
        self.te = TypeEngine(self.index, self.base_datatypes)
        self.cg = CallGraph(self.index, self.te)
        self.fx = Effects(self)
        self._esc = None

    @property
    def esc(self):
        if self._esc is None:
            from .escapes import Escapes
            self._esc = Escapes(self)
        return self._esc


def get(root=None):
    key = root or ''
    if key not in _CTX:
        _CTX[key] = Ctx(root)
    return _CTX[key]
